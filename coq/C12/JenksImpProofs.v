(* C12/JenksImpProofs.v — the imperative model of _run_numpy_jenks_matrices / _run_jenks (JenksImp.v)
   refines the Fisher-Jenks recurrence of Jenks.v, for every data list and every k:
     jenks_matrices_cells   every cell of both matrices, by loop invariants over the three nested loops
                            (Leibniz equality with the functional reading W: same candidate order, same
                            tie rule, same incremental cost, zero row);
     cinc_ssd / QW_V        the incremental cost is the sum of squared deviations and W is the value V
                            that JenksProofs.v proves optimal (up to Qeq);
     jenks_imp_*            the theorems claimed in PropsJenksImp.v. *)
From Coq Require Import List Arith Bool ZArith QArith Lia.
Import ListNotations.
Require Import C12.Jenks C12.JenksProofs C12.JenksImp.
Local Open Scope nat_scope.

(* ---------- generic facts about the candidate fold ---------- *)
Section WGen.
  Context {T : Type}.
  Variable zero : T.
  Variable leb : T -> T -> bool.
  Variable add : T -> T -> T.
  Variable c : nat -> nat -> T.

  Lemma wfold_inv (cand : nat -> T) cs cur :
    match fold_left (wstep leb cand) cs cur with
    | None => cs = [] /\ cur = None
    | Some (i, v) => (In i cs /\ v = cand i) \/ cur = Some (i, v)
    end.
  Proof.
    revert cur. induction cs as [|a cs IH]; intros cur; simpl.
    - destruct cur as [[i v]|]; auto.
    - specialize (IH (wstep leb cand cur a)).
      destruct (fold_left (wstep leb cand) cs (wstep leb cand cur a)) as [[i v]|].
      + destruct IH as [(Hin & Hv)|Hc]; [left; auto|].
        unfold wstep in Hc. destruct cur as [[i0 v0]|].
        * destruct (leb (cand a) v0); [inversion Hc; subst; left; auto|right; exact Hc].
        * inversion Hc; subst; left; auto.
      + destruct IH as (_ & Hc). unfold wstep in Hc. destruct cur as [[i0 v0]|]; [|discriminate].
        destruct (leb (cand a) v0); discriminate.
  Qed.

  Lemma wsel_some (cand : nat -> T) l : 2 <= l ->
    exists i, wsel leb cand l = Some (i, cand i) /\ 1 <= i < l.
  Proof.
    intros Hl. unfold wsel. pose proof (wfold_inv cand (rev (seq 1 (l - 1))) None) as H.
    destruct (fold_left (wstep leb cand) (rev (seq 1 (l - 1))) None) as [[i v]|].
    - destruct H as [(Hin & Hv)|Hc]; [|discriminate]. subst v. exists i. split; [reflexivity|].
      apply in_rev in Hin. apply in_seq in Hin. lia.
    - destruct H as (H & _). apply (f_equal (@length nat)) in H. rewrite rev_length, seq_length in H.
      simpl in H. lia.
  Qed.

  Lemma W_small j l : l <= 1 -> W zero leb add c j l = zero.
  Proof. intros H. destruct j; simpl; destruct (Nat.leb_spec l 1); auto; lia. Qed.
  Lemma W_col1 l : 2 <= l -> W zero leb add c 0 l = c 0 l.
  Proof. intros H. simpl. destruct (Nat.leb_spec l 1); auto; lia. Qed.
  Lemma W_step j l : 2 <= l ->
    exists i, Wsel zero leb add c j l = Some (i, Wcand zero leb add c j l i) /\ 1 <= i < l /\
              W zero leb add c (S j) l = Wcand zero leb add c j l i.
  Proof.
    intros H. destruct (wsel_some (Wcand zero leb add c j l) l H) as (i & Hs & Hi).
    exists i. split; [exact Hs|]. split; [exact Hi|].
    cbn [W]. destruct (Nat.leb_spec l 1); [lia|].
    unfold Wsel, Wcand in Hs. rewrite Hs. reflexivity.
  Qed.
End WGen.

(* a cell (lower_class_limits, var_combinations) as the state of the candidate fold *)
Definition enc (o : option (nat * Q)) : Z * qx :=
  match o with None => (0%Z, PInf) | Some (i, v) => (Z.of_nat (S i), Fin v) end.

(* the effect of one jstep on the cell (l, cc) it touches *)
Definition jupd (l lower i4 : nat) (var : Q) (L : mat Z) (Vc : mat qx) (cc : nat) : Z * qx :=
  let nv := xadd (Fin var) (Vc i4 (cc - 1)) in
  if xge (Vc l cc) nv then (Z.of_nat lower, nv) else (L l cc, Vc l cc).

Lemma jstep_cells l lower i4 var L Vc j r cc :
  let R := jstep l lower i4 var (L, Vc) j in
  (fst R r cc, snd R r cc) =
  if (r =? l) && (cc =? j) then jupd l lower i4 var L Vc j else (L r cc, Vc r cc).
Proof.
  cbn zeta. unfold jstep, jupd.
  destruct (xge (Vc l j) (xadd (Fin var) (Vc i4 (j - 1)))); cbn [fst snd]; unfold upd.
  - destruct ((r =? l) && (cc =? j)); reflexivity.
  - destruct ((r =? l) && (cc =? j)) eqn:E; [|reflexivity].
    apply andb_true_iff in E as (E1 & E2). apply Nat.eqb_eq in E1, E2. subst. reflexivity.
Qed.

Lemma jloop_cells l lower i4 var : i4 <> l -> forall len a L Vc r cc,
  let R := fold_left (jstep l lower i4 var) (seq a len) (L, Vc) in
  (fst R r cc, snd R r cc) =
  if (r =? l) && (a <=? cc) && (cc <? a + len) then jupd l lower i4 var L Vc cc else (L r cc, Vc r cc).
Proof.
  intros Hne. induction len as [|len IH]; intros a L Vc r cc; cbn zeta.
  - simpl. replace (cc <? a + 0) with (cc <? a) by (f_equal; lia).
    destruct (Nat.leb_spec a cc), (Nat.ltb_spec cc a); try lia; rewrite ?andb_false_r; reflexivity.
  - cbn [seq fold_left].
    destruct (jstep l lower i4 var (L, Vc) a) as [L1 Vc1] eqn:E1.
    specialize (IH (S a) L1 Vc1 r cc). cbn zeta in IH. rewrite IH. clear IH.
    assert (H1 : forall r' c', (L1 r' c', Vc1 r' c') =
              if (r' =? l) && (c' =? a) then jupd l lower i4 var L Vc a else (L r' c', Vc r' c')).
    { intros r' c'. pose proof (jstep_cells l lower i4 var L Vc a r' c') as H. cbn zeta in H.
      rewrite E1 in H. exact H. }
    destruct (Nat.eqb_spec r l) as [->|Hr]; cbn [andb].
    2:{ rewrite H1. destruct (Nat.eqb_spec r l); [contradiction|]. reflexivity. }
    destruct (Nat.leb_spec (S a) cc) as [Ha|Ha]; cbn [andb].
    + (* cc > a : cell (l, cc) not touched by the first step *)
      assert (Hc1 : (L1 l cc, Vc1 l cc) = (L l cc, Vc l cc)).
      { rewrite H1. rewrite Nat.eqb_refl. destruct (Nat.eqb_spec cc a); [lia|]. reflexivity. }
      assert (Hp : Vc1 i4 (cc - 1) = Vc i4 (cc - 1)).
      { pose proof (H1 i4 (cc - 1)) as H. destruct (Nat.eqb_spec i4 l); [contradiction|].
        cbn [andb] in H. inversion H. reflexivity. }
      inversion Hc1 as [[HL HV]].
      destruct (Nat.leb_spec a cc); [|lia]. cbn [andb].
      replace (cc <? S a + len) with (cc <? a + S len) by (f_equal; lia).
      destruct (cc <? a + S len); [|rewrite HL, HV; reflexivity].
      unfold jupd. rewrite Hp, HL, HV. reflexivity.
    + (* cc <= a *)
      rewrite H1. rewrite Nat.eqb_refl. cbn [andb].
      destruct (Nat.eqb_spec cc a) as [->|Hca].
      * destruct (Nat.leb_spec a a); [|lia]. destruct (Nat.ltb_spec a (a + S len)); [|lia]. reflexivity.
      * destruct (Nat.leb_spec a cc); [lia|]. reflexivity.
Qed.

(* one update of a cell in the encoding of the candidate fold *)
Lemma jupd_enc l lower i4 var L Vc cc cur p (cand : nat -> Q) :
  lower = S i4 ->
  (L l cc, Vc l cc) = enc cur -> Vc i4 (cc - 1) = Fin p -> cand i4 = (var + p)%Q ->
  jupd l lower i4 var L Vc cc = enc (wstep Qle_bool cand cur i4).
Proof.
  intros -> Hc Hp Hcand. unfold jupd. rewrite Hp. cbn [xadd].
  destruct cur as [[i0 v0]|]; cbn [enc] in Hc; apply pair_equal_spec in Hc as (HL & HV); rewrite HL, HV;
    cbn [enc fst snd xge wstep]; rewrite Hcand.
  - destruct (Qle_bool (var + p) v0); reflexivity.
  - reflexivity.
Qed.

Section Row.
  Variables (data : list Q) (k l : nat) (L0 : mat Z) (Vc0 : mat qx) (var0 : Q).
  Hypothesis Hl : 2 <= l.
  Let cnd (cc i : nat) : Q := Wcand 0%Q Qle_bool Qplus (cinc data) (cc - 2) l i.
  Hypothesis Hrows : forall i cc, 1 <= i < l -> 2 <= cc <= k -> Vc0 i (cc - 1) = Fin (QW data (cc - 2) i).
  Hypothesis Hinit : forall cc, 2 <= cc <= k -> (L0 l cc, Vc0 l cc) = enc None.

  Definition Minv (t : nat) (s : mstate) : Prop :=
    ms_acc s = fold_left (accstep data) (rev (seq (l - t) t)) (0, 0, 0)%Q /\
    forall r cc, (ms_L s r cc, ms_Vc s r cc) =
      if (r =? l) && (2 <=? cc) && (cc <=? k)
      then enc (fold_left (wstep Qle_bool (cnd cc)) (rev (seq (l - t) t)) None)
      else (L0 r cc, Vc0 r cc).

  Lemma mloop_inv t : t <= l - 1 ->
    Minv t (fold_left (mstep data k l) (seq 0 t) (MS (0, 0, 0)%Q var0 L0 Vc0)).
  Proof.
    induction t as [|t IH]; intros Ht.
    - split; [reflexivity|]. intros r cc. cbn [seq fold_left rev ms_L ms_Vc].
      destruct ((r =? l) && (2 <=? cc) && (cc <=? k)) eqn:E; [|reflexivity].
      apply andb_true_iff in E as (E & E3). apply andb_true_iff in E as (E1 & E2).
      apply Nat.eqb_eq in E1. apply Nat.leb_le in E2, E3. subst r. apply Hinit. lia.
    - rewrite seq_S, fold_left_app. cbn [fold_left Nat.add].
      specialize (IH ltac:(lia)).
      set (s := fold_left (mstep data k l) (seq 0 t) (MS (0, 0, 0)%Q var0 L0 Vc0)) in *.
      destruct IH as (Hacc & Hcells).
      assert (Hseq : rev (seq (l - S t) (S t)) = rev (seq (l - t) t) ++ [l - t - 1]).
      { replace (l - S t) with (l - t - 1) by lia. cbn [seq rev].
        replace (S (l - t - 1)) with (l - t) by lia. reflexivity. }
      unfold mstep. destruct (Nat.eqb_spec (l - t - 1) 0) as [H0|H0]; [lia|]. clear H0.
      set (i4 := l - t - 1) in *.
      assert (Ha : accstep data (ms_acc s) i4 =
                   fold_left (accstep data) (rev (seq (l - S t) (S t))) (0, 0, 0)%Q).
      { rewrite Hseq, fold_left_app, <- Hacc. reflexivity. }
      assert (Hvar : acc_var (accstep data (ms_acc s) i4) = cinc data i4 l).
      { unfold cinc. rewrite Ha. replace (l - i4) with (S t) by lia.
        replace (l - S t) with i4 by lia. reflexivity. }
      destruct (fold_left (jstep l (l - t) i4 (acc_var (accstep data (ms_acc s) i4))) (seq 2 (k - 1))
                          (ms_L s, ms_Vc s)) as [L' Vc'] eqn:E.
      split; [exact Ha|]. cbn [ms_L ms_Vc]. intros r cc.
      pose proof (jloop_cells l (l - t) i4 (acc_var (accstep data (ms_acc s) i4)) ltac:(lia)
                              (k - 1) 2 (ms_L s) (ms_Vc s) r cc) as HJ.
      cbn zeta in HJ. rewrite E in HJ. cbn [fst snd] in HJ. rewrite HJ. clear HJ.
      destruct (Nat.eqb_spec r l) as [->|Hr]; cbn [andb].
      2:{ rewrite Hcells. destruct (Nat.eqb_spec r l); [contradiction|]. reflexivity. }
      destruct (Nat.leb_spec 2 cc) as [H2|H2]; cbn [andb].
      2:{ rewrite Hcells. rewrite Nat.eqb_refl. destruct (Nat.leb_spec 2 cc); [lia|]. reflexivity. }
      destruct (Nat.leb_spec cc k) as [Hk|Hk].
      + destruct (Nat.ltb_spec cc (2 + (k - 1))); [|lia].
        rewrite Hseq, fold_left_app. cbn [fold_left].
        apply jupd_enc with (p := QW data (cc - 2) i4).
        * lia.
        * rewrite Hcells. rewrite Nat.eqb_refl. destruct (Nat.leb_spec 2 cc); [|lia].
          destruct (Nat.leb_spec cc k); [|lia]. cbn [andb]. reflexivity.
        * pose proof (Hcells i4 (cc - 1)) as Hc. destruct (Nat.eqb_spec i4 l); [lia|].
          cbn [andb] in Hc. apply pair_equal_spec in Hc as (_ & Hc). rewrite Hc.
          apply Hrows; lia.
        * unfold cnd, Wcand. rewrite Hvar. reflexivity.
      + destruct (Nat.ltb_spec cc (2 + (k - 1))); [lia|].
        rewrite Hcells. rewrite Nat.eqb_refl. destruct (Nat.leb_spec 2 cc); [|lia].
        destruct (Nat.leb_spec cc k); [lia|]. reflexivity.
  Qed.

  (* the whole body of the row loop *)
  Lemma lstep_cells :
    let R := lstep data k (var0, L0, Vc0) l in
    fst (fst R) = cinc data 0 l /\
    forall r cc, (snd (fst R) r cc, snd R r cc) =
      if r =? l then
        if cc =? 1 then (1%Z, Fin (cinc data 0 l))
        else if (2 <=? cc) && (cc <=? k) then enc (Wsel 0%Q Qle_bool Qplus (cinc data) (cc - 2) l)
        else (L0 r cc, Vc0 r cc)
      else (L0 r cc, Vc0 r cc).
  Proof.
    cbn zeta. unfold lstep.
    replace (seq 0 l) with (seq 0 (l - 1) ++ [l - 1]) by (rewrite <- seq_S; f_equal; lia).
    rewrite fold_left_app. cbn [fold_left].
    destruct (mloop_inv (l - 1) ltac:(lia)) as (Hacc & Hcells).
    set (s := fold_left (mstep data k l) (seq 0 (l - 1)) (MS (0, 0, 0)%Q var0 L0 Vc0)) in *.
    unfold mstep. replace (l - (l - 1) - 1) with 0 by lia. cbn [Nat.eqb ms_var ms_L ms_Vc fst snd].
    assert (Hvar : acc_var (accstep data (ms_acc s) 0) = cinc data 0 l).
    { unfold cinc. rewrite Nat.sub_0_r. destruct l as [|l']; [lia|]. cbn [seq rev].
      rewrite fold_left_app. cbn [fold_left]. rewrite Hacc.
      replace (S l' - (S l' - 1)) with 1 by lia. replace (S l' - 1) with l' by lia. reflexivity. }
    split; [exact Hvar|]. intros r cc. unfold upd. rewrite Hvar.
    destruct (Nat.eqb_spec r l) as [->|Hr]; cbn [andb].
    2:{ rewrite Hcells. destruct (Nat.eqb_spec r l); [contradiction|]. reflexivity. }
    destruct (Nat.eqb_spec cc 1) as [->|Hc1]; [reflexivity|].
    rewrite Hcells. rewrite Nat.eqb_refl. cbn [andb].
    destruct ((2 <=? cc) && (cc <=? k)); [|reflexivity].
    unfold Wsel, wsel. replace (l - (l - 1)) with 1 by lia. reflexivity.
  Qed.
End Row.

(* what lower_class_limits[r][cc] holds for a filled cell *)
Definition Lspec (data : list Q) (r cc : nat) : Z :=
  if cc =? 1 then 1%Z
  else match Wsel 0%Q Qle_bool Qplus (cinc data) (cc - 2) r with
       | Some (i, _) => Z.of_nat (S i)
       | None => 0%Z
       end.

Section Outer.
  Variables (data : list Q) (k : nat).
  Hypothesis Hk : 1 <= k.
  Let n := length data.
  Definition filled (l0 r cc : nat) : bool := (2 <=? r) && (r <? l0) && (1 <=? cc) && (cc <=? k).
  Definition Linv (l0 : nat) (s : Q * mat Z * mat qx) : Prop :=
    forall r cc, (snd (fst s) r cc, snd s r cc) =
      if filled l0 r cc then (Lspec data r cc, Fin (QW data (cc - 1) r))
      else (init_lcl k r cc, init_vc n k r cc).

  Lemma outer_inv t : t <= n - 1 ->
    Linv (2 + t) (fold_left (lstep data k) (seq 2 t) (0%Q, init_lcl k, init_vc n k)).
  Proof.
    induction t as [|t IH]; intros Ht.
    - intros r cc. cbn [seq fold_left fst snd]. unfold filled.
      destruct (Nat.leb_spec 2 r), (Nat.ltb_spec r (2 + 0)); try lia; reflexivity.
    - rewrite seq_S, fold_left_app. cbn [fold_left].
      specialize (IH ltac:(lia)).
      destruct (fold_left (lstep data k) (seq 2 t) (0%Q, init_lcl k, init_vc n k)) as [[var0 L0] Vc0].
      unfold Linv in IH. cbn [fst snd] in IH.
      set (l := 2 + t) in *.
      assert (Hrows : forall i cc, 1 <= i < l -> 2 <= cc <= k -> Vc0 i (cc - 1) = Fin (QW data (cc - 2) i)).
      { intros i cc Hi Hc. pose proof (f_equal snd (IH i (cc - 1))) as H. cbn [snd] in H.
        rewrite H. unfold filled. destruct (Nat.leb_spec 2 i) as [H2|H2]; cbn [andb].
        - destruct (Nat.ltb_spec i l); [|lia]. destruct (Nat.leb_spec 1 (cc - 1)); [|lia].
          destruct (Nat.leb_spec (cc - 1) k); [|lia]. cbn [andb snd].
          replace (cc - 1 - 1) with (cc - 2) by lia. reflexivity.
        - cbn [snd]. unfold init_vc. destruct (Nat.leb_spec 2 i); [lia|]. cbn [andb].
          unfold QW. rewrite W_small by lia. reflexivity. }
      assert (Hinit : forall cc, 2 <= cc <= k -> (L0 l cc, Vc0 l cc) = enc None).
      { intros cc Hc. rewrite IH. unfold filled. destruct (Nat.ltb_spec l l); [lia|].
        rewrite andb_false_r. cbn [andb]. unfold init_lcl, init_vc, enc.
        destruct (Nat.eqb_spec l 1); [lia|]. cbn [andb].
        destruct (Nat.leb_spec 2 l); [|lia]. destruct (Nat.leb_spec l n); [|lia].
        destruct (Nat.leb_spec 1 cc); [|lia]. destruct (Nat.leb_spec cc k); [|lia]. reflexivity. }
      pose proof (lstep_cells data k l L0 Vc0 var0 ltac:(lia) Hrows Hinit) as (_ & HR).
      intros r cc. rewrite HR. clear HR.
      destruct (Nat.eqb_spec r l) as [->|Hr].
      + unfold filled. destruct (Nat.leb_spec 2 l); [|lia]. destruct (Nat.ltb_spec l (2 + S t)); [|lia].
        cbn [andb].
        destruct (Nat.eqb_spec cc 1) as [->|Hc1].
        * destruct (Nat.leb_spec 1 k); [|lia]. cbn [andb Nat.leb]. unfold Lspec. cbn [Nat.eqb Nat.sub].
          unfold QW. rewrite W_col1 by lia. reflexivity.
        * destruct (Nat.leb_spec 2 cc) as [H2|H2]; cbn [andb].
          -- destruct (Nat.leb_spec 1 cc); [|lia]. cbn [andb].
             destruct (Nat.leb_spec cc k) as [Hck|Hck].
             ++ destruct (W_step 0%Q Qle_bool Qplus (cinc data) (cc - 2) l ltac:(lia)) as (i & Hs & Hi & HW).
                unfold Lspec. destruct (Nat.eqb_spec cc 1); [lia|]. rewrite Hs. cbn [enc].
                unfold QW. replace (cc - 1) with (S (cc - 2)) by lia. rewrite HW. reflexivity.
             ++ rewrite IH. unfold filled. destruct (Nat.ltb_spec l l); [lia|].
                rewrite andb_false_r. reflexivity.
          -- rewrite IH. unfold filled. destruct (Nat.ltb_spec l l); [lia|].
             rewrite andb_false_r. cbn [andb]. destruct (Nat.leb_spec 1 cc); [lia|]. reflexivity.
      + rewrite IH. unfold filled.
        replace (r <? 2 + S t) with (r <? l); [reflexivity|].
        destruct (Nat.ltb_spec r l), (Nat.ltb_spec r (2 + S t)); lia || reflexivity.
  Qed.

  Theorem jenks_matrices_cells : forall r cc,
    (fst (jenks_matrices data k) r cc, snd (jenks_matrices data k) r cc) =
    if (2 <=? r) && (r <=? n) && (1 <=? cc) && (cc <=? k)
    then (Lspec data r cc, Fin (QW data (cc - 1) r))
    else (init_lcl k r cc, init_vc n k r cc).
  Proof.
    intros r cc. unfold jenks_matrices. fold n.
    pose proof (outer_inv (n - 1) ltac:(lia)) as H.
    destruct (fold_left (lstep data k) (seq 2 (n - 1)) (0%Q, init_lcl k, init_vc n k)) as [[v L] Vc].
    specialize (H r cc). cbn [fst snd] in *. rewrite H. unfold filled.
    destruct (Nat.leb_spec 2 r) as [H2|H2]; cbn [andb]; [|reflexivity].
    replace (r <? 2 + (n - 1)) with (r <=? n); [reflexivity|].
    destruct (Nat.leb_spec r n), (Nat.ltb_spec r (2 + (n - 1))); lia || reflexivity.
  Qed.
End Outer.

Lemma slice_map (data : list Q) : forall d i, i + d <= length data ->
  firstn d (skipn i data) = map (fun idx => nth idx data 0%Q) (seq i d).
Proof.
  induction d as [|d IH]; intros i H; [reflexivity|].
  cbn [seq map]. rewrite <- IH by lia.
  assert (Hs : skipn i data = nth i data 0%Q :: skipn (S i) data).
  { clear IH. revert i H. induction data as [|x xs IHx]; intros i H; simpl in H; [lia|].
    destruct i as [|i]; [reflexivity|]. cbn [skipn nth]. apply IHx. lia. }
  rewrite Hs. reflexivity.
Qed.

Definition sq (x : Q) : Q := (x * x)%Q.

Lemma acc_fold (data : list Q) : forall d i,
  let '(w, sm, ss) := fold_left (accstep data) (rev (seq i d)) (0, 0, 0)%Q in
  let xs := map (fun idx => nth idx data 0%Q) (seq i d) in
  (w == inject_Z (Z.of_nat d) /\ sm == qsum xs /\ ss == qsum (map (fun x => x * x) xs))%Q.
Proof.
  induction d as [|d IH]; intros i.
  - simpl. repeat split; reflexivity.
  - cbn [seq rev]. rewrite fold_left_app. cbn [fold_left].
    specialize (IH (S i)).
    destruct (fold_left (accstep data) (rev (seq (S i) d)) (0, 0, 0)%Q) as [[w sm] ss].
    cbn [accstep map qsum fold_right]. destruct IH as (Hw & Hs & Hss).
    split; [|split].
    + rewrite Hw. rewrite Nat2Z.inj_succ. unfold Z.succ. rewrite inject_Z_plus. reflexivity.
    + unfold qsum in Hs. rewrite Hs. ring.
    + unfold qsum in Hss. rewrite Hss. ring.
Qed.

Lemma cinc_ssd (data : list Q) i l : i < l <= length data -> (cinc data i l == ssd data i l)%Q.
Proof.
  intros H. unfold cinc, ssd. rewrite slice_map by lia.
  pose proof (acc_fold data (l - i) i) as HA.
  destruct (fold_left (accstep data) (rev (seq i (l - i))) (0, 0, 0)%Q) as [[w sm] ss].
  cbn zeta in HA. destruct HA as (Hw & Hs & Hss). unfold acc_var.
  destruct (l - i) as [|d] eqn:E; [lia|].
  cbn [seq map] in *. unfold ssd_list. cbn [length]. rewrite map_length, seq_length.
  rewrite Hw, Hs, Hss. reflexivity.
Qed.

Lemma cinc_single (data : list Q) i : (cinc data i (S i) == 0)%Q.
Proof.
  unfold cinc. replace (S i - i) with 1 by lia. cbn [seq rev app fold_left accstep acc_var].
  field.
Qed.

(* the winner of the candidate fold is <= every candidate *)
Lemma wfold_le (cand : nat -> Q) cs cur i v :
  fold_left (wstep Qle_bool cand) cs cur = Some (i, v) ->
  (forall i', In i' cs -> v <= cand i')%Q /\ (forall i0 v0, cur = Some (i0, v0) -> v <= v0)%Q.
Proof.
  revert cur. induction cs as [|a cs IH]; intros cur H; simpl in H.
  - subst cur. split; [intros i' []|]. intros i0 v0 E. inversion E. apply Qle_refl.
  - destruct (IH _ H) as (H1 & H2). clear IH H.
    assert (Ha : (v <= cand a)%Q /\ (forall i0 v0, cur = Some (i0, v0) -> v <= v0)%Q).
    { unfold wstep in H2. destruct cur as [[i0 v0]|].
      - destruct (Qle_bool (cand a) v0) eqn:E.
        + apply Qle_bool_iff in E. pose proof (H2 _ _ eq_refl) as H3. split; [exact H3|].
          intros i1 v1 E1. inversion E1; subst. eapply Qle_trans; eauto.
        + pose proof (H2 _ _ eq_refl) as H3. split.
          * destruct (Qle_bool_total (cand a) v0) as [E'|E']; [congruence|].
            apply Qle_bool_iff in E'. eapply Qle_trans; eauto.
          * intros i1 v1 E1. inversion E1; subst. exact H3.
      - split; [exact (H2 _ _ eq_refl)|]. intros ? ? E; discriminate. }
    destruct Ha as (Ha & Hc). split; [|exact Hc].
    intros i' [->|Hin]; [exact Ha|apply H1; exact Hin].
Qed.

Lemma Wsel_le data j l i v :
  Wsel 0%Q Qle_bool Qplus (cinc data) j l = Some (i, v) ->
  forall i', 1 <= i' < l -> (v <= Wcand 0%Q Qle_bool Qplus (cinc data) j l i')%Q.
Proof.
  intros H i' Hi. unfold Wsel, wsel in H. apply wfold_le in H as (H & _).
  apply H. apply in_rev. rewrite rev_involutive. apply in_seq. lia.
Qed.

(* the functional reading of the loops computes the Fisher-Jenks value of Jenks.v *)
Lemma QW_V data : forall j l, l <= length data ->
  (QW data j l == V Qle_bool Qplus (ssd data) j l)%Q.
Proof.
  induction j as [|j IH]; intros l Hl.
  - destruct (Nat.le_gt_cases l 1) as [H1|H1].
    + unfold QW. rewrite W_small by lia. cbn [V].
      destruct l as [|[|l]]; [| |lia].
      * reflexivity.
      * rewrite <- cinc_ssd by lia. symmetry. apply cinc_single.
    + unfold QW. rewrite W_col1 by lia. cbn [V]. apply cinc_ssd. lia.
  - destruct (Nat.le_gt_cases l 1) as [H1|H1].
    + unfold QW. rewrite W_small by lia. cbn [V]. unfold starts.
      replace (l - 1) with 0 by lia. cbn [seq map].
      destruct l as [|[|l]]; [| |lia].
      * reflexivity.
      * rewrite <- cinc_ssd by lia. symmetry. apply cinc_single.
    + destruct (W_step 0%Q Qle_bool Qplus (cinc data) j l ltac:(lia)) as (i0 & Hs & Hi0 & HW).
      unfold QW. rewrite HW.
      set (f := fun i => (ssd data i l + V Qle_bool Qplus (ssd data) j i)%Q).
      assert (Hcand : forall i, 1 <= i < l -> (Wcand 0%Q Qle_bool Qplus (cinc data) j l i == f i)%Q).
      { intros i Hi. unfold Wcand, f. fold (QW data j i). rewrite (IH i) by lia.
        rewrite cinc_ssd by lia. reflexivity. }
      cbn [V]. fold f.
      destruct (map f (starts l)) as [|x xs] eqn:E.
      { apply (f_equal (@length Q)) in E. rewrite map_length in E. unfold starts in E.
        rewrite seq_length in E. simpl in E. lia. }
      pose proof (minl_in Qle_bool x xs) as Hin. rewrite <- E in Hin.
      apply in_map_iff in Hin as (i1 & Hv & Hi1). apply starts_in in Hi1.
      destruct (minl_le Qle_bool Qle_bool_total Qle_bool_trans x xs) as (Hx & Hxs).
      assert (Hmin : forall i, 1 <= i < l -> (minl Qle_bool x xs <= f i)%Q).
      { intros i Hi. apply Qle_bool_iff.
        assert (Hin : In (f i) (x :: xs)).
        { rewrite <- E. apply in_map. apply starts_in. lia. }
        destruct Hin as [<-|Hin]; auto. }
      apply Qle_antisym.
      * rewrite <- Hv. rewrite <- (Hcand i1) by lia.
        eapply Wsel_le; [exact Hs|lia].
      * rewrite (Hcand i0) by lia. apply Hmin. lia.
Qed.

Notation QWsel data := (Wsel 0%Q Qle_bool Qplus (cinc data)).
Notation QWpath data := (Wpath 0%Q Qle_bool Qplus (cinc data)).
Notation QWok data := (Wok 0%Q Qle_bool Qplus (cinc data)).

Lemma Wpath_valid data : forall j l, 1 <= l -> QWok data j l = true ->
  pvalid l (QWpath data j l) /\ length (QWpath data j l) = j.
Proof.
  induction j as [|j IH]; intros l Hl Hok; [simpl; split; [lia|reflexivity]|].
  cbn [Wok Wpath] in *. apply andb_true_iff in Hok as (H2 & Hok). apply Nat.leb_le in H2.
  destruct (W_step 0%Q Qle_bool Qplus (cinc data) j l H2) as (i & Hs & Hi & _).
  rewrite Hs in *. destruct (IH i ltac:(lia) Hok) as (Hv & Hlen).
  cbn [pvalid length]. repeat split; try lia; assumption.
Qed.

Lemma pcost_cinc_ssd data : forall P l, l <= length data -> pvalid l P ->
  (pcost Qplus (cinc data) l P == pcost Qplus (ssd data) l P)%Q.
Proof.
  induction P as [|i P IH]; intros l Hl Hv; cbn [pcost pvalid] in *.
  - apply cinc_ssd. lia.
  - destruct Hv as (Hi & Hv). rewrite (IH i) by (lia || assumption).
    rewrite cinc_ssd by lia. reflexivity.
Qed.

Lemma Wpath_cost data : forall j l, 1 <= l -> QWok data j l = true ->
  (pcost Qplus (cinc data) l (QWpath data j l) == QW data j l)%Q.
Proof.
  induction j as [|j IH]; intros l Hl Hok.
  - cbn [Wpath pcost]. destruct (Nat.le_gt_cases l 1).
    + replace l with 1 by lia. unfold QW. rewrite W_small by lia. apply cinc_single.
    + unfold QW. rewrite W_col1 by lia. reflexivity.
  - cbn [Wok Wpath] in *. apply andb_true_iff in Hok as (H2 & Hok). apply Nat.leb_le in H2.
    destruct (W_step 0%Q Qle_bool Qplus (cinc data) j l H2) as (i & Hs & Hi & HW).
    rewrite Hs in *. cbn [pcost]. rewrite (IH i) by (lia || assumption).
    unfold QW. rewrite HW. reflexivity.
Qed.

(* ---- the back-tracking loop of _run_jenks walks exactly that path ---- *)
Lemma bt_ok_SS n L c' kc : bt_ok n L (S (S c')) kc =
  (2 <=? kc)%Z && bt_ok n L (S c') (L (pyidx (S n) kc) (S (S c')) - 1)%Z.
Proof. reflexivity. Qed.
Lemma bt_cuts_SS n L c' kc : bt_cuts n L (S (S c')) kc =
  (L (pyidx (S n) kc) (S (S c')) - 1)%Z :: bt_cuts n L (S c') (L (pyidx (S n) kc) (S (S c')) - 1)%Z.
Proof. reflexivity. Qed.
Lemma bt_breaks_SS data L c' kc : bt_breaks data L (S (S c')) kc =
  bt_breaks data L (S c') (L (pyidx (S (length data)) kc) (S (S c')) - 1)%Z ++
  [data_at data (L (pyidx (S (length data)) kc) (S (S c')) - 2)%Z].
Proof. reflexivity. Qed.
Section Back.
  Variables (data : list Q) (k : nat).
  Hypothesis Hk : 1 <= k.
  Let n := length data.
  Let L := fst (jenks_matrices data k).

  Lemma L_cell r cc : 2 <= r <= n -> 2 <= cc <= k ->
    exists i, QWsel data (cc - 2) r = Some (i, Wcand 0%Q Qle_bool Qplus (cinc data) (cc - 2) r i) /\
              1 <= i < r /\ L r cc = Z.of_nat (S i).
  Proof.
    intros Hr Hc. pose proof (f_equal fst (jenks_matrices_cells data k Hk r cc)) as H.
    cbn [fst] in H. fold L n in H.
    destruct (Nat.leb_spec 2 r); [|lia]. destruct (Nat.leb_spec r n); [|lia].
    destruct (Nat.leb_spec 1 cc); [|lia]. destruct (Nat.leb_spec cc k); [|lia].
    cbn [andb fst] in H.
    destruct (W_step 0%Q Qle_bool Qplus (cinc data) (cc - 2) r ltac:(lia)) as (i & Hs & Hi & _).
    exists i. split; [exact Hs|]. split; [exact Hi|].
    rewrite H. unfold Lspec. destruct (Nat.eqb_spec cc 1); [lia|]. rewrite Hs. reflexivity.
  Qed.

  Lemma pyidx_nat sz (z : nat) : pyidx sz (Z.of_nat z) = z.
  Proof. unfold pyidx. destruct (Z.ltb_spec (Z.of_nat z) 0); [lia|]. apply Nat2Z.id. Qed.

  Lemma bt_ok_Wok : forall c kc, 1 <= c <= k -> kc <= n ->
    bt_ok n L c (Z.of_nat kc) = QWok data (c - 1) kc.
  Proof.
    induction c as [|c IH]; intros kc Hc Hkc; [lia|].
    destruct c as [|c']; [reflexivity|].
    rewrite bt_ok_SS. replace (S (S c') - 1) with (S c') by lia. cbn [Wok].
    destruct (Nat.leb_spec 2 kc) as [H2|H2].
    - destruct (Z.leb_spec 2 (Z.of_nat kc)); [|lia]. cbn [andb].
      rewrite pyidx_nat.
      destruct (L_cell kc (S (S c')) ltac:(lia) ltac:(lia)) as (i & Hs & Hi & HL).
      replace (S (S c') - 2) with c' in Hs by lia. rewrite Hs, HL.
      replace (Z.of_nat (S i) - 1)%Z with (Z.of_nat i) by lia.
      rewrite IH by lia. replace (S c' - 1) with c' by lia. reflexivity.
    - destruct (Z.leb_spec 2 (Z.of_nat kc)); [lia|]. reflexivity.
  Qed.

  Lemma bt_cuts_Wpath : forall c kc, 1 <= c <= k -> kc <= n -> QWok data (c - 1) kc = true ->
    bt_cuts n L c (Z.of_nat kc) = map Z.of_nat (QWpath data (c - 1) kc).
  Proof.
    induction c as [|c IH]; intros kc Hc Hkc Hok; [lia|].
    destruct c as [|c']; [reflexivity|].
    rewrite bt_cuts_SS. replace (S (S c') - 1) with (S c') in * by lia. cbn [Wok Wpath] in *.
    apply andb_true_iff in Hok as (H2 & Hok). apply Nat.leb_le in H2.
    rewrite pyidx_nat.
    destruct (L_cell kc (S (S c')) ltac:(lia) ltac:(lia)) as (i & Hs & Hi & HL).
    replace (S (S c') - 2) with c' in Hs by lia. rewrite Hs in *. rewrite HL.
    replace (Z.of_nat (S i) - 1)%Z with (Z.of_nat i) by lia.
    cbn [map]. f_equal. rewrite IH; try lia.
    + replace (S c' - 1) with c' by lia. reflexivity.
    + replace (S c' - 1) with c' by lia. exact Hok.
  Qed.

  Lemma bt_breaks_Wpath : forall c kc, 1 <= c <= k -> kc <= n -> QWok data (c - 1) kc = true ->
    bt_breaks data L c (Z.of_nat kc) = map (fun i => nth (i - 1) data 0%Q) (rev (QWpath data (c - 1) kc)).
  Proof.
    induction c as [|c IH]; intros kc Hc Hkc Hok; [lia|].
    destruct c as [|c']; [reflexivity|].
    rewrite bt_breaks_SS. replace (S (S c') - 1) with (S c') in * by lia. cbn [Wok Wpath] in *.
    apply andb_true_iff in Hok as (H2 & Hok). apply Nat.leb_le in H2.
    fold n. rewrite pyidx_nat.
    destruct (L_cell kc (S (S c')) ltac:(lia) ltac:(lia)) as (i & Hs & Hi & HL).
    replace (S (S c') - 2) with c' in Hs by lia. rewrite Hs in *. rewrite HL.
    replace (Z.of_nat (S i) - 1)%Z with (Z.of_nat i) by lia.
    replace (Z.of_nat (S i) - 2)%Z with (Z.of_nat (i - 1)) by lia.
    cbn [rev]. rewrite map_app. cbn [map]. f_equal.
    + rewrite IH; try lia.
      * replace (S c' - 1) with c' by lia. reflexivity.
      * replace (S c' - 1) with c' by lia. exact Hok.
    + unfold data_at. rewrite pyidx_nat. reflexivity.
  Qed.
End Back.

(* ---------- refinement: the matrices hold the Fisher-Jenks values ---------- *)
Theorem jenks_imp_var_combinations data k l j :
  1 <= k -> 2 <= l <= length data -> 1 <= j <= k ->
  snd (jenks_matrices data k) l j = Fin (QW data (j - 1) l) /\
  (QW data (j - 1) l == V Qle_bool Qplus (ssd data) (j - 1) l)%Q.
Proof.
  intros Hk Hl Hj. split; [|apply QW_V; lia].
  pose proof (f_equal snd (jenks_matrices_cells data k Hk l j)) as H. cbn [snd] in H.
  destruct (Nat.leb_spec 2 l); [|lia]. destruct (Nat.leb_spec l (length data)); [|lia].
  destruct (Nat.leb_spec 1 j); [|lia]. destruct (Nat.leb_spec j k); [|lia].
  exact H.
Qed.

Theorem jenks_imp_min data k :
  1 <= k -> 2 <= length data ->
  exists v, snd (jenks_matrices data k) (length data) k = Fin v /\ (v == jenks_min data k)%Q.
Proof.
  intros Hk Hn. destruct (jenks_imp_var_combinations data k (length data) k) as (H1 & H2); try lia.
  exists (QW data (k - 1) (length data)). split; [exact H1|exact H2].
Qed.

(* cells outside rows 2..n x columns 1..k keep their initial value *)
Theorem jenks_imp_untouched data k r cc :
  1 <= k -> ~ (2 <= r <= length data /\ 1 <= cc <= k) ->
  fst (jenks_matrices data k) r cc = init_lcl k r cc /\
  snd (jenks_matrices data k) r cc = init_vc (length data) k r cc.
Proof.
  intros Hk Hn. pose proof (jenks_matrices_cells data k Hk r cc) as H.
  destruct ((2 <=? r) && (r <=? length data) && (1 <=? cc) && (cc <=? k)) eqn:E.
  - exfalso. apply Hn. repeat (apply andb_true_iff in E as (E & ?)).
    apply Nat.leb_le in E. repeat match goal with H : (_ <=? _) = true |- _ => apply Nat.leb_le in H end. lia.
  - split; [exact (f_equal fst H)|exact (f_equal snd H)].
Qed.

(* lower_class_limits[l][j] - 1 is a start i of the last class that realises var_combinations[l][j],
   and no other start does better *)
Theorem jenks_imp_lower_class_limits data k l j :
  1 <= k -> 2 <= l <= length data -> 2 <= j <= k ->
  let M := jenks_matrices data k in
  exists i p, fst M l j = Z.of_nat (S i) /\ 1 <= i < l /\
    snd M i (j - 1) = Fin p /\ snd M l j = Fin (cinc data i l + p)%Q /\
    forall i', 1 <= i' < l -> exists p', snd M i' (j - 1) = Fin p' /\ (cinc data i l + p <= cinc data i' l + p')%Q.
Proof.
  intros Hk Hl Hj M.
  assert (Hprev : forall i, 1 <= i < l -> snd M i (j - 1) = Fin (QW data (j - 2) i)).
  { intros i Hi. destruct (Nat.eq_dec i 1) as [->|Hi1].
    - destruct (jenks_imp_untouched data k 1 (j - 1) Hk ltac:(lia)) as (_ & H). unfold M. rewrite H.
      unfold QW. rewrite W_small by lia. reflexivity.
    - destruct (jenks_imp_var_combinations data k i (j - 1)) as (H & _); try lia.
      unfold M. rewrite H. replace (j - 1 - 1) with (j - 2) by lia. reflexivity. }
  destruct (L_cell data k Hk l j ltac:(lia) ltac:(lia)) as (i & Hs & Hi & HL).
  exists i, (QW data (j - 2) i). split; [exact HL|]. split; [exact Hi|]. split; [apply Hprev; exact Hi|].
  destruct (jenks_imp_var_combinations data k l j) as (HV & _); try lia.
  destruct (W_step 0%Q Qle_bool Qplus (cinc data) (j - 2) l ltac:(lia)) as (i2 & Hs2 & _ & HW).
  rewrite Hs in Hs2. inversion Hs2 as [[Hii]]. subst i2. clear Hs2 H0.
  split.
  - unfold M. rewrite HV. unfold QW. replace (j - 1) with (S (j - 2)) by lia. rewrite HW. reflexivity.
  - intros i' Hi'. exists (QW data (j - 2) i'). split; [apply Hprev; exact Hi'|].
    exact (Wsel_le data (j - 2) l i _ Hs i' Hi').
Qed.

(* ---------- the back-tracked partition is optimal ---------- *)
Lemma jenks_cuts_Wpath data k : 1 <= k -> jenks_bt_ok data k = true ->
  QWok data (k - 1) (length data) = true /\ jenks_cuts data k = QWpath data (k - 1) (length data).
Proof.
  intros Hk Hok. unfold jenks_bt_ok in Hok. rewrite (bt_ok_Wok data k Hk) in Hok by lia.
  split; [exact Hok|]. unfold jenks_cuts. rewrite (bt_cuts_Wpath data k Hk) by (lia || assumption).
  rewrite map_map. rewrite <- (map_id (QWpath data (k - 1) (length data))) at 2.
  apply map_ext. intros a. apply Nat2Z.id.
Qed.

Theorem jenks_imp_backtrack_optimal data k :
  1 <= k -> 1 <= length data -> jenks_bt_ok data k = true ->
  let n := length data in
  let P := jenks_cuts data k in
  pvalid n P /\ length P = k - 1 /\
  (pcost Qplus (ssd data) n P == jenks_min data k)%Q /\
  forall P', pvalid n P' -> length P' = k - 1 ->
             (pcost Qplus (ssd data) n P <= pcost Qplus (ssd data) n P')%Q.
Proof.
  intros Hk Hn Hok n P. destruct (jenks_cuts_Wpath data k Hk Hok) as (HW & HP).
  destruct (Wpath_valid data (k - 1) n Hn HW) as (Hv & Hlen).
  assert (Hcost : (pcost Qplus (ssd data) n P == jenks_min data k)%Q).
  { unfold P. rewrite HP.
    eapply Qeq_trans; [symmetry; apply pcost_cinc_ssd; [fold n; lia|assumption]|].
    eapply Qeq_trans; [apply Wpath_cost; assumption|]. apply QW_V. fold n. lia. }
  unfold P. rewrite HP. repeat split; try assumption.
  - rewrite <- HP. exact Hcost.
  - intros P' Hv' Hl'. rewrite <- HP. fold P. rewrite Hcost.
    apply jenks_min_lower_bound; assumption.
Qed.

(* the breaks _run_jenks returns are data[0], the last value of every class but the last, data[n-1] *)
Theorem jenks_imp_breaks data k :
  1 <= k -> 1 <= length data -> jenks_bt_ok data k = true ->
  run_jenks data k =
  nth 0 data 0%Q :: map (fun i => nth (i - 1) data 0%Q) (rev (jenks_cuts data k)) ++ [nth (length data - 1) data 0%Q].
Proof.
  intros Hk Hn Hok. destruct (jenks_cuts_Wpath data k Hk Hok) as (HW & HP).
  unfold run_jenks. rewrite (bt_breaks_Wpath data k Hk) by (lia || assumption). rewrite HP.
  f_equal. f_equal. f_equal. unfold data_at, pyidx. cbn [Z.ltb Z.compare].
  f_equal. lia.
Qed.


(* ---------- the tie rule: `>=` lets the LATER candidate, i.e. the SMALLER start, win ---------- *)
Lemma wfold_strict (cand : nat -> Q) cs cur i v :
  fold_left (wstep Qle_bool cand) cs cur = Some (i, v) ->
  (cur = Some (i, v) /\ forall a, In a cs -> (v < cand a)%Q) \/
  (exists cs1 cs2, cs = cs1 ++ i :: cs2 /\ v = cand i /\ forall a, In a cs2 -> (v < cand a)%Q).
Proof.
  revert cur. induction cs as [|a cs IH]; intros cur H; simpl in H.
  - left. split; [exact H|intros a []].
  - destruct (IH _ H) as [(Hc & Hall)|(cs1 & cs2 & Hcs & Hv & Hall)].
    + unfold wstep in Hc. destruct cur as [[i0 v0]|].
      * destruct (Qle_bool (cand a) v0) eqn:E.
        -- inversion Hc; subst. right. exists [], cs. repeat split; auto.
        -- left. split; [exact Hc|]. inversion Hc; subst. intros a' [<-|Hin]; [|apply Hall; exact Hin].
           destruct (Qlt_le_dec v (cand a)) as [Hlt|Hle]; [exact Hlt|].
           apply Qle_bool_iff in Hle. congruence.
      * inversion Hc; subst. right. exists [], cs. repeat split; auto.
    + right. exists (a :: cs1), cs2. subst cs. repeat split; auto.
Qed.

Lemma seq_split : forall A a m x B, seq a m = A ++ x :: B -> A = seq a (x - a) /\ a <= x.
Proof.
  induction A as [|y A IH]; intros a m x B H.
  - destruct m as [|m]; [discriminate|]. cbn [seq app] in H. inversion H; subst.
    rewrite Nat.sub_diag. split; [reflexivity|lia].
  - destruct m as [|m]; [discriminate|]. cbn [seq app] in H. inversion H as [[Hy Hrest]]. subst y.
    destruct (IH _ _ _ _ Hrest) as (HA & Hle).
    split; [|lia]. replace (x - a) with (S (x - S a)) by lia. cbn [seq]. rewrite <- HA. reflexivity.
Qed.

Lemma Wsel_smallest data j l i v :
  Wsel 0%Q Qle_bool Qplus (cinc data) j l = Some (i, v) ->
  forall i', 1 <= i' < i -> (v < Wcand 0%Q Qle_bool Qplus (cinc data) j l i')%Q.
Proof.
  intros H i' Hi'. unfold Wsel, wsel in H.
  apply wfold_strict in H as [(Hc & _)|(cs1 & cs2 & Hcs & Hv & Hall)]; [discriminate|].
  apply Hall. apply (f_equal (@rev nat)) in Hcs. rewrite rev_involutive, rev_app_distr in Hcs.
  cbn [rev] in Hcs. rewrite <- app_assoc in Hcs. cbn [app] in Hcs.
  apply seq_split in Hcs as (HA & _). apply in_rev. rewrite HA. apply in_seq. lia.
Qed.

Theorem jenks_imp_tie_rule data k l j :
  1 <= k -> 2 <= l <= length data -> 2 <= j <= k ->
  let M := jenks_matrices data k in
  forall i, fst M l j = Z.of_nat (S i) ->
  forall i', 1 <= i' < i ->
    exists p p', snd M i (j - 1) = Fin p /\ snd M i' (j - 1) = Fin p' /\
                 (cinc data i l + p < cinc data i' l + p')%Q.
Proof.
  intros Hk Hl Hj M i HLi i' Hi'.
  destruct (L_cell data k Hk l j ltac:(lia) ltac:(lia)) as (i0 & Hs & Hi0 & HL).
  fold M in HL. rewrite HLi in HL. assert (i0 = i) by lia. subst i0.
  assert (Hprev : forall x, 1 <= x < l -> snd M x (j - 1) = Fin (QW data (j - 2) x)).
  { intros x Hx. destruct (Nat.eq_dec x 1) as [->|Hx1].
    - destruct (jenks_imp_untouched data k 1 (j - 1) Hk ltac:(lia)) as (_ & H). unfold M. rewrite H.
      unfold QW. rewrite W_small by lia. reflexivity.
    - destruct (jenks_imp_var_combinations data k x (j - 1)) as (H & _); try lia.
      unfold M. rewrite H. replace (j - 1 - 1) with (j - 2) by lia. reflexivity. }
  exists (QW data (j - 2) i), (QW data (j - 2) i'). split; [apply Hprev; lia|]. split; [apply Hprev; lia|].
  exact (Wsel_smallest data (j - 2) l i _ Hs i' Hi').
Qed.
