(* C12/Quantile.v — exact model of the bin construction of xrspatial.classify.quantile:

     w = 100.0 / k ; p = linspace(w, 100.0, k)              (p_i = 100 (i+1) / k, i = 0..k-1)
     q = percentile(data[isfinite(data)], p)                 (NumPy's default "linear" method)
     q = unique(q)                                           (sorted, duplicates removed)

   NumPy's linear percentile of n sorted values xs at percentile p is
     pos = p/100 * (n-1);  lo = floor pos;  xs[lo] + (pos - lo) * (xs[lo+1] - xs[lo]).
   With p_i = 100 (i+1)/k the position is the rational (i+1)(n-1)/k, so k times the cut is the
   integer   k*xs[lo] + r*(xs[lo+1]-xs[lo])   with  lo = (i+1)(n-1) / k,  r = (i+1)(n-1) mod k.
   Everything below is scaled by k so that it stays in Z (as ei_cuts in Model.v).
   Definitions only. *)
Require Import Base.Prelude Base.XVal C12.Model.

(* k * (i-th percentile cut) of the ascending data xs *)
Definition q_cut (xs : list Z) (k i : Z) : Z :=
  let a := (i + 1) * (lenZ xs - 1) in
  let lo := a / k in
  let r := a mod k in
  k * nthZ 0 xs lo + r * (nthZ 0 xs (lo + 1) - nthZ 0 xs lo).

Definition q_cuts (xs : list Z) (k : nat) : list Z :=
  map (q_cut xs (Z.of_nat k)) (ziota 0 k).

(* np.unique of an ascending array: drop adjacent duplicates *)
Fixpoint zuniq (l : list Z) : list Z :=
  match l with
  | [] => []
  | a :: t => match t with
              | [] => [a]
              | b :: _ => if a =? b then zuniq t else a :: zuniq t
              end
  end.

(* the bins handed to _bin (scaled by k) *)
Definition quantile_bins (xs : list Z) (k : nat) : list xv :=
  map XFin (zuniq (q_cuts xs k)).

(* class of a data value v under quantile(k): compare k*v with the scaled bins *)
Definition quantile_class (xs : list Z) (k : nat) (v : Z) : option xv :=
  class_cell (quantile_bins xs k) (XFin (Z.of_nat k * v)).
