(* C12/JenksDistinct.v — when does the back-tracking of _run_jenks stay in range?  On ASCENDING data with at
   least k DISTINCT values (exactly what _run_natural_break establishes — data.sort() inside _run_jenks,
   `uvk < k` checked before the call) no step of the loop reaches k = 1 with a class still to place:
   jenks_bt_ok_of_distinct.  The argument is specific to the sum-of-squared-deviations cost:
     ssd3_merge            SSD(A ++ B) = SSD(A) + SSD(B) + (|B| sum A - |A| sum B)^2 / (|A| |B| (|A|+|B|))
     cinc_nonneg           SSD >= 0
     cinc_drop_prefix      dropping a prefix that ends just before an ascent STRICTLY lowers the SSD
     QW_zero               with at most j+1 distinct values below l, var_combinations[l][j+1] = 0
     Wsel_keeps_distinct   so a start that left fewer than j distinct values below it would be beaten by the
                           next ascent — it is never the one written to lower_class_limits. *)
From Coq Require Import List Arith Bool ZArith QArith Lia Setoid Morphisms.
Import ListNotations.
Require Import C12.Jenks C12.JenksProofs C12.JenksImp C12.JenksImpProofs.
Local Open Scope nat_scope.

(* ---------- sums of a slice ---------- *)
Definition sl (data : list Q) (a d : nat) : list Q := map (fun idx => nth idx data 0%Q) (seq a d).
Definition ssd3 (w s q : Q) : Q := (q - s * s / w)%Q.
Definition qn (d : nat) : Q := inject_Z (Z.of_nat d).
Definition qsq (xs : list Q) : Q := qsum (map (fun x => x * x)%Q xs).

Lemma qn_pos d : 1 <= d -> (0 < qn d)%Q.
Proof. intros H. unfold qn. replace 0%Q with (inject_Z 0) by reflexivity. rewrite <- Zlt_Qlt. lia. Qed.
Lemma qn_plus a b : (qn (a + b) == qn a + qn b)%Q.
Proof. unfold qn. rewrite Nat2Z.inj_add, inject_Z_plus. reflexivity. Qed.
Lemma qn_1 : (qn 1 == 1)%Q.
Proof. reflexivity. Qed.

Lemma qsum_app xs ys : (qsum (xs ++ ys) == qsum xs + qsum ys)%Q.
Proof. induction xs as [|x xs IH]; simpl; [ring|]. rewrite IH. ring. Qed.
Lemma qsq_app xs ys : (qsq (xs ++ ys) == qsq xs + qsq ys)%Q.
Proof. unfold qsq. rewrite map_app. apply qsum_app. Qed.
Lemma sl_app data a d1 d2 : sl data a (d1 + d2) = sl data a d1 ++ sl data (a + d1) d2.
Proof. unfold sl. rewrite seq_app, map_app. reflexivity. Qed.

Lemma cinc_sums data i l : i <= l ->
  (cinc data i l == ssd3 (qn (l - i)) (qsum (sl data i (l - i))) (qsq (sl data i (l - i))))%Q.
Proof.
  intros H. unfold cinc. pose proof (acc_fold data (l - i) i) as HA.
  destruct (fold_left (accstep data) (rev (seq i (l - i))) (0, 0, 0)%Q) as [[w sm] ss].
  cbn zeta in HA. destruct HA as (Hw & Hs & Hss). unfold acc_var, ssd3, qsq, sl, qn.
  rewrite Hw, Hs, Hss. reflexivity.
Qed.

(* merging two classes: the within-class SSD grows by a square *)
Lemma ssd3_merge w1 s1 q1 w2 s2 q2 : (0 < w1)%Q -> (0 < w2)%Q ->
  (ssd3 (w1 + w2) (s1 + s2) (q1 + q2) ==
   ssd3 w1 s1 q1 + ssd3 w2 s2 q2 + (w2 * s1 - w1 * s2) * (w2 * s1 - w1 * s2) / (w1 * w2 * (w1 + w2)))%Q.
Proof.
  intros H1 H2. unfold ssd3.
  assert (H3 : (0 < w1 + w2)%Q) by (apply Qlt_trans with w1; [assumption|]; rewrite <- (Qplus_0_r w1) at 1; apply Qplus_lt_r; assumption).
  field. repeat split; intros E; rewrite E in *; (apply (Qlt_irrefl 0); assumption).
Qed.

Global Instance ssd3_proper : Proper (Qeq ==> Qeq ==> Qeq ==> Qeq) ssd3.
Proof. intros w w' Hw s s' Hs q q' Hq. unfold ssd3. rewrite Hw, Hs, Hq. reflexivity. Qed.

Lemma sl_length data a d : length (sl data a d) = d.
Proof. unfold sl. rewrite map_length, seq_length. reflexivity. Qed.

Lemma sq_nonneg (x : Q) : (0 <= x * x)%Q.
Proof.
  destruct (Qlt_le_dec x 0) as [H|H].
  - setoid_replace (x * x)%Q with ((- x) * (- x))%Q by ring.
    apply Qmult_le_0_compat; apply Qlt_le_weak; rewrite <- (Qopp_involutive 0);
      apply Qopp_lt_compat; exact H.
  - apply Qmult_le_0_compat; assumption.
Qed.
Lemma sq_pos (x : Q) : (x < 0)%Q -> (0 < x * x)%Q.
Proof.
  intros H. setoid_replace (x * x)%Q with ((- x) * (- x))%Q by ring.
  assert (H' : (0 < - x)%Q) by (rewrite <- (Qopp_involutive 0); apply Qopp_lt_compat; exact H).
  apply Qmult_lt_0_compat; assumption.
Qed.

Lemma div_nonneg (a b : Q) : (0 <= a)%Q -> (0 < b)%Q -> (0 <= a / b)%Q.
Proof. intros Ha Hb. apply Qle_shift_div_l; [assumption|]. rewrite Qmult_0_l. assumption. Qed.
Lemma div_pos (a b : Q) : (0 < a)%Q -> (0 < b)%Q -> (0 < a / b)%Q.
Proof. intros Ha Hb. apply Qlt_shift_div_l; [assumption|]. rewrite Qmult_0_l. assumption. Qed.
Lemma qplus_pos (a b : Q) : (0 < a)%Q -> (0 < b)%Q -> (0 < a + b)%Q.
Proof. intros Ha Hb. apply Qlt_trans with a; [assumption|]. rewrite <- (Qplus_0_r a) at 1. apply Qplus_lt_r. assumption. Qed.
Lemma den_pos (w1 w2 : Q) : (0 < w1)%Q -> (0 < w2)%Q -> (0 < w1 * w2 * (w1 + w2))%Q.
Proof. intros H1 H2. apply Qmult_lt_0_compat; [apply Qmult_lt_0_compat; assumption|apply qplus_pos; assumption]. Qed.

(* the SSD of a non-empty list is >= 0 *)
Lemma ssd3_list_nonneg xs : xs <> [] -> (0 <= ssd3 (qn (length xs)) (qsum xs) (qsq xs))%Q.
Proof.
  induction xs as [|x xs IH]; intros Hne; [contradiction|].
  destruct xs as [|y ys].
  - unfold ssd3, qsq, qn. simpl. apply Qle_lteq. right. field.
  - specialize (IH ltac:(discriminate)).
    set (zs := y :: ys) in *.
    assert (E : (ssd3 (qn (length (x :: zs))) (qsum (x :: zs)) (qsq (x :: zs)) ==
                 ssd3 (qn 1 + qn (length zs)) (x + qsum zs) (x * x + qsq zs))%Q).
    { cbn [length]. change (S (length zs)) with (1 + length zs). rewrite qn_plus. reflexivity. }
    rewrite E. rewrite ssd3_merge; [|reflexivity|apply qn_pos; unfold zs; simpl; lia].
    assert (E1 : (ssd3 (qn 1) x (x * x) == 0)%Q) by (unfold ssd3, qn; simpl; field).
    rewrite E1. rewrite Qplus_0_l.
    rewrite <- (Qplus_0_r 0). apply Qplus_le_compat; [exact IH|].
    apply div_nonneg; [apply sq_nonneg|apply den_pos; [reflexivity|apply qn_pos; unfold zs; simpl; lia]].
Qed.


(* bounds on the sum of a list *)
Lemma qsum_le_bound xs x : (forall e, In e xs -> e <= x)%Q -> (qsum xs <= qn (length xs) * x)%Q.
Proof.
  induction xs as [|y ys IH]; intros H.
  - simpl. unfold qn. simpl. rewrite Qmult_0_l. apply Qle_refl.
  - cbn [length qsum fold_right]. change (S (length ys)) with (1 + length ys). rewrite qn_plus.
    setoid_replace ((qn 1 + qn (length ys)) * x)%Q with (x + qn (length ys) * x)%Q by (unfold qn at 1; simpl; ring).
    apply Qplus_le_compat; [apply H; left; reflexivity|apply IH; intros e He; apply H; right; exact He].
Qed.
Lemma qsum_ge_bound xs x : (forall e, In e xs -> x <= e)%Q -> (qn (length xs) * x <= qsum xs)%Q.
Proof.
  induction xs as [|y ys IH]; intros H.
  - simpl. unfold qn. simpl. rewrite Qmult_0_l. apply Qle_refl.
  - cbn [length qsum fold_right]. change (S (length ys)) with (1 + length ys). rewrite qn_plus.
    setoid_replace ((qn 1 + qn (length ys)) * x)%Q with (x + qn (length ys) * x)%Q by (unfold qn at 1; simpl; ring).
    apply Qplus_le_compat; [apply H; left; reflexivity|apply IH; intros e He; apply H; right; exact He].
Qed.

Lemma sorted_le data : sortedQ data -> forall b a, a <= b < length data ->
  (nth a data 0 <= nth b data 0)%Q.
Proof.
  intros Hs. induction b as [|b IH]; intros a H.
  - replace a with 0 by lia. apply Qle_refl.
  - destruct (Nat.eq_dec a (S b)) as [->|Hne]; [apply Qle_refl|].
    apply Qle_trans with (nth b data 0%Q); [apply IH; lia|].
    pose proof (Hs (S b) ltac:(lia)) as H1. replace (S b - 1) with b in H1 by lia. exact H1.
Qed.

Lemma ascb_lt data p : ascb data p = true -> (nth (p - 1) data 0 < nth p data 0)%Q.
Proof.
  unfold ascb. intros H. apply negb_true_iff in H.
  destruct (Qlt_le_dec (nth (p - 1) data 0%Q) (nth p data 0%Q)) as [H1|H1]; [exact H1|].
  apply Qle_bool_iff in H1. congruence.
Qed.

Lemma in_sl data a d e : In e (sl data a d) -> exists p, a <= p < a + d /\ e = nth p data 0%Q.
Proof.
  unfold sl. intros H. apply in_map_iff in H as (p & Hp & Hin). apply in_seq in Hin.
  exists p. split; [lia|auto].
Qed.

Lemma ssd3_sl_nonneg data a d : 1 <= d ->
  (0 <= ssd3 (qn d) (qsum (sl data a d)) (qsq (sl data a d)))%Q.
Proof.
  intros H. pose proof (ssd3_list_nonneg (sl data a d)) as HN. rewrite sl_length in HN.
  apply HN. intros E. apply (f_equal (@length Q)) in E. rewrite sl_length in E. simpl in E. lia.
Qed.
Lemma qsum_sl_le data a d x : (forall p, a <= p < a + d -> (nth p data 0 <= x)%Q) ->
  (qsum (sl data a d) <= qn d * x)%Q.
Proof.
  intros H. pose proof (qsum_le_bound (sl data a d) x) as HB. rewrite sl_length in HB. apply HB.
  intros e He. apply in_sl in He as (p & Hp & ->). apply H. exact Hp.
Qed.
Lemma qsum_sl_ge data a d x : (forall p, a <= p < a + d -> (x <= nth p data 0)%Q) ->
  (qn d * x <= qsum (sl data a d))%Q.
Proof.
  intros H. pose proof (qsum_ge_bound (sl data a d) x) as HB. rewrite sl_length in HB. apply HB.
  intros e He. apply in_sl in He as (p & Hp & ->). apply H. exact Hp.
Qed.

Lemma cinc_nonneg data i l : i < l -> (0 <= cinc data i l)%Q.
Proof.
  intros H. rewrite cinc_sums by lia. apply ssd3_sl_nonneg. lia.
Qed.

(* dropping a prefix that ends just before an ascent strictly lowers the SSD of the class *)
Lemma cinc_drop_prefix data i i' l : sortedQ data -> l <= length data -> i < i' < l ->
  ascb data i' = true -> (cinc data i' l < cinc data i l)%Q.
Proof.
  intros Hs Hl Hi Ha.
  set (d1 := i' - i). set (d2 := l - i').
  set (A := sl data i d1). set (B := sl data i' d2).
  assert (HA : (0 <= ssd3 (qn d1) (qsum A) (qsq A))%Q).
  { apply ssd3_sl_nonneg. lia. }
  assert (E : (cinc data i l == ssd3 (qn d1 + qn d2) (qsum A + qsum B) (qsq A + qsq B))%Q).
  { rewrite cinc_sums by lia. replace (l - i) with (d1 + d2) by lia. rewrite sl_app.
    replace (i + d1) with i' by lia. fold A B. rewrite qn_plus, qsum_app, qsq_app. reflexivity. }
  assert (E' : (cinc data i' l == ssd3 (qn d2) (qsum B) (qsq B))%Q).
  { rewrite cinc_sums by lia. reflexivity. }
  assert (P1 : (0 < qn d1)%Q) by (apply qn_pos; lia).
  assert (P2 : (0 < qn d2)%Q) by (apply qn_pos; lia).
  rewrite E, E'. rewrite ssd3_merge by assumption.
  set (x := nth (i' - 1) data 0%Q). set (y := nth i' data 0%Q).
  assert (Hxy : (x < y)%Q) by (apply ascb_lt; exact Ha).
  assert (HsA : (qsum A <= qn d1 * x)%Q).
  { apply qsum_sl_le. intros p Hp. apply sorted_le; [exact Hs|lia]. }
  assert (HsB : (qn d2 * y <= qsum B)%Q).
  { apply qsum_sl_ge. intros p Hp. apply sorted_le; [exact Hs|lia]. }
  assert (Hneg : (qn d2 * qsum A - qn d1 * qsum B < 0)%Q).
  { apply (proj1 (Qplus_lt_l _ _ (qn d1 * qsum B)%Q)).
    setoid_replace (qn d2 * qsum A - qn d1 * qsum B + qn d1 * qsum B)%Q with (qn d2 * qsum A)%Q by ring.
    rewrite Qplus_0_l.
    apply Qle_lt_trans with (qn d2 * (qn d1 * x))%Q.
    - apply Qmult_le_l; assumption.
    - apply Qlt_le_trans with (qn d1 * (qn d2 * y))%Q.
      + setoid_replace (qn d2 * (qn d1 * x))%Q with ((qn d1 * qn d2) * x)%Q by ring.
        setoid_replace (qn d1 * (qn d2 * y))%Q with ((qn d1 * qn d2) * y)%Q by ring.
        apply Qmult_lt_l; [apply Qmult_lt_0_compat; assumption|exact Hxy].
      + apply Qmult_le_l; assumption. }
  pose proof (div_pos _ _ (sq_pos _ Hneg) (den_pos _ _ P1 P2)) as HE.
  set (Et := ((qn d2 * qsum A - qn d1 * qsum B) * (qn d2 * qsum A - qn d1 * qsum B) /
              (qn d1 * qn d2 * (qn d1 + qn d2)))%Q) in *.
  set (cA := ssd3 (qn d1) (qsum A) (qsq A)) in *. set (cB := ssd3 (qn d2) (qsum B) (qsq B)) in *.
  apply Qlt_minus_iff. setoid_replace (cA + cB + Et + - cB)%Q with (Et + cA)%Q by ring.
  apply Qle_lt_trans with (0 + 0)%Q; [rewrite Qplus_0_l; apply Qle_refl|].
  apply Qplus_lt_le_compat; assumption.
Qed.

Lemma nasc_app data xs ys : nasc data (xs ++ ys) = nasc data xs + nasc data ys.
Proof. unfold nasc. rewrite filter_app, app_length. reflexivity. Qed.
Lemma nasc_cons data p ps : nasc data (p :: ps) = (if ascb data p then 1 else 0) + nasc data ps.
Proof. unfold nasc. simpl. destruct (ascb data p); reflexivity. Qed.
Lemma nasc_nil data : nasc data [] = 0.
Proof. reflexivity. Qed.

(* the first / the last ascent of a range *)
Lemma first_ascent data : forall d a, 1 <= nasc data (seq a d) ->
  exists d1, d1 < d /\ ascb data (a + d1) = true /\ nasc data (seq a d1) = 0.
Proof.
  induction d as [|d IH]; intros a H; [cbn [seq] in H; rewrite nasc_nil in H; lia|].
  cbn [seq] in H. rewrite nasc_cons in H. destruct (ascb data a) eqn:E.
  - exists 0. rewrite Nat.add_0_r. repeat split; [lia|exact E].
  - destruct (IH (S a) ltac:(lia)) as (d1 & Hd & Ha & Hn).
    exists (S d1). split; [lia|]. split; [rewrite <- Ha; f_equal; lia|].
    cbn [seq]. rewrite nasc_cons, E, Hn. reflexivity.
Qed.
Lemma last_ascent data : forall d a, 1 <= nasc data (seq a d) ->
  exists d1, d1 < d /\ ascb data (a + d1) = true /\ nasc data (seq (a + d1 + 1) (d - d1 - 1)) = 0 /\
             nasc data (seq a d) = nasc data (seq a d1) + 1.
Proof.
  induction d as [|d IH]; intros a H; [cbn [seq] in H; rewrite nasc_nil in H; lia|].
  rewrite seq_S, nasc_app, nasc_cons, nasc_nil in H.
  destruct (ascb data (a + d)) eqn:E.
  - exists d. split; [lia|]. split; [exact E|]. split.
    + replace (S d - d - 1) with 0 by lia. reflexivity.
    + rewrite seq_S, nasc_app, nasc_cons, nasc_nil, E. lia.
  - destruct (IH a ltac:(lia)) as (d1 & Hd & Ha & Hn & Ht).
    exists d1. split; [lia|]. split; [exact Ha|]. split.
    + replace (S d - d1 - 1) with (S (d - d1 - 1)) by lia. rewrite seq_S, nasc_app, nasc_cons, nasc_nil.
      replace (a + d1 + 1 + (d - d1 - 1)) with (a + d) by lia. rewrite E, Hn. reflexivity.
    + rewrite seq_S, nasc_app, nasc_cons, nasc_nil, E, Ht. lia.
Qed.

(* a range of a sorted list without ascents is constant *)
Lemma const_slice data a : sortedQ data -> forall d, a + d < length data ->
  nasc data (seq (a + 1) d) = 0 ->
  forall p, a <= p <= a + d -> (nth p data 0 == nth a data 0)%Q.
Proof.
  intros Hs. induction d as [|d IH]; intros Hn H0 p Hp.
  - replace p with a by lia. reflexivity.
  - rewrite seq_S, nasc_app, nasc_cons, nasc_nil in H0.
    destruct (ascb data (a + 1 + d)) eqn:E; [lia|].
    destruct (Nat.eq_dec p (a + S d)) as [->|Hne]; [|apply IH; lia].
    unfold ascb in E. apply negb_false_iff in E. apply Qle_bool_iff in E.
    replace (a + 1 + d) with (a + S d) in E by lia.
    replace (a + S d - 1) with (a + d) in E by lia.
    pose proof (Hs (a + S d) ltac:(lia)) as H1. replace (a + S d - 1) with (a + d) in H1 by lia.
    rewrite <- (IH ltac:(lia) ltac:(lia) (a + d) ltac:(lia)).
    apply Qle_antisym; assumption.
Qed.

Lemma qsum_const xs v : (forall e, In e xs -> e == v)%Q -> (qsum xs == qn (length xs) * v)%Q.
Proof.
  induction xs as [|y ys IH]; intros H.
  - simpl. unfold qn. simpl. ring.
  - cbn [length qsum fold_right]. change (S (length ys)) with (1 + length ys). rewrite qn_plus.
    unfold qsum in IH. rewrite IH by (intros e He; apply H; right; exact He).
    rewrite (H y) by (left; reflexivity). unfold qn at 2. simpl. ring.
Qed.

Lemma cinc_const data i l v : i < l ->
  (forall p, i <= p < l -> (nth p data 0 == v)%Q) -> (cinc data i l == 0)%Q.
Proof.
  intros Hil Hc. rewrite cinc_sums by lia.
  assert (H1 : (qsum (sl data i (l - i)) == qn (l - i) * v)%Q).
  { pose proof (qsum_const (sl data i (l - i)) v) as H. rewrite sl_length in H. apply H.
    intros e He. apply in_sl in He as (p & Hp & ->). apply Hc. lia. }
  assert (H2 : (qsq (sl data i (l - i)) == qn (l - i) * (v * v))%Q).
  { unfold qsq. pose proof (qsum_const (map (fun x => x * x)%Q (sl data i (l - i))) (v * v)%Q) as H.
    rewrite map_length, sl_length in H. apply H.
    intros e He. apply in_map_iff in He as (x & <- & Hx). apply in_sl in Hx as (p & Hp & ->).
    rewrite (Hc p) by lia. reflexivity. }
  rewrite H1, H2. unfold ssd3.
  assert (P : (0 < qn (l - i))%Q) by (apply qn_pos; lia).
  field. intros E. rewrite E in P. apply (Qlt_irrefl 0). exact P.
Qed.

Lemma QW_nonneg data : forall j l, (0 <= QW data j l)%Q.
Proof.
  induction j as [|j IH]; intros l.
  - destruct (Nat.le_gt_cases l 1).
    + unfold QW. rewrite W_small by lia. apply Qle_refl.
    + unfold QW. rewrite W_col1 by lia. apply cinc_nonneg. lia.
  - destruct (Nat.le_gt_cases l 1).
    + unfold QW. rewrite W_small by lia. apply Qle_refl.
    + destruct (W_step 0%Q Qle_bool Qplus (cinc data) j l ltac:(lia)) as (i & _ & Hi & HW).
      unfold QW. rewrite HW. unfold Wcand. fold (QW data j i).
      rewrite <- (Qplus_0_r 0). apply Qplus_le_compat; [apply cinc_nonneg; lia|apply IH].
Qed.

(* with at most j+1 distinct values among the first l points, j+1 classes cost nothing *)
Lemma QW_zero data : sortedQ data -> forall j l, l <= length data ->
  distinct_upto data l <= j + 1 -> (QW data j l == 0)%Q.
Proof.
  intros Hs. induction j as [|j IH]; intros l Hl HD; unfold distinct_upto in HD.
  - destruct (Nat.le_gt_cases l 1).
    + unfold QW. rewrite W_small by lia. reflexivity.
    + unfold QW. rewrite W_col1 by lia.
      apply cinc_const with (v := nth 0 data 0%Q); [lia|]. intros p Hp.
      apply (const_slice data 0 Hs (l - 1)); [lia|cbn [Nat.add]; lia|lia].
  - destruct (Nat.le_gt_cases l 1) as [H1|H1].
    + unfold QW. rewrite W_small by lia. reflexivity.
    + destruct (W_step 0%Q Qle_bool Qplus (cinc data) j l ltac:(lia)) as (i0 & Hsel & Hi0 & HW).
      assert (Hex : exists p, 1 <= p < l /\ (Wcand 0%Q Qle_bool Qplus (cinc data) j l p == 0)%Q).
      { destruct (Nat.eq_dec (nasc data (seq 1 (l - 1))) 0) as [Hz|Hnz].
        - exists 1. split; [lia|]. unfold Wcand. rewrite W_small by lia. rewrite Qplus_0_r.
          apply cinc_const with (v := nth 1 data 0%Q); [lia|]. intros p Hp.
          apply (const_slice data 1 Hs (l - 2)); [lia| |lia].
          replace (l - 1) with (S (l - 2)) in Hz by lia. cbn [seq] in Hz. rewrite nasc_cons in Hz.
          cbn [Nat.add]. lia.
        - destruct (last_ascent data (l - 1) 1 ltac:(lia)) as (d1 & Hd & Ha & Hn & Ht).
          exists (1 + d1). split; [lia|]. unfold Wcand. fold (QW data j (1 + d1)).
          rewrite (IH (1 + d1)); [|lia|unfold distinct_upto; replace (1 + d1 - 1) with d1 by lia; lia].
          rewrite Qplus_0_r.
          apply cinc_const with (v := nth (1 + d1) data 0%Q); [lia|]. intros p Hp.
          apply (const_slice data (1 + d1) Hs (l - 1 - d1 - 1)); [lia|exact Hn|lia]. }
      destruct Hex as (p & Hp & Hz).
      apply Qle_antisym; [|apply QW_nonneg].
      unfold QW. rewrite HW.
      apply Qle_trans with (Wcand 0%Q Qle_bool Qplus (cinc data) j l p);
        [exact (Wsel_le data j l i0 _ Hsel p Hp)|rewrite Hz; apply Qle_refl].
Qed.

(* the start chosen for the last of j'+2 classes leaves at least j'+1 distinct values below it *)
Lemma Wsel_keeps_distinct data : sortedQ data -> forall j' l i v, l <= length data ->
  j' + 2 <= distinct_upto data l ->
  Wsel 0%Q Qle_bool Qplus (cinc data) j' l = Some (i, v) ->
  1 <= i < l /\ j' + 1 <= distinct_upto data i.
Proof.
  intros Hs j' l i v Hl HD Hsel.
  assert (Hl2 : 2 <= l).
  { unfold distinct_upto in HD. destruct (Nat.le_gt_cases 2 l); [assumption|].
    replace (l - 1) with 0 in HD by lia. cbn [seq] in HD. rewrite nasc_nil in HD. lia. }
  destruct (W_step 0%Q Qle_bool Qplus (cinc data) j' l Hl2) as (i0 & Hs0 & Hi0 & _).
  rewrite Hsel in Hs0. inversion Hs0 as [[Hi Hv]]. subst i0. clear Hs0.
  split; [exact Hi0|].
  destruct (Nat.le_gt_cases (j' + 1) (distinct_upto data i)) as [Hok|Hbad]; [exact Hok|exfalso].
  unfold distinct_upto in HD, Hbad.
  (* ascents of [1,l) = ascents of [1,i) + ascents of [i,l) *)
  assert (Hsplit : nasc data (seq 1 (l - 1)) = nasc data (seq 1 (i - 1)) + nasc data (seq i (l - i))).
  { replace (l - 1) with ((i - 1) + (l - i)) by lia. rewrite seq_app, nasc_app.
    replace (1 + (i - 1)) with i by lia. reflexivity. }
  assert (Hin : 1 <= nasc data (seq (i + 1) (l - i - 1))).
  { replace (l - i) with (S (l - i - 1)) in Hsplit by lia. cbn [seq] in Hsplit.
    rewrite nasc_cons in Hsplit. replace (i + 1) with (S i) by lia.
    destruct (ascb data i); lia. }
  destruct (first_ascent data (l - i - 1) (i + 1) Hin) as (d1 & Hd1 & Ha & Hn0).
  set (i' := i + 1 + d1) in *.
  (* at most one more distinct value below i' than below i *)
  assert (HDi' : distinct_upto data i' <= j' + 1).
  { unfold distinct_upto. replace (i' - 1) with ((i - 1) + S d1) by lia.
    rewrite seq_app, nasc_app. replace (1 + (i - 1)) with i by lia. cbn [seq].
    rewrite nasc_cons. replace (S i) with (i + 1) by lia. rewrite Hn0.
    destruct (ascb data i); lia. }
  assert (HDi : distinct_upto data i <= j' + 1) by (unfold distinct_upto; lia).
  pose proof (QW_zero data Hs j' i' ltac:(lia) HDi') as Hz'.
  pose proof (QW_zero data Hs j' i ltac:(lia) HDi) as Hz.
  pose proof (Wsel_le data j' l i v Hsel i' ltac:(lia)) as Hle.
  rewrite Hv in Hle. unfold Wcand in Hle. fold (QW data j' i) (QW data j' i') in Hle.
  rewrite Hz, Hz', !Qplus_0_r in Hle.
  pose proof (cinc_drop_prefix data i i' l Hs Hl ltac:(lia) Ha) as Hlt.
  apply (Qlt_irrefl (cinc data i l)). eapply Qle_lt_trans; eassumption.
Qed.

(* hence, on sorted data with at least j+1 distinct values, no step of the back-tracking underflows *)
Lemma Wok_of_distinct data : sortedQ data -> forall j l, 1 <= l <= length data ->
  j + 1 <= distinct_upto data l -> Wok 0%Q Qle_bool Qplus (cinc data) j l = true.
Proof.
  intros Hs. induction j as [|j IH]; intros l Hl HD; [reflexivity|].
  cbn [Wok].
  assert (Hl2 : 2 <= l).
  { unfold distinct_upto in HD. destruct (Nat.le_gt_cases 2 l); [assumption|].
    replace (l - 1) with 0 in HD by lia. cbn [seq] in HD. rewrite nasc_nil in HD. lia. }
  destruct (Nat.leb_spec 2 l); [|lia]. cbn [andb].
  destruct (W_step 0%Q Qle_bool Qplus (cinc data) j l Hl2) as (i & Hsel & Hi & _).
  rewrite Hsel.
  destruct (Wsel_keeps_distinct data Hs j l i _ ltac:(lia) ltac:(lia) Hsel) as (_ & HDi).
  apply IH; lia.
Qed.

Theorem jenks_bt_ok_of_distinct data k :
  1 <= k -> 1 <= length data -> sortedQ data -> k <= distinct_upto data (length data) ->
  jenks_bt_ok data k = true.
Proof.
  intros Hk Hn Hs HD. unfold jenks_bt_ok. rewrite (bt_ok_Wok data k Hk) by lia.
  apply Wok_of_distinct; [exact Hs|lia|lia].
Qed.
