(* C12/JenksProofs.v — optimality of the Fisher–Jenks recurrence, for every data
   length, every class count and every class-cost function. *)
From Coq Require Import List Arith Bool QArith Lia.
Import ListNotations.
Require Import C12.Jenks.
Local Open Scope nat_scope.

Section DPProofs.
  Context {T : Type}.
  Variable leb : T -> T -> bool.
  Variable add : T -> T -> T.
  Variable c : nat -> nat -> T.
  Hypothesis leb_total : forall a b, leb a b = true \/ leb b a = true.
  Hypothesis leb_trans : forall a b d, leb a b = true -> leb b d = true -> leb a d = true.
  Hypothesis add_mono : forall a b d, leb a b = true -> leb (add d a) (add d b) = true.

  Lemma leb_refl a : leb a a = true.
  Proof. destruct (leb_total a a); assumption. Qed.

  Lemma tmin_le_l a b : leb (tmin leb a b) a = true.
  Proof. unfold tmin. destruct (leb a b) eqn:E; [apply leb_refl|].
         destruct (leb_total a b); congruence. Qed.
  Lemma tmin_le_r a b : leb (tmin leb a b) b = true.
  Proof. unfold tmin. destruct (leb a b) eqn:E; [assumption|apply leb_refl]. Qed.
  Lemma tmin_in a b : tmin leb a b = a \/ tmin leb a b = b.
  Proof. unfold tmin. destruct (leb a b); auto. Qed.

  Lemma minl_le x xs : leb (minl leb x xs) x = true /\ forall y, In y xs -> leb (minl leb x xs) y = true.
  Proof.
    unfold minl. revert x. induction xs as [|z zs IH]; intros x; simpl.
    - split; [apply leb_refl|intros y []].
    - destruct (IH (tmin leb x z)) as (H1 & H2). split.
      + eapply leb_trans; [exact H1|apply tmin_le_l].
      + intros y [->|Hy]; [eapply leb_trans; [exact H1|apply tmin_le_r]|auto].
  Qed.
  Lemma minl_in x xs : In (minl leb x xs) (x :: xs).
  Proof.
    unfold minl. revert x. induction xs as [|z zs IH]; intros x; simpl; [auto|].
    destruct (IH (tmin leb x z)) as [H|H].
    - destruct (tmin_in x z) as [E|E]; [left|right; left]; congruence.
    - right; right; exact H.
  Qed.

  Lemma starts_in l i : In i (starts l) <-> 0 < i < l.
  Proof. unfold starts. rewrite in_seq. lia. Qed.

  (* V (j) l is a lower bound for EVERY partition of the first l points into j+1 classes *)
  Theorem V_lower_bound : forall j l P,
    pvalid l P -> length P = j -> leb (V leb add c j l) (pcost add c l P) = true.
  Proof.
    induction j as [|j IH]; intros l P Hv Hl.
    - destruct P; [|discriminate]. simpl. apply leb_refl.
    - destruct P as [|i P']; [discriminate|]. simpl in Hv, Hl. destruct Hv as (Hi & Hv').
      cbn [V pcost].
      assert (Hin : In (add (c i l) (V leb add c j i))
                       (map (fun i0 => add (c i0 l) (V leb add c j i0)) (starts l))).
      { apply in_map_iff. exists i. split; [reflexivity|]. apply starts_in; lia. }
      assert (Hstep : leb (add (c i l) (V leb add c j i)) (add (c i l) (pcost add c i P')) = true).
      { apply add_mono. apply IH; [assumption|lia]. }
      destruct (map (fun i0 => add (c i0 l) (V leb add c j i0)) (starts l)) as [|x xs] eqn:E;
        [destruct Hin|].
      destruct (minl_le x xs) as (Hx & Hxs).
      destruct Hin as [->|Hin]; (eapply leb_trans; [|exact Hstep]); auto.
  Qed.

  (* ... and it is the cost of an actual partition (into at most j+1 classes) *)
  Theorem V_attained : forall j l, 0 < l ->
    exists P, pvalid l P /\ length P <= j /\ pcost add c l P = V leb add c j l.
  Proof.
    induction j as [|j IH]; intros l Hl.
    - exists []. simpl. repeat split; auto.
    - cbn [V].
      destruct (map (fun i0 => add (c i0 l) (V leb add c j i0)) (starts l)) as [|x xs] eqn:E.
      + exists []. simpl. repeat split; auto; lia.
      + pose proof (minl_in x xs) as Hin. rewrite <- E in Hin.
        apply in_map_iff in Hin as (i & Hv & Hi). apply starts_in in Hi.
        destruct (IH i) as (P' & Hp & Hlen & Hc); [lia|].
        exists (i :: P'). simpl. repeat split; try lia; auto.
        rewrite Hc. exact Hv.
  Qed.
End DPProofs.

(* ---- instance: rational SSD cost ---- *)
Lemma Qle_bool_total a b : Qle_bool a b = true \/ Qle_bool b a = true.
Proof.
  destruct (Qlt_le_dec b a) as [H|H].
  - right. apply Qle_bool_iff. apply Qlt_le_weak; assumption.
  - left. apply Qle_bool_iff; assumption.
Qed.
Lemma Qle_bool_trans a b d : Qle_bool a b = true -> Qle_bool b d = true -> Qle_bool a d = true.
Proof. rewrite !Qle_bool_iff. apply Qle_trans. Qed.
Lemma Qplus_mono a b d : Qle_bool a b = true -> Qle_bool (d + a)%Q (d + b)%Q = true.
Proof. rewrite !Qle_bool_iff. intros H. apply Qplus_le_compat; [apply Qle_refl|assumption]. Qed.

Theorem jenks_min_lower_bound data k P :
  (0 < k)%nat -> pvalid (length data) P -> length P = (k - 1)%nat ->
  (jenks_min data k <= pcost Qplus (ssd data) (length data) P)%Q.
Proof.
  intros Hk Hv Hl. apply Qle_bool_iff. unfold jenks_min.
  apply V_lower_bound; auto.
  - exact Qle_bool_total.
  - exact Qle_bool_trans.
  - exact Qplus_mono.
Qed.

Theorem jenks_min_attained data k :
  (0 < length data)%nat ->
  exists P, pvalid (length data) P /\ (length P <= k - 1)%nat /\
            pcost Qplus (ssd data) (length data) P = jenks_min data k.
Proof. intros Hn. unfold jenks_min. apply V_attained; assumption. Qed.
