"""Text encoding of raster values for the extracted models that work on Base.XVal.xv:
finite floats are embedded exactly and order-preservingly into Z by a common power-of-two scale."""
import math
from fractions import Fraction


def scale_for(values):
    """Smallest power of two s such that v*s is an integer for every finite v."""
    s = 1
    for v in values:
        if isinstance(v, float):
            if math.isnan(v) or math.isinf(v):
                continue
            d = Fraction(v).denominator
        elif isinstance(v, Fraction):
            d = v.denominator
        else:
            continue
        if d > s:
            s = d
    return s


def tok_int(n):
    if -(1 << 60) < n < (1 << 60):
        return str(n)
    return ('-0x%x' % -n) if n < 0 else ('0x%x' % n)


def tok(v, s=1):
    if isinstance(v, float):
        if math.isnan(v):
            return 'nan'
        if math.isinf(v):
            return 'inf' if v > 0 else '-inf'
        f = Fraction(v) * s
        assert f.denominator == 1, (v, s)
        return tok_int(f.numerator)
    if isinstance(v, Fraction):
        f = v * s
        assert f.denominator == 1
        return tok_int(f.numerator)
    return tok_int(int(v) * s)


def toks(vs, s=1):
    return ' '.join(tok(v, s) for v in vs)


def lst(vs, s=1):
    vs = list(vs)
    return '%d %s' % (len(vs), toks(vs, s))


def grid(rows, s=1):
    rows = [list(r) for r in rows]
    nr = len(rows)
    nc = len(rows[0]) if nr else 0
    return '%d %d %s' % (nr, nc, ' '.join(toks(r, s) for r in rows))


def parse(t, s=1):
    """token -> float (nan/inf) or Fraction (finite, unscaled)"""
    if t == 'nan':
        return float('nan')
    if t == 'inf':
        return float('inf')
    if t == '-inf':
        return float('-inf')
    return Fraction(int(t, 0), s)


def same(a, b):
    """a: float from the implementation; b: parse() result from the model."""
    if isinstance(b, float):
        if math.isnan(b):
            return isinstance(a, float) and math.isnan(a)
        return a == b
    if isinstance(a, float) and (math.isnan(a) or math.isinf(a)):
        return False
    return Fraction(a) == b
