"""Shared machinery for ./check: building the Coq development and the extracted
OCaml model of one property, running the model driver, collecting violations,
known findings, replays and evidence.  See DESIGN.md §2 and §5."""
import fcntl
import hashlib
import json
import os
import random
import re
import subprocess
import sys
import time

VERIF = os.path.dirname(os.path.dirname(os.path.abspath(__file__)))
REPO = os.environ.get('VERIF_REPO', '/repo')
COQ = os.path.join(VERIF, 'coq')
BUILD = os.path.join(VERIF, 'build')
FORBIDDEN = re.compile(
    r'\b(Admitted|admit|Axiom|Axioms|Parameter|Parameters|Conjecture|Conjectures|'
    r'Admit\s+Obligations|bypass_check)\b|Unset\s+Guard\s+Checking|Unset\s+Positivity\s+Checking|'
    r'Unset\s+Universe\s+Checking|-type-in-type|-impredicative-set|native_compute')
GLOBAL_TRUSTED = [
    'Coq 8.16.1 kernel (coqc; vm_compute used, native_compute not used)',
    'extraction to OCaml with ExtrOcamlBasic (plus ExtrOCamlFloats where a model uses PrimFloat); '
    'no Extract Constant / Extract Inductive of our own',
    'ocamlfind ocamlopt 4.13.1 and the per-property driver under /verif/ocaml',
    'the correspondence harness, generators, canonicalisers and Python property oracles under /verif/harness',
    'modelled, not verified: Numba compilation of the kernels, NumPy/xarray/Dask primitives used by the wrappers',
]


def sh(cmd, cwd=None, timeout=1800, env=None):
    t0 = time.time()
    try:
        p = subprocess.run(cmd, shell=isinstance(cmd, str), cwd=cwd, timeout=timeout,
                           stdout=subprocess.PIPE, stderr=subprocess.STDOUT, env=env)
        return p.returncode, p.stdout.decode('utf-8', 'replace'), time.time() - t0
    except subprocess.TimeoutExpired as e:
        out = (e.stdout or b'').decode('utf-8', 'replace')
        return 124, out + '\n[timeout after %ss]' % timeout, time.time() - t0


def coq_flags(d):
    flags = []
    files = []
    for line in open(os.path.join(d, '_CoqProject')):
        line = line.strip()
        if not line or line.startswith('#'):
            continue
        if line.startswith('-'):
            flags += line.split()
        else:
            files.append(line)
    return flags, files


def ensure_makefile(d):
    mk = os.path.join(d, 'Makefile')
    cp = os.path.join(d, '_CoqProject')
    if (not os.path.exists(mk)) or os.path.getmtime(mk) < os.path.getmtime(cp):
        rc, out, _ = sh('coq_makefile -f _CoqProject -o Makefile', cwd=d, timeout=120)
        if rc != 0:
            raise RuntimeError('coq_makefile failed in %s: %s' % (d, out))


def write_if_changed(path, content):
    old = None
    if os.path.exists(path):
        old = open(path).read()
    if old != content:
        with open(path, 'w') as f:
            f.write(content)
        return True
    return False


def grep_gate(dirs):
    """Fail closed on any forbidden token in the .v sources (comments are stripped first)."""
    hits = []
    for d in dirs:
        for fn in sorted(os.listdir(d)):
            if not fn.endswith('.v'):
                continue
            src = open(os.path.join(d, fn)).read()
            # strip (* ... *) comments (nesting-aware)
            out = []
            depth = 0
            i = 0
            while i < len(src):
                if src.startswith('(*', i):
                    depth += 1
                    i += 2
                elif src.startswith('*)', i) and depth > 0:
                    depth -= 1
                    i += 2
                else:
                    if depth == 0:
                        out.append(src[i])
                    elif src[i] == '\n':
                        out.append('\n')
                    i += 1
            code = ''.join(out)
            for n, line in enumerate(code.split('\n'), 1):
                m = FORBIDDEN.search(line)
                if m:
                    hits.append('%s:%d: %s' % (os.path.join(d, fn), n, m.group(0)))
    return hits


def parse_assumptions(stdout, names):
    """Split coqc stdout of Props.v into one block per Print Assumptions command (in order)."""
    blocks = []
    cur = None
    for line in stdout.split('\n'):
        if line.startswith('Closed under the global context'):
            if cur is not None:
                blocks.append(cur)
            blocks.append(['Closed under the global context'])
            cur = None
        elif line.startswith('Axioms:'):
            if cur is not None:
                blocks.append(cur)
            cur = []
        elif cur is not None:
            if re.match(r'^\S', line):
                cur.append(line.strip())          # "name : type" or a bare "name" (type on the next, indented lines)
            elif line.startswith(' ') and cur:
                cur[-1] += ' ' + line.strip()
    if cur is not None:
        blocks.append(cur)
    res = {}
    for i, n in enumerate(names):
        if i < len(blocks):
            b = blocks[i]
            if b == ['Closed under the global context']:
                res[n] = []
            else:
                res[n] = [re.split(r'\s*:\s*|\s+', x, 1)[0] for x in b if x]
        else:
            res[n] = None
    return res


class FileLock:
    """exclusive advisory lock on build/locks/<name>.lock, so that concurrent ./check runs (different properties
    share coq/Base; two runs of one property share coq/<pid>, its Generated*.v and build/<pid>) never interleave"""

    def __init__(self, name):
        d = os.path.join(BUILD, 'locks')
        os.makedirs(d, exist_ok=True)
        self.path = os.path.join(d, name + '.lock')
        self.fh = None

    def __enter__(self):
        self.fh = open(self.path, 'w')
        fcntl.flock(self.fh, fcntl.LOCK_EX)
        return self

    def __exit__(self, *a):
        try:
            fcntl.flock(self.fh, fcntl.LOCK_UN)
        finally:
            self.fh.close()


class BuildResult:
    def __init__(self):
        self.ok = True            # every proof obligation compiled
        self.model_ok = False     # extracted driver is available
        self.theorems = []        # claimed theorem names in Props*.v
        self.assumptions = {}     # name -> list of axioms (None if not obtained)
        self.broken = []          # descriptions of broken obligations
        self.log = ''
        self.wall = 0.0
        self.checker_cmd = ''
        self.facts_error = None
        self.coqchk = None


def build_property(pid, mod, tier='quick', verbose=False):
    """Regenerate facts from /repo, build coq/Base and coq/<pid>, extract, build the driver."""
    t0 = time.time()
    br = BuildResult()
    d = os.path.join(COQ, pid)
    base = os.path.join(COQ, 'Base')
    log = []
    # 1. generated facts (source => Generated*.v), fail closed
    if hasattr(mod, 'facts'):
        try:
            for fn, content in mod.facts(REPO).items():
                write_if_changed(os.path.join(d, fn), content)
        except Exception as e:  # translator refuses: broken obligation
            br.ok = False
            br.facts_error = '%s: %s' % (type(e).__name__, e)
            br.broken.append('facts translator failed (fail-closed): %s' % br.facts_error)
    # 2. forbidden-token gate
    hits = grep_gate([base, d])
    if hits:
        br.ok = False
        br.broken.append('forbidden tokens in Coq sources: ' + '; '.join(hits))
    # 3. make
    jobs = os.environ.get('VERIF_JOBS', '8')
    for dd in (base, d):
        if dd == base:
            with FileLock('Base'):
                ensure_makefile(dd)
                rc, out, _ = sh('make -k -j%s' % jobs, cwd=dd, timeout=int(os.environ.get('VERIF_MAKE_TIMEOUT', '2400')))
        else:
            ensure_makefile(dd)
            if tier == 'thorough' and os.environ.get('VERIF_NO_CLEAN') != '1':
                sh('make clean', cwd=dd, timeout=300)
            rc, out, _ = sh('make -k -j%s' % jobs, cwd=dd, timeout=int(os.environ.get('VERIF_MAKE_TIMEOUT', '2400')))
        log.append(out)
        if rc != 0:
            br.ok = False
            errs = re.findall(r'File "\./([^"]+)", line (\d+)[^\n]*\n((?:.*\n){0,12}?)(?=make|\Z|File )', out)
            desc = '; '.join('%s:%s %s' % (f, l, ' '.join(m.split())[:300]) for f, l, m in errs) or out[-800:]
            br.broken.append('coq build failed in %s: %s' % (os.path.relpath(dd, VERIF), desc))
    flags, files = coq_flags(d)
    br.checker_cmd = 'cd %s && coq_makefile -f _CoqProject -o Makefile && make -k -j%s  (coqc %s)' % (
        os.path.relpath(d, VERIF), jobs, ' '.join(flags))
    # 4. Print Assumptions of every Props*.v
    for fn in files:
        if not os.path.basename(fn).startswith('Props'):
            continue
        src = open(os.path.join(d, fn)).read()
        claimed = re.findall(r'^\s*(?:Theorem|Lemma|Corollary)\s+([A-Za-z0-9_\']+)', src, re.M)
        printed = re.findall(r'^\s*Print Assumptions\s+([A-Za-z0-9_\'.]+)\s*\.', src, re.M)
        br.theorems += claimed
        vo = os.path.join(d, fn[:-2] + '.vo')
        if os.path.exists(vo) and os.path.getmtime(vo) >= os.path.getmtime(os.path.join(d, fn)):
            rc, out, _ = sh(['coqc'] + flags + [fn], cwd=d, timeout=1200)
            log.append(out)
            if rc == 0:
                br.assumptions.update(parse_assumptions(out, printed))
            else:
                br.ok = False
                br.broken.append('coqc %s failed: %s' % (fn, out[-600:]))
        else:
            for n in claimed:
                br.assumptions[n] = None
        for n in claimed:
            if n not in printed:
                br.broken.append('theorem %s has no Print Assumptions' % n)
                br.ok = False
    for n in br.theorems:
        if br.assumptions.get(n) is None and br.ok:
            br.ok = False
            br.broken.append('no Print Assumptions output for %s' % n)
    # 4b. thorough tier: independent re-check of the compiled theorems with coqchk
    br.coqchk = None
    if tier == 'thorough' and br.ok and os.environ.get('VERIF_COQCHK', '1') == '1':
        mods = ['%s.%s' % (pid, os.path.basename(fn)[:-2]) for fn in files if os.path.basename(fn).startswith('Props')]
        rc, out, _ = sh(['coqchk', '-silent', '-o'] + flags + mods, cwd=d, timeout=3000)
        summ = out[out.find('CONTEXT SUMMARY'):] if 'CONTEXT SUMMARY' in out else out[-1500:]
        br.coqchk = {'rc': rc, 'summary': ' '.join(summ.split())[:3000]}
        if rc != 0:
            br.ok = False
            br.broken.append('coqchk rejected the compiled development: ' + out[-600:])
    # 5. OCaml driver
    ml = os.path.join(d, 'model.ml')
    drv_src = os.path.join(VERIF, 'ocaml', '%s_driver.ml' % pid.lower())
    if os.path.exists(ml) and os.path.exists(drv_src) and \
            os.path.getmtime(ml) >= os.path.getmtime(os.path.join(d, 'Model.v')):
        bd = os.path.join(BUILD, pid.lower())
        os.makedirs(bd, exist_ok=True)
        utils = getattr(mod, 'OCAML_UTILS', ['zio.ml', 'xio.ml'])
        pkgs = getattr(mod, 'OCAML_PACKAGES', [])
        srcs = [ml, os.path.join(d, 'model.mli')] + [os.path.join(VERIF, 'ocaml', u) for u in utils] + [drv_src]
        h = hashlib.sha256()
        for s in srcs:
            h.update(open(s, 'rb').read())
        stamp = os.path.join(bd, 'stamp')
        exe = os.path.join(bd, 'driver')
        if not (os.path.exists(exe) and os.path.exists(stamp) and open(stamp).read() == h.hexdigest()):
            for s in srcs[:-1]:
                sh(['cp', s, bd])
            sh(['cp', drv_src, os.path.join(bd, 'driver.ml')])
            pk = ('-package ' + ','.join(pkgs) + ' -linkpkg ') if pkgs else ''
            extra = getattr(mod, 'OCAML_FLAGS', '')
            cmd = 'ocamlfind ocamlopt -w -a %s %s model.mli model.ml %s driver.ml -o driver' % (
                extra, pk, ' '.join(utils))
            rc, out, _ = sh(cmd, cwd=bd, timeout=600)
            log.append(out)
            if rc == 0:
                open(stamp, 'w').write(h.hexdigest())
            else:
                br.broken.append('ocaml build of the extracted model failed: ' + out[-600:])
                br.ok = False
        br.model_ok = os.path.exists(exe) and os.path.exists(stamp) and open(stamp).read() == h.hexdigest()
    elif os.path.exists(drv_src):
        br.broken.append('extracted model.ml missing or stale (Extract.v did not compile)')
        br.ok = False
    br.log = '\n'.join(log)
    br.wall = time.time() - t0
    return br


class ModelDriver:
    """Runs the extracted model: one case per input line, one result per output line."""

    def __init__(self, pid):
        self.exe = os.path.join(BUILD, pid.lower(), 'driver')
        self.calls = 0

    def run(self, lines, timeout=1200):
        if not lines:
            return []
        data = ('\n'.join(lines) + '\n').encode()
        p = subprocess.run([self.exe], input=data, stdout=subprocess.PIPE, stderr=subprocess.PIPE,
                           timeout=timeout, preexec_fn=_unlimit_stack)
        out = p.stdout.decode().split('\n')
        if out and out[-1] == '':
            out.pop()
        if len(out) != len(lines):
            raise RuntimeError('model driver returned %d lines for %d cases (rc=%s, stderr=%s)' % (
                len(out), len(lines), p.returncode, p.stderr.decode()[-400:]))
        self.calls += len(lines)
        return out


def _unlimit_stack():
    import resource
    try:
        resource.setrlimit(resource.RLIMIT_STACK, (resource.RLIM_INFINITY, resource.RLIM_INFINITY))
    except Exception:
        pass


def load_known():
    out = []
    p = os.path.join(VERIF, 'known_findings.json')
    if os.path.exists(p):
        out += json.load(open(p)).get('findings', [])
    d = os.path.join(VERIF, 'known_findings.d')
    if os.path.isdir(d):
        for fn in sorted(os.listdir(d)):
            if fn.endswith('.json'):
                out += json.load(open(os.path.join(d, fn))).get('findings', [])
    return out


class Ctx:
    def __init__(self, pid, tier, seed):
        self.pid = pid
        self.tier = tier
        self.seed = seed
        self.rng = random.Random(seed)
        self.t0 = time.time()
        self.model = None
        self.build = None
        self.violations = []          # dicts: kind, what, key, replay
        self.evaluations = 0
        self.traces = 0               # cases compared impl vs model
        self.nontrivial = set()
        self.samples = []
        self.dist = {}
        self.notes = []
        self.exhaustive = None
        self.rule = ''
        self.partial = []
        self.extra = {}

    # ---- bookkeeping -------------------------------------------------
    def quick(self):
        return self.tier != 'thorough'

    def count(self, key, n=1):
        self.dist[key] = self.dist.get(key, 0) + n

    def case(self, case, nontrivial=True, sample_every=0):
        """Register one explored case (a JSON-able object)."""
        self.evaluations += 1
        if nontrivial:
            h = hashlib.sha1(json.dumps(case, sort_keys=True, default=str).encode()).hexdigest()
            self.nontrivial.add(h)
        if len(self.samples) < 6 and (self.evaluations == 1 or self.rng.random() < 0.02):
            self.samples.append(case)

    def violation(self, kind, what, replay, key=None):
        """kind: 'oracle' (the property fails on the real code for this input),
        'correspondence' (model and code disagree), 'proof' (an obligation no longer checks)."""
        self.violations.append({'kind': kind, 'what': what, 'key': key, 'replay': replay})

    def elapsed(self):
        return time.time() - self.t0


def fmt_float(x):
    import math
    if isinstance(x, float):
        if math.isnan(x):
            return 'nan'
        if math.isinf(x):
            return 'inf' if x > 0 else '-inf'
    return x


def jsonable(o):
    """Convert numpy containers/scalars to plain JSON values (NaN/inf as strings)."""
    import numpy as np
    if isinstance(o, dict):
        return {str(k): jsonable(v) for k, v in o.items()}
    if isinstance(o, (list, tuple)):
        return [jsonable(v) for v in o]
    if isinstance(o, np.ndarray):
        return jsonable(o.tolist())
    if isinstance(o, (np.floating, float)):
        return fmt_float(float(o))
    if isinstance(o, (np.integer,)):
        return int(o)
    if isinstance(o, (np.bool_,)):
        return bool(o)
    return o


def finish(ctx, mod):
    """Turn collected violations into VIOLATION / KNOWN-FINDING lines, write evidence, return exit code."""
    br = ctx.build
    known = [k for k in load_known() if k.get('property') == ctx.pid]
    known_keys = {k['key']: k for k in known if k.get('status') == 'known'}
    os.makedirs(os.path.join(VERIF, 'replays'), exist_ok=True)
    os.makedirs(os.path.join(VERIF, 'evidence'), exist_ok=True)
    lines = []
    rc = 0
    seen_known = set()

    def _what(k):
        return re.sub(r'^(known|fixed):\s*property=\S+\s*', '', k['what'])
    oracle_v = [v for v in ctx.violations if v['kind'] == 'oracle']
    other_v = [v for v in ctx.violations if v['kind'] != 'oracle']
    new_oracle = []
    for v in oracle_v:
        if v['key'] in known_keys:
            if v['key'] not in seen_known:
                seen_known.add(v['key'])
                lines.append('KNOWN-FINDING: property=%s %s' % (ctx.pid, _what(known_keys[v['key']])))
        else:
            new_oracle.append(v)
    # a correspondence/proof break that is explained by a known finding carries that finding's key
    new_other = []
    for v in other_v:
        if v['key'] in known_keys:
            if v['key'] not in seen_known:
                seen_known.add(v['key'])
                lines.append('KNOWN-FINDING: property=%s %s' % (ctx.pid, _what(known_keys[v['key']])))
        else:
            new_other.append(v)
    n = 0
    reported_keys = set()
    for v in new_oracle:
        k = v['key'] or v['what'][:60]
        if k in reported_keys:
            continue
        reported_keys.add(k)
        if n >= 5:
            break
        n += 1
        path = os.path.join(VERIF, 'replays', '%s-%d-%d.json' % (ctx.pid, ctx.seed, n))
        json.dump({'property': ctx.pid, 'kind': 'failing-input', 'what': v['what'], 'key': v['key'],
                   'seed': ctx.seed, 'tier': ctx.tier, 'case': jsonable(v['replay'])}, open(path, 'w'), indent=1)
        lines.append('VIOLATION property=%s replay=%s' % (ctx.pid, path))
        rc = 1
    if new_other and not new_oracle:
        # the property is no longer shown to hold, but no failing input was found
        path = os.path.join(VERIF, 'replays', '%s-%d-unproved.json' % (ctx.pid, ctx.seed))
        json.dump({'property': ctx.pid, 'kind': 'no-failing-input-found', 'seed': ctx.seed, 'tier': ctx.tier,
                   'broken': [{'kind': v['kind'], 'what': v['what'], 'case': jsonable(v['replay'])}
                              for v in new_other[:20]]}, open(path, 'w'), indent=1)
        lines.append('VIOLATION property=%s replay=%s no-failing-input-found' % (ctx.pid, path))
        rc = 1
    elif new_other and new_oracle:
        path = os.path.join(VERIF, 'replays', '%s-%d-broken.json' % (ctx.pid, ctx.seed))
        json.dump({'property': ctx.pid, 'kind': 'broken-obligations', 'seed': ctx.seed,
                   'broken': [{'kind': v['kind'], 'what': v['what'], 'case': jsonable(v['replay'])}
                              for v in new_other[:20]]}, open(path, 'w'), indent=1)
    # evidence
    axioms = sorted({a for n_, l in (br.assumptions or {}).items() if l for a in l}) if br else []
    obligations = len(br.theorems) if br else 0
    discharged = len([n_ for n_ in (br.theorems if br else []) if br.assumptions.get(n_) is not None]) if br and br.ok else \
        len([n_ for n_ in (br.theorems if br else []) if br.assumptions.get(n_) is not None])
    trusted = list(GLOBAL_TRUSTED)
    trusted.append('axioms reported by Print Assumptions over all claimed theorems: ' +
                   (', '.join(axioms) if axioms else 'none (closed under the global context)'))
    trusted += list(getattr(mod, 'TRUSTED', []))
    ev = {
        'property_id': ctx.pid,
        'tier': 'thorough' if ctx.tier == 'thorough' else 'quick',
        'seed': ctx.seed,
        'level': 'proof',
        'coverage': {
            'obligations': obligations,
            'discharged': discharged,
            'checker_cmd': br.checker_cmd if br else '',
            'trusted_base': trusted,
            'theorems': {n_: (br.assumptions.get(n_) if br else None) for n_ in (br.theorems if br else [])},
            'broken_obligations': br.broken if br else [],
            'unclaimed_or_partial': list(getattr(mod, 'PARTIAL', [])) + ctx.partial,
            'evaluations': ctx.evaluations,
            'distinct_nontrivial': len(ctx.nontrivial),
            'traces_validated_against_impl': ctx.traces,
            'rule': ctx.rule or getattr(mod, 'RULE', ''),
            'samples': jsonable(ctx.samples[:6]),
            'input_distribution': ctx.dist,
            'exhaustive': bool(ctx.exhaustive),
            'notes': ctx.notes,
            'build_wall_s': round(br.wall, 1) if br else None,
            'coqchk': br.coqchk if br else None,
        },
        'assumptions': list(getattr(mod, 'ASSUMPTIONS', [])),
        'wall_s': round(ctx.elapsed(), 1),
        'violations': len(new_oracle) + (1 if (new_other and not new_oracle) else 0),
        'known_findings_seen': sorted(seen_known),
    }
    ev['coverage'].update(ctx.extra)
    if os.path.realpath(REPO) == '/repo':
        ev_path = os.path.join(VERIF, 'evidence', '%s.json' % ctx.pid)
    else:
        # a run against a scratch copy of the repository (VERIF_REPO=...) is not evidence about /repo
        os.makedirs(os.path.join(BUILD, 'scratch-evidence'), exist_ok=True)
        ev_path = os.path.join(BUILD, 'scratch-evidence', '%s.json' % ctx.pid)
    json.dump(ev, open(ev_path, 'w'), indent=1)
    for l in lines:
        print(l)
    print('%s %s tier=%s seed=%d: obligations %d/%d, evaluations=%d, traces=%d, violations=%d, known=%d, %.1fs' % (
        'OK' if rc == 0 else 'FAIL', ctx.pid, ctx.tier, ctx.seed, discharged, obligations, ctx.evaluations,
        ctx.traces, ev['violations'], len(seen_known), ctx.elapsed()))
    sys.stdout.flush()
    return rc
