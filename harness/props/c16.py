"""C16 — regions labels are exactly the connected components of equal value.
Correspondence: xrspatial.zonal.regions vs the extracted Coq model coq/C16/Model.v (label for label);
oracle: flood fill, label partitions compared up to renaming."""
import itertools
import time
import math

import numpy as np
import xarray as xr

from harness import xvio

ID = 'C16'
RULE = ('every raster over {0,1,NaN} with at most 6 cells (quick) / 9 cells plus every {0,1} raster of 3x4, 4x3 and 4x4 (thorough), all '
        'shapes incl. 1xN / Nx1, neighbourhood 4 and 8; U-, S-, spiral-, comb-, ring-, diagonal- and checkerboard-shaped components '
        '(all 8 rotations/reflections, sizes up to 9x9, optional NaN cells); random rasters up to 12x12 over alphabets of 2-4 integers '
        'with NaN cells; float64/float32/int64/int32; a dtype family (int8..uint64, bool, float32: small rasters, 12..17-wide checkerboards '
        'with more regions than an 8-bit label can count, 20..30-wide rasters, negative ids and ids > 2**24, four dimension namings, '
        'rasters without coordinate labels, the name argument); a memory-layout stream (the same logical U/S/spiral/comb/checkerboard/'
        'diagonal/ring/random raster C-contiguous, F-contiguous, as a transposed view, as a strided+reversed view, read-only, byte-swapped); neighbourhoods other than 4/8 must raise ValueError; a small +-inf family (correspondence only: outside the integer-valued domain). '
        'A case is non-trivial when some component has >= 3 cells or the raster has >= 2 components of the same value.')
TRUSTED = [
    'cell values are integers of magnitude < 10^5 (or NaN): there np.isclose-style `|a-v| <= 1e-8 + 1e-5|v|` is exact equality, which is '
    'how the model defines `isclose` (the +-inf behaviour of the formula is modelled, but outside the theorems\' domain)',
    '`out` is modelled as a total function position -> value (zeros initially); the global relabel double loop is the pointwise map; '
    'only in-range cells are ever read because every window index is clamped',
    'the xarray wrapper (dims/coords/attrs/name) is checked by the Python oracle only',
]
ASSUMPTIONS = ['native byte order (Numba rejects byte-swapped arrays with a TypingError in every kernel: counted, not a violation); NumPy backend; neighborhood in {4, 8}; integer-valued cells with |v| < 10^5 or NaN (the property\'s quantifier: small alphabets); '
               'labels are counted in int64 for bool/integer rasters (after fixes/C16-regions-label-dtype.diff) and in the raster dtype for floats: '
               'exact below 2^24 regions for float32']
PARTIAL = [
    'dims / coords / attrs preservation by the xarray wrapper: Python oracle only (the Coq theorem covers the shape of the label raster)',
    'rasters with +-inf cells or integers of magnitude >= 10^5 (where the relative tolerance of the closeness test exceeds 1, e.g. '
    '99999|100000 are merged): outside the theorems\' domain; +-inf behaviour is covered by the correspondence only',
]
LEVEL_TEXT = ('Proved for all raster shapes (incl. 1xN, Nx1), both neighbourhoods and every integer-valued raster with NaN cells, by invariants '
              'over both passes of the modelled _area_connectivity (axiom-free): labels are positive integers, NaN cells stay NaN, equal '
              'labels imply a connecting path of adjacent equal-valued cells (soundness), adjacent equal-valued cells get equal labels '
              '(completeness, incl. the stale area_window snapshot during global relabelling), hence labels are exactly the connected '
              'components; the clamped windows are exactly self + in-range neighbours; the output keeps the shape. '
              'No bounded theorem was needed. dims/coords/attrs are checked by the oracle; the +-inf quirks by correspondence only.')
LEVEL_NOTE = ('Trusted: the Coq kernel, extraction, the OCaml driver, the embedding of integer-valued cells, Numba compiling the two passes '
              'as written, and the function-valued model of the `out` array.')

NAN = float('nan')
DTYPES = ['float64', 'float32', 'int64', 'int32']


def _impl():
    from xrspatial import zonal
    return zonal


def isnan(v):
    return isinstance(v, float) and math.isnan(v)


def to_floats(a):
    return [[float(v) for v in row] for row in np.asarray(a).tolist()]


# --------------------------------------------------------------------------- oracle
def flood_components(data, n):
    """component id per cell (None for NaN): cells joined by a path of n-adjacent cells holding the same value"""
    rows, cols = len(data), len(data[0]) if data else 0
    comp = [[None] * cols for _ in range(rows)]
    if n == 4:
        nb = [(-1, 0), (1, 0), (0, -1), (0, 1)]
    else:
        nb = [(dy, dx) for dy in (-1, 0, 1) for dx in (-1, 0, 1) if (dy, dx) != (0, 0)]
    k = 0
    for y0 in range(rows):
        for x0 in range(cols):
            if comp[y0][x0] is not None or isnan(data[y0][x0]):
                continue
            k += 1
            comp[y0][x0] = k
            stack = [(y0, x0)]
            while stack:
                y, x = stack.pop()
                for dy, dx in nb:
                    yy, xx = y + dy, x + dx
                    if 0 <= yy < rows and 0 <= xx < cols and comp[yy][xx] is None and data[yy][xx] == data[y][x]:
                        comp[yy][xx] = k
                        stack.append((yy, xx))
    return comp


def check_oracle(ctx, case, src, res, key=None):
    data = to_floats(src.data)       # the cells the implementation saw (after the cast to the raster dtype)
    n = case['n']
    what = 'regions(neighborhood=%d, %s)' % (n, case['dtype'])

    def bad(msg, **kw):
        ctx.violation('oracle', '%s: %s' % (what, msg), dict(case, **kw), key=key)
        return False
    if res.name != (case['name'] if case.get('name') is not None else 'regions'):
        return bad('regions(name=%r): result is named %r' % (case.get('name'), res.name))
    if tuple(res.shape) != tuple(src.shape) or tuple(res.dims) != tuple(src.dims) or dict(res.attrs) != dict(src.attrs):
        return bad('shape/dims/attrs changed: %r %r %r' % (res.shape, res.dims, dict(res.attrs)))
    for d in src.dims:
        if [float(v) for v in res[d].values] != [float(v) for v in src[d].values]:
            return bad('coordinate %s changed' % d)
    if sorted(map(str, res.coords)) != sorted(map(str, src.coords)):
        return bad('coordinates are not those of the input: %r vs %r' % (sorted(map(str, res.coords)), sorted(map(str, src.coords))))
    for cname in src.coords:
        if not np.array_equal(np.asarray(res.coords[cname].values), np.asarray(src.coords[cname].values)):
            return bad('coordinate %s changed' % cname)
    lab = to_floats(res.data)
    comp = flood_components(data, n)
    first = {}      # component -> label
    owner = {}      # label -> component
    for y, row in enumerate(data):
        for x, v in enumerate(row):
            l = lab[y][x]
            if isnan(v):
                if not isnan(l):
                    return bad('NaN cell (%d,%d) got label %r' % (y, x, l), labels=lab)
                continue
            if isnan(l) or not l > 0 or l != int(l):
                return bad('cell (%d,%d) with value %r got label %r (labels must be positive)' % (y, x, v, l), labels=lab)
            c = comp[y][x]
            if c in first and first[c] != l:
                return bad('cells of one connected component (value %r, e.g. (%d,%d)) carry different labels %r and %r' % (
                    v, y, x, first[c], l), labels=lab)
            first.setdefault(c, l)
            if l in owner and owner[l] != c:
                return bad('label %r is shared by two different components (cell (%d,%d), value %r)' % (l, y, x, v), labels=lab)
            owner.setdefault(l, c)
    return True


# --------------------------------------------------------------------------- one case
DIMS = [('lat', 'lon'), ('y', 'x'), ('x', 'y'), ('row', 'col')]
KEY_WRAP = 'regions-labels-wrap-in-input-dtype'


LAYOUTS = ['C', 'F', 'T', 'strided', 'readonly', 'nonnative', 'reversed']


def apply_layout(a, layout):
    """the same logical 2-D array in another memory layout"""
    if layout == 'F':                       # column-major, owning
        return np.asfortranarray(a)
    if layout == 'T':                       # transposed view of a C-contiguous (cols, rows) array
        return np.ascontiguousarray(a.T).T
    if layout == 'strided':                 # every second row, columns reversed, of a larger array: neither C nor F contiguous
        base = np.full((2 * a.shape[0] + 1, a.shape[1] + 2), 3, dtype=a.dtype)
        view = base[1:2 * a.shape[0]:2, a.shape[1]:0:-1]
        view[...] = a
        return view
    if layout == 'reversed':                # a[::-1, ::-1] view (negative strides on both axes)
        return np.ascontiguousarray(a[::-1, ::-1])[::-1, ::-1]
    if layout == 'readonly':
        a = a.copy()
        a.setflags(write=False)
        return a
    if layout == 'nonnative':               # byte-swapped dtype (Numba refuses these loudly: see ASSUMPTIONS)
        return a.astype(a.dtype.newbyteorder()) if a.dtype.itemsize > 1 else a
    return a


def build(case):
    a = np.array(case['data'], dtype='float64')
    if not case['dtype'].startswith('float'):
        a = np.nan_to_num(a, nan=0.0)
    a = apply_layout(a.astype(case['dtype']), case.get('layout', 'C'))
    rows, cols = a.shape
    dy, dx = DIMS[case.get('dims', 0)]
    if case.get('nocoords'):
        coords = {}
    else:
        coords = {dy: np.linspace(5, 6, rows), dx: np.arange(cols) * 2.0}
        if case.get('coordv') == 1:      # descending, far from the origin, huge spacing
            coords = {dy: 5e6 - 1e6 * np.arange(rows), dx: -3e6 + 2.5e5 * np.arange(cols)}
        elif case.get('coordv') == 2:    # negative / tiny spacing, different on the two axes
            coords = {dy: -0.001 + 0.0001220703125 * np.arange(rows), dx: 179.5 - 0.25 * np.arange(cols)}
        if case.get('extra_coords', (rows * 7 + cols + int(case['n'])) % 3 == 0):
            # non-index coordinates a real raster often carries: scalar band / spatial_ref / time and a 2-D auxiliary coordinate
            coords.update({'band': 1, 'spatial_ref': 0, 'time': np.datetime64('2020-01-02'),
                           'xc': ((dy, dx), np.arange(rows * cols, dtype='float64').reshape(rows, cols))})
    return xr.DataArray(a, dims=[dy, dx], coords=coords, attrs={'res': 1, 'crs': 'x'}, name='src')


def label_capacity(dtype):
    """largest label the raster dtype can hold exactly"""
    if dtype == 'bool':
        return 1
    if dtype.startswith('float'):
        return 2 ** 24 if dtype == 'float32' else 2 ** 53
    return int(np.iinfo(dtype).max)


def snapshot(da):
    return (np.array(da.data, copy=True), {str(k): np.array(v.values, copy=True) for k, v in da.coords.items()},
            dict(da.attrs), da.name, tuple(da.dims), da.dtype)


def unchanged(da, snap):
    data, coords, attrs, name, dims, dtype = snap
    same = da.dtype == dtype and np.array_equal(np.asarray(da.data), data, equal_nan=(dtype.kind == 'f')) and \
        dict(da.attrs) == attrs and da.name == name and tuple(da.dims) == dims and set(map(str, da.coords)) == set(coords)
    return same and all(np.array_equal(np.asarray(da.coords[k].values), v) for k, v in coords.items())


def same_partition(l1, l2):
    """two label rasters describe the same regions (NaN at the same cells, labels in bijection)"""
    f, g = {}, {}
    for r1, r2 in zip(l1, l2):
        for a, b in zip(r1, r2):
            if isnan(a) or isnan(b):
                if not (isnan(a) and isnan(b)):
                    return False
                continue
            if f.setdefault(a, b) != b or g.setdefault(b, a) != a:
                return False
    return True


def sequence_checks(ctx, zonal, case, src, res, snap, kw):
    """call sequences: the input is untouched; the same call again gives the same raster; regions of the label raster
    (a raster derived from an already-processed one) has exactly the same regions; a copy / astype / re-labelled-coordinate
    derivative gives the same labels"""
    n = case['n']
    if not unchanged(src, snap):
        ctx.violation('oracle', 'regions(neighborhood=%d) modified its input raster (data/coords/attrs/name)' % n, case)
    if not zonal.regions(src, neighborhood=n, **kw).identical(res):
        ctx.violation('oracle', 'regions(neighborhood=%d): the same call repeated gives a different raster' % n, case)
    other = zonal.regions(src, neighborhood=12 - n, **kw)      # interleave the other neighbourhood, then ask again
    again = zonal.regions(src, neighborhood=n, **kw)
    if not again.identical(res) or tuple(other.shape) != tuple(res.shape):
        ctx.violation('oracle', 'regions(neighborhood=%d) after a call with the other neighbourhood differs' % n, case)
    lab = to_floats(res.data)
    again2 = zonal.regions(res, neighborhood=n, **kw)
    if not same_partition(lab, to_floats(again2.data)):
        ctx.violation('oracle', 'regions(neighborhood=%d) of the label raster does not have the same regions' % n, case)
    d = src.copy(deep=True).assign_coords({src.dims[0]: np.arange(src.shape[0]) * 3.0 + 1}) if src.shape[0] else src
    d.attrs['res'] = (9.0, 9.0)
    if not same_partition(lab, to_floats(zonal.regions(d, neighborhood=n).data)) or not unchanged(src, snap):
        ctx.violation('oracle', 'regions(neighborhood=%d) of a copy with other coordinates/attrs gives other regions' % n, case)


def run_case(ctx, zonal, case, oracle=True):
    src = build(case)
    try:
        kw = {'name': case['name']} if case.get('name') is not None else {}
        snap = snapshot(src) if case.get('sequence') else None
        res = zonal.regions(src, neighborhood=case['n'], **kw)
    except Exception as e:
        if case.get('layout') == 'nonnative' and type(e).__name__ == 'TypingError':
            ctx.count('layout/nonnative-rejected-by-numba')       # loud refusal of a byte-swapped array: outside the domain
            return None
        ctx.violation('oracle', 'regions raised %s: %s' % (type(e).__name__, str(e)[:200]), case)
        return None
    data = to_floats(src.data)
    if case.get('sequence'):
        sequence_checks(ctx, zonal, case, src, res, snap, kw)
    if oracle:
        key = None
        if src.dtype.kind in 'biu' and res.dtype == src.dtype:
            # the known defect class: more provisional labels than the raster's own dtype can count
            ncomp = max([c for row in flood_components(data, case['n']) for c in row if c is not None] or [0])
            if ncomp > label_capacity(case['dtype']):
                key = KEY_WRAP
        check_oracle(ctx, case, src, res, key=key)
    line = 'regions %d %s' % (case['n'], xvio.grid(data, 1))
    return line, to_floats(res.data)


def compare_with_model(ctx, pending):
    if ctx.model is None or not pending:
        return
    outs = ctx.model.run([p[0] for p in pending])
    for (line, lab, case), mo in zip(pending, outs):
        ctx.traces += 1
        if mo.startswith('ERR'):
            ctx.violation('correspondence', 'model returned %s' % mo[:100], case)
            continue
        flat = [v for row in lab for v in row]
        mt = mo.split()
        if len(mt) != len(flat) or not all(xvio.same(a, xvio.parse(t, 1)) for a, t in zip(flat, mt)):
            ctx.violation('correspondence', 'regions(neighborhood=%d): implementation labels %r vs model %s' % (
                case['n'], flat[:40], mo[:160]), dict(case, impl=lab, model=mo[:600]))


# --------------------------------------------------------------------------- generators
def dihedral(g):
    """the 8 rotations / reflections of a grid"""
    out = []
    cur = [list(r) for r in g]
    for _ in range(4):
        out.append(cur)
        out.append([list(reversed(r)) for r in cur])
        cur = [list(r) for r in zip(*cur[::-1])]
    return out


def shape_U(k):
    g = [[1] * k for _ in range(k)]
    for y in range(k):
        g[y][0] = 0
        g[y][k - 1] = 0
    for x in range(k):
        g[k - 1][x] = 0
    return g


def shape_S(k):
    g = [[1] * k for _ in range(k)]
    rows = [0, k // 2, k - 1]
    for y in rows:
        for x in range(k):
            g[y][x] = 0
    for y in range(0, k // 2):
        g[y][0] = 0
    for y in range(k // 2, k):
        g[y][k - 1] = 0
    return g


def shape_spiral(k):
    g = [[1] * k for _ in range(k)]
    y = x = 0
    dy, dx = 0, 1
    g[0][0] = 0
    for _ in range(k * k):
        ny, nx = y + dy, x + dx
        ny2, nx2 = y + 2 * dy, x + 2 * dx
        ok = 0 <= ny < k and 0 <= nx < k and g[ny][nx] == 1 and not (0 <= ny2 < k and 0 <= nx2 < k and g[ny2][nx2] == 0)
        if not ok:
            dy, dx = dx, -dy
            ny, nx = y + dy, x + dx
            ny2, nx2 = y + 2 * dy, x + 2 * dx
            if not (0 <= ny < k and 0 <= nx < k and g[ny][nx] == 1) or (0 <= ny2 < k and 0 <= nx2 < k and g[ny2][nx2] == 0):
                break
        y, x = ny, nx
        g[y][x] = 0
    return g


def shape_comb(k):
    g = [[1] * k for _ in range(k)]
    for x in range(0, k, 2):
        for y in range(k - 1):
            g[y][x] = 0
    for x in range(k):
        g[k - 1][x] = 0
    return g


def shape_ring(k):
    g = [[0] * k for _ in range(k)]
    for d in range(1, (k + 1) // 2, 2):
        for i in range(d, k - d):
            g[d][i] = g[k - 1 - d][i] = g[i][d] = g[i][k - 1 - d] = 1
    return g


def shape_diag(k):
    return [[1 if (x == y or x + y == k - 1) else 0 for x in range(k)] for y in range(k)]


def shape_checker(k):
    return [[(x + y) % 2 for x in range(k)] for y in range(k)]


def shape_stairs(k):
    return [[1 if (x == y or x == y + 1) else 0 for x in range(k)] for y in range(k)]


SHAPES = [('U', shape_U), ('S', shape_S), ('spiral', shape_spiral), ('comb', shape_comb), ('ring', shape_ring),
          ('diag', shape_diag), ('checker', shape_checker), ('stairs', shape_stairs)]


def gen_shapes(ctx):
    rng = ctx.rng
    sizes = [3, 4, 5, 7] if ctx.quick() else [3, 4, 5, 6, 7, 8, 9]
    i = 0
    for name, fn in SHAPES:
        for k in sizes:
            base = fn(k)
            variants = dihedral(base)
            if ctx.quick():
                variants = rng.sample(variants, 4)
            for g in variants:
                for n in (4, 8):
                    i += 1
                    a, b = rng.sample([0, 1, 2, 5, 7], 2)
                    data = [[float(a if v == 0 else b) for v in row] for row in g]
                    fam = 'shape/%s' % name
                    dtype = DTYPES[i % 4]
                    if dtype.startswith('float') and rng.random() < 0.3:
                        # knock a few cells out with NaN (may split a component — the oracle recomputes)
                        for _ in range(rng.randint(1, 2)):
                            data[rng.randrange(k)][rng.randrange(k)] = NAN
                        fam += '+nan'
                    # sometimes drop rows to make it non-square
                    if rng.random() < 0.25 and k > 3:
                        data = data[:k - 1]
                    yield fam, dict(n=n, dtype=dtype, data=data)


def gen_exhaustive(ctx, max_cells, alphabet=(0.0, 1.0, NAN), shapes=None):
    if shapes is None:
        shapes = [(r, c) for r in range(1, max_cells + 1) for c in range(1, max_cells + 1) if r * c <= max_cells]
    for rows, cols in shapes:
        for cells in itertools.product(alphabet, repeat=rows * cols):
            data = [list(cells[r * cols:(r + 1) * cols]) for r in range(rows)]
            for n in (4, 8):
                yield 'exhaustive/%dx%d' % (rows, cols), dict(n=n, dtype='float64', data=data)


def gen_random(ctx, count):
    rng = ctx.rng
    for i in range(count):
        u = rng.random()
        if u < 0.1:
            rows, cols = 1, rng.randint(1, 12)
        elif u < 0.2:
            rows, cols = rng.randint(1, 12), 1
        elif u < 0.6:
            rows, cols = rng.randint(2, 6), rng.randint(2, 6)
        else:
            rows, cols = rng.randint(5, 12), rng.randint(5, 12)
        alpha = rng.sample([0, 1, 2, 3, 9, -4, 1000], rng.randint(2, 4))
        # biased towards one dominant value so that long winding components appear
        w = [rng.random() ** 2 + 0.05 for _ in alpha]
        dtype = DTYPES[i % 4]
        pn = rng.choice([0, 0, 0.05, 0.15]) if dtype.startswith('float') else 0
        data = [[NAN if rng.random() < pn else float(rng.choices(alpha, w)[0]) for _ in range(cols)] for _ in range(rows)]
        yield 'random/%s' % ('1d' if min(rows, cols) == 1 else ('small' if max(rows, cols) <= 6 else 'large')), \
            dict(n=rng.choice([4, 8]), dtype=dtype, data=data)


def gen_dense8(ctx, count):
    """large two/three-valued rasters under 8-connectivity: many diagonal-only contacts, so pass 2 has to merge
    three or more provisional labels at one cell (rare in small rasters)"""
    rng = ctx.rng
    for i in range(count):
        rows, cols = rng.randint(8, 12), rng.randint(10, 12)
        p = rng.choice([0.3, 0.35, 0.4, 0.45])
        third = rng.random() < 0.3
        data = [[(2.0 if third and rng.random() < 0.15 else (1.0 if rng.random() < p else 0.0)) for _ in range(cols)]
                for _ in range(rows)]
        yield 'dense8', dict(n=8 if i % 8 else 4, dtype='float64', data=data)


MORE_DTYPES = ['int8', 'uint8', 'int16', 'uint16', 'uint32', 'uint64', 'bool', 'int32', 'int64', 'float32', 'float64']


def gen_dtypes(ctx, count):
    """every integer width / unsigned / bool / float32: small rasters, rasters with more regions than an 8-bit label can count,
    negative and large (> 2**24) ids, other dimension names, no coordinate labels, the `name` argument, larger rasters"""
    rng = ctx.rng
    for i in range(count):
        dtype = MORE_DTYPES[i % len(MORE_DTYPES)]
        info = None if dtype.startswith('float') or dtype == 'bool' else np.iinfo(dtype)
        pool = [0, 1, 2, 3, 9, -4, 100, -70000, 16777217, 50000000]
        if dtype == 'bool':
            pool = [0, 1]
        elif dtype == 'float32':
            pool = [v for v in pool if float(np.float32(v)) == v]
        elif info is not None:
            pool = [v for v in pool if info.min <= v <= info.max]
        kind = i % 5
        if kind == 0:        # many small regions: a checkerboard has rows*cols regions under 4-connectivity
            rows, cols = rng.randint(12, 17), rng.randint(12, 17)
            a, b = rng.sample(pool, 2)
            data = [[float(a if (x + y) % 2 else b) for x in range(cols)] for y in range(rows)]
            n = 4
            fam = 'dtype/%s/checkerboard' % dtype
        elif kind == 1:      # larger random raster
            rows, cols = rng.randint(20, 30), rng.randint(20, 30)
            alpha = rng.sample(pool, min(len(pool), rng.randint(2, 3)))
            data = [[float(rng.choice(alpha)) for _ in range(cols)] for _ in range(rows)]
            n = rng.choice([4, 8])
            fam = 'dtype/%s/large' % dtype
        else:
            rows, cols = rng.randint(1, 6), rng.randint(1, 6)
            alpha = rng.sample(pool, min(len(pool), rng.randint(2, 4)))
            data = [[float(rng.choice(alpha)) for _ in range(cols)] for _ in range(rows)]
            n = rng.choice([4, 8])
            fam = 'dtype/%s/small' % dtype
        case = dict(n=n, dtype=dtype, data=data, dims=i % len(DIMS))
        if i % 7 == 0:
            case['nocoords'] = True
        if i % 3 == 0:
            case['name'] = 'zones%d' % (i % 4)
        yield fam, case


def check_invalid_neighborhood(ctx):
    """documented: any neighbourhood other than 4 / 8 is rejected with ValueError (never silently treated as 4)"""
    zonal = _impl()
    src = build(dict(n=4, dtype='float64', data=[[0.0, 1.0], [1.0, 0.0]]))
    for n in (0, 1, 5, 6, 9, -4, 16):
        ctx.count('invalid-neighborhood')
        try:
            zonal.regions(src, neighborhood=n)
        except ValueError:
            continue
        except Exception as e:
            ctx.violation('oracle', 'regions(neighborhood=%r) raised %s instead of ValueError' % (n, type(e).__name__),
                          dict(n=n, dtype='float64', data=[[0.0, 1.0], [1.0, 0.0]], invalid_neighborhood=True))
            continue
        ctx.violation('oracle', 'regions(neighborhood=%r) was accepted (only 4 and 8 are neighbourhoods)' % n,
                      dict(n=n, dtype='float64', data=[[0.0, 1.0], [1.0, 0.0]], invalid_neighborhood=True))


def layout_dtype(ctx, layout, i, dts):
    """quick tier: every (layout, dtype) pair is one more ~3 s Numba compilation of the kernel, so pair them sparingly
    (integer rasters of any width reach the kernel as int64)"""
    if not ctx.quick():
        return dts[i % len(dts)]
    if layout in ('strided', 'reversed'):
        return 'float64'
    if layout == 'readonly':
        return ['int64', 'int32', 'uint8'][i % 3]
    return dts[i % len(dts)]


def gen_layouts(ctx, count):
    """the same logical raster C-contiguous, F-contiguous, as a transposed view, as a strided/reversed view, read-only and
    byte-swapped: shapes whose components need second-pass merges (U, S, spiral, comb, 8-connected checkerboard/diagonals)
    plus random rasters; the expected labels do not depend on the layout"""
    rng = ctx.rng
    dts = ['float64', 'int64', 'int32', 'uint8'] + ([] if ctx.quick() else ['float32', 'int16'])
    makers = [('U', shape_U), ('S', shape_S), ('spiral', shape_spiral), ('comb', shape_comb), ('checker', shape_checker),
              ('diag', shape_diag), ('ring', shape_ring)]
    i = 0
    while i < count:
        for name, fn in makers:
            for layout in (LAYOUTS[1:4] if ctx.quick() else LAYOUTS[1:5]) + ['C', 'reversed']:
                i += 1
                k = rng.choice([3, 4, 5, 6, 7, 9])
                g = rng.choice(dihedral(fn(k)))
                if rng.random() < 0.3 and k > 3:
                    g = g[:k - 1]                     # non-square
                a, b = rng.sample([0, 1, 2, 5, 7], 2)
                data = [[float(a if v == 0 else b) for v in row] for row in g]
                n = 8 if name in ('checker', 'diag') and rng.random() < 0.8 else rng.choice([4, 8])
                yield 'layout/%s/%s' % (layout, name), dict(n=n, dtype=layout_dtype(ctx, layout, i, dts), data=data, layout=layout)
        # a failed Numba typing is not cached (~1 s each): only a few byte-swapped cases
        for layout in (LAYOUTS[1:4] if ctx.quick() else LAYOUTS[1:5]) + (['nonnative'] if i < 40 or not ctx.quick() else []):
            i += 1
            rows, cols = rng.randint(1, 9), rng.randint(1, 9)
            dtype = layout_dtype(ctx, layout, i, dts)
            pn = 0.1 if dtype.startswith('float') else 0
            data = [[NAN if rng.random() < pn else float(rng.choice([0, 1, 1, 2])) for _ in range(cols)] for _ in range(rows)]
            yield 'layout/%s/random' % layout, dict(n=rng.choice([4, 8]), dtype=dtype, data=data, layout=layout)


def gen_themes(ctx, reps):
    """appended audit streams: ids beyond 2**31 (far apart, so that the closeness tolerance cannot join them), call sequences,
    coordinates far from the origin / descending / tiny spacing, name='', a read-only raster, degenerate rasters"""
    rng = ctx.rng
    makers = [shape_U, shape_spiral, shape_comb, shape_checker, shape_S]
    i = 0
    for _ in range(reps):
        for dtype, pool in (('int64', [2 ** 31 + 1, 2 ** 33, 2 ** 40, -2 ** 35, 7]), ('uint64', [2 ** 31 + 1, 2 ** 40, 2 ** 52, 3]),
                            ('float64', [2.0 ** 31 + 1, 2.0 ** 40, -2.0 ** 35, 2.0 ** 52]), ('uint32', [2 ** 31 + 1, 2 ** 32 - 1, 5])):
            for fn in makers[:3]:
                i += 1
                a, b = rng.sample(pool, 2)
                g = rng.choice(dihedral(fn(rng.choice([3, 5, 6]))))
                yield 'big-ids/%s' % dtype, dict(n=rng.choice([4, 8]), dtype=dtype, data=[[float(a if v == 0 else b) for v in row] for row in g],
                                                 sequence=(i % 3 == 0), coordv=i % 3)
        for fn in makers:
            for n in (4, 8):
                i += 1
                g = rng.choice(dihedral(fn(rng.choice([4, 5, 7]))))
                dtype = ['float64', 'int32', 'float32', 'uint8'][i % 4]
                data = [[float(v) for v in row] for row in g]
                if dtype.startswith('float') and i % 2:
                    data[rng.randrange(len(data))][rng.randrange(len(data[0]))] = NAN
                yield 'sequence', dict(n=n, dtype=dtype, data=data, sequence=True, coordv=i % 3, dims=i % len(DIMS),
                                       name='' if i % 4 == 0 else None)
        for data in ([[3.0]], [[NAN]], [[1.0, 1.0, 1.0, 1.0]], [[2.0], [2.0], [5.0]], [[0.0, 1.0], [1.0, 0.0]],
                     [[NAN, NAN], [NAN, NAN]], [[4.0] * 5 for _ in range(5)], [[NAN, NAN, NAN], [NAN, 6.0, NAN], [NAN, NAN, NAN]]):
            for n in (4, 8):
                i += 1
                yield 'degenerate', dict(n=n, dtype='float64', data=data, sequence=True, layout='readonly' if i % 2 else 'C')


def gen_inf(ctx, count):
    rng = ctx.rng
    for i in range(count):
        rows, cols = rng.randint(1, 5), rng.randint(1, 5)
        data = [[rng.choice([0.0, 1.0, float('inf'), float('-inf'), NAN, 1.0]) for _ in range(cols)] for _ in range(rows)]
        yield 'inf(correspondence only)', dict(n=rng.choice([4, 8]), dtype='float64', data=data, inf=True)


def nontrivial(case):
    comp = flood_components(case['data'], case['n'])
    sizes = {}
    vals = {}
    for y, row in enumerate(comp):
        for x, c in enumerate(row):
            if c is not None:
                sizes[c] = sizes.get(c, 0) + 1
                vals[c] = case['data'][y][x]
    return any(s >= 3 for s in sizes.values()) or len(set(vals.values())) < len(vals)


def run_cases(ctx, gen, light=False):
    zonal = _impl()
    pending = []
    for fam, case in gen:
        has_inf = any(math.isinf(v) for row in case['data'] for v in row)
        ctx.case(case, nontrivial=(True if light else nontrivial(case)))
        ctx.count(fam)
        ctx.count('n=%d' % case['n'])
        r = run_case(ctx, zonal, case, oracle=not has_inf)
        if r is not None:
            pending.append((r[0], r[1], case))
        if len(pending) >= 20000:
            compare_with_model(ctx, pending)
            pending = []
    compare_with_model(ctx, pending)


def run(ctx):
    if ctx.quick():
        run_cases(ctx, gen_exhaustive(ctx, 6), light=True)
        run_cases(ctx, gen_shapes(ctx))
        run_cases(ctx, gen_random(ctx, 400))
        run_cases(ctx, gen_dtypes(ctx, 110))
        check_invalid_neighborhood(ctx)
        run_cases(ctx, gen_dense8(ctx, 300), light=True)
        run_cases(ctx, gen_inf(ctx, 800))
        run_cases(ctx, gen_layouts(ctx, 240))
        run_cases(ctx, gen_themes(ctx, 1))
    else:
        run_cases(ctx, gen_exhaustive(ctx, 9), light=True)
        run_cases(ctx, gen_exhaustive(ctx, 16, alphabet=(0.0, 1.0), shapes=[(3, 4), (4, 3), (4, 4), (2, 7), (7, 2)]), light=True)
        run_cases(ctx, gen_shapes(ctx))
        run_cases(ctx, gen_random(ctx, 6000))
        run_cases(ctx, gen_dtypes(ctx, 1100))
        check_invalid_neighborhood(ctx)
        run_cases(ctx, gen_dense8(ctx, 6000), light=True)
        run_cases(ctx, gen_inf(ctx, 6000))
        run_cases(ctx, gen_layouts(ctx, 4000))
        run_cases(ctx, gen_themes(ctx, 20))
    ctx.exhaustive = False


def search(ctx):
    """An obligation or the correspondence broke and the normal run showed no failing input: widen the oracle run."""
    old, model = ctx.tier, ctx.model
    ctx.tier, ctx.model = 'thorough', None
    try:
        run_cases(ctx, gen_exhaustive(ctx, 7), light=True)
        run_cases(ctx, gen_shapes(ctx))
        run_cases(ctx, gen_random(ctx, 2000))
        t0 = time.time()
        # stop as soon as a failing input is in hand (or after ~3 minutes)
        for _ in range(40):
            if any(v['kind'] == 'oracle' for v in ctx.violations) or time.time() - t0 > 180:
                break
            run_cases(ctx, gen_dense8(ctx, 500), light=True)
    finally:
        ctx.tier, ctx.model = old, model


def replay_case(ctx, case):
    zonal = _impl()
    if case.get('invalid_neighborhood'):
        ctx.case(case)
        return check_invalid_neighborhood(ctx)

    def unjson(v):
        return {'nan': NAN, 'inf': float('inf'), '-inf': float('-inf')}.get(v, v) if isinstance(v, str) else float(v)
    c = dict(n=case['n'], dtype=case['dtype'], data=[[unjson(v) for v in row] for row in case['data']])
    for k in ('dims', 'nocoords', 'name', 'extra_coords', 'layout', 'coordv', 'sequence'):
        if k in case:
            c[k] = case[k]
    ctx.case(c)
    run_case(ctx, zonal, c, oracle=not any(math.isinf(v) for row in c['data'] for v in row))
