"""C13 — spectral indices equal their band formulas in single precision, NaN where undefined; true_color alpha rule.
Correspondence: xrspatial.multispectral public functions vs the extracted float instance of coq/C13/Model.v
(bit-exact float32); oracle: the property text evaluated with exact rational arithmetic + metamorphic checks."""
import math
from fractions import Fraction

import numpy as np
import xarray as xr

ID = 'C13'
OCAML_UTILS = ['zio.ml']
OCAML_PACKAGES = ['coq-core.kernel']
OCAML_FLAGS = '-rectypes -thread'

RULE = ('for each of arvi/evi/gci/nbr/nbr2/ndvi/ndmi/savi/sipi/ebbi and true_color: band rasters (<= 6x6, plus large-ish ones up to '
        '14x16 quick / 50x60 thorough; dimension names y,x / lat,lon / row,col / x,y; Fortran / strided / negative-stride layouts) of every '
        'dtype uint8..uint64/int8..int64/float16/float32/float64 (also mixed per band) drawn from the classes small integers, signed '
        '(zero sums), zeros, equal bands, values >= 2^24 / near the dtype limits, dyadic fractions, random floats, '
        'NaN/+-inf/-0.0/tiny/huge cells; soil_factor over all of [-1,1] (grid incl. +-1, 0, outside, NaN; dyadic and random reals; nextafter(+-1)), '
        'c1, c2, gain >= 0 (grids, random reals, 1e-9 .. 1e6, numpy float64 scalars), optional arguments left at their defaults, name= given, '
        'gain (incl. 0, negative), nodata/c/th; positional and keyword calls; the same stream Dask-backed (every dtype, single / '
        '1-cell / uneven chunks, mixed chunkings per band, computed and compared exactly like the NumPy result); a repeated call '
        'and a swapped-band call on the SAME band objects (in-place writes show there); groups of 2-3 lazy Dask results of one '
        'index (same band objects with other parameters / band order, and other bands) evaluated in ONE dask.compute, each '
        'compared with the oracle, its NumPy-backed result and the model; band-swap and power-of-two-scaling '
        'metamorphic pairs on the implementation; true_color red bands in int32/int64/uint32/float64 with cells at nodata, nextafter(nodata) '
        'in the band\'s own dtype and values float32 cannot represent (nodata 0, negative, 2^24, fractional); every ratio index on small '
        'integers times 2^k, k = -20..-120 and +20..+120, against its unscaled twin. A case is non-trivial when it has >= 1 cell with all bands finite; '
        'distinct by JSON encoding.')
TRUSTED = [
    'float instance of the model: binary32 = Coq SpecFloat operations at (24,128), binary64 = Coq primitive floats '
    '(PrimFloat, extracted to OCaml doubles via ExtrOCamlFloats/ExtrOCamlInt63); Numba promotion rules (float32 op float32 '
    'stays float32, Python literal / float argument widens to float64, store rounds to float32) are written by hand in Model.v '
    'and validated only by the bit-exact correspondence',
    'libm exp (true_color sigmoid) is a Section variable supplied by the OCaml driver (Stdlib.exp)',
    'the float32 -> uint8 cast of true_color: truncation for values in [0,256); NaN -> 0 as observed on this platform (C undefined behaviour)',
    'np.nanmin/np.nanmax modelled as a NaN-skipping fold',
    'exact instance (option Q, None = NaN, x/0 = NaN) has no infinities, no rounding and no overflow: the algebraic theorems '
    'are about the formulas, the float32 behaviour is tied by the correspondence and the oracle only',
    'square root in the exact instance is an abstract function (Section variable)',
    'C13_nd_float_range (PropsFlocq.v) uses Flocq 4 (BinarySingleNaN: Bplus/Bminus/Bdiv_correct) and therefore the standard '
    'library Reals axioms: ClassicalDedekindReals.sig_forall_dec, sig_not_dec, FunctionalExtensionality.functional_extensionality_dep, '
    'Classical_Prop.classic; theorems stated about FloatArith also list Coq\'s primitive float / int63 constants (PrimFloat.add ... '
    'PrimInt63.land) in Print Assumptions: these are kernel primitives, no property of them is assumed in those proofs '
    '(the zero-denominator guard on +-0.0 is evaluated by computation)',
    'float-level theorems take canonical binary32 values (valid_binary 24 128 = true) — every result of the float32 cast is one',
]
ASSUMPTIONS = [
    'NumPy and Dask(NumPy) backends; the model is the NumPy kernel, a Dask result must equal it (CuPy not available here)',
    'parameters c1, c2, soil_factor, gain, nodata, c, th are Python ints/floats; integer parameters are small enough to be exact doubles',
    'true_color nodata values are float32-representable when the red raster is float32 (NumPy compares a float32 array against '
    'float32(nodata)); integer rasters handed to true_color are below 2^53',
    'true_color rasters have at least one cell (np.nanmin of an empty band raises); parameters are Python ints/floats or numpy float64 '
    '(evi rejects numpy float32 scalars as "not numeric")',
    '"published formula" for ARVI is the ArcGIS form (NIR-2R+B)/(NIR+2R+B) the library documents',
]
PARTIAL = [
    'float32-level power-of-two scaling: proved unconditionally for the quotient (C13_float_div_scale) and for the kernel only '
    'under the explicit premises that the float32 sum and difference of the scaled bands are the scaled sum and difference and '
    'that widening a non-zero float32 gives a non-zero double (C13_nd_float_scale_partial); the statement from value conditions '
    'alone (all of a, b, a+b, a-b and their scalings normal or zero) is kept UNCLAIMED as Definition '
    'C13_nd_float_scale_full_statement; the oracle checks 2^k scaling bit-exactly on the implementation',
    'float32-level antisymmetry holds up to the sign of a zero result (a == b gives +0.0 both ways), which is what the theorem states',
    'overflow of finite float32 bands to +-inf (e.g. 3e38 - (-2e38)) is outside the claim "zero denominator => NaN, never +-inf"',
    'true_color RGB channels (sigmoid normalisation) are covered by the correspondence only; the theorems cover the alpha channel',
    'SAVI: the code (and its tests) divide by (1+L) where the published Huete formula multiplies; recorded as known finding '
    'savi-divides-by-one-plus-L, the model follows the code',
]
LEVEL_TEXT = ('Proved in Coq for all inputs: for every Arith instance (so also for the float32/float64 instance that is executed) '
              'a denominator that compares equal to zero stores NaN for each of the ten kernels and the raster functions apply the '
              'kernel cell by cell for every raster size. At the executed FLOAT instance (SpecFloat binary32): swapping the bands of '
              'the normalised difference negates it bit for bit for ALL binary32 values (up to the sign of a zero), axiom-free; for '
              'non-negative finite bands the stored value is NaN or a finite float32 in [-1,1], never +-inf (via Flocq, Reals axioms); '
              'the float32 quotient is invariant under scaling both operands by 2^k, the kernel under explicit no-overflow/underflow '
              'premises (partial). In the exact instance (option Q): each kernel equals its band formula, NaN bands propagate, '
              'range/antisymmetry/scaling of normalised differences, savi(L=0) = ndvi, the savi/evi parameter guards, and the '
              'true_color alpha rule. Correspondence (bit-exact float32, NumPy and Dask) and oracle only: rounding behaviour of the '
              'other kernels, wrapper argument order, true_color RGB channels.')
LEVEL_NOTE = ('kernels are written once over an arithmetic record; theorems are about its exact instance (option Q) and, where '
              'structural, about every instance; the executed instance uses SpecFloat binary32 + PrimFloat binary64 with hand-written '
              'Numba promotion; exp is passed in by the driver; NumPy backend only')

U = Fraction(1, 2 ** 24)
INT_DT = ['uint8', 'uint16', 'uint32', 'uint64', 'int8', 'int16', 'int32', 'int64']
FLT_DT = ['float32', 'float64', 'float16']
ALL_DT = INT_DT + FLT_DT


def _impl():
    from xrspatial import multispectral
    return multispectral


# ---------------------------------------------------------------- exact helpers (oracle side)
def rn(fr, prec=24, emin=-149, emax=128):
    """round a Fraction to the nearest binary float of the given format (ties to even); returns Fraction or +-inf"""
    if fr == 0:
        return Fraction(0)
    s = -1 if fr < 0 else 1
    a = abs(fr)
    e = a.numerator.bit_length() - a.denominator.bit_length()
    if Fraction(2) ** e > a:
        e -= 1
    q = max(e - prec + 1, emin)
    m = a / Fraction(2) ** q
    fl = m.numerator // m.denominator
    rem = m - fl
    if rem > Fraction(1, 2) or (rem == Fraction(1, 2) and fl % 2 == 1):
        fl += 1
    r = fl * Fraction(2) ** q
    if r >= Fraction(2) ** emax:
        return s * math.inf
    return s * r


def exact_of(v):
    """original cell value -> Fraction / nan / +-inf"""
    if isinstance(v, int):
        return Fraction(v)
    if math.isnan(v) or math.isinf(v):
        return v
    return Fraction(v)


def cast32(v):
    """the value the band cell has after .astype('f4'), as Fraction / nan / +-inf"""
    e = exact_of(v)
    if isinstance(e, Fraction):
        return rn(e)
    return e


def isnanx(x):
    return isinstance(x, float) and math.isnan(x)


def isinfx(x):
    return isinstance(x, float) and math.isinf(x)


# formulas of the property text: return (numerator terms, denominator terms, scale) with value = scale*sum(N)/sum(D)
def F_nd(a, b):
    return [a, -b], [a, b], Fraction(1)


FORMULAS = {
    # name: (public argument names in order, formula over those arguments + params)
    'ndvi': (['nir_agg', 'red_agg'], lambda p, nir, red: F_nd(nir, red)),
    'nbr': (['nir_agg', 'swir2_agg'], lambda p, nir, swir2: F_nd(nir, swir2)),
    'nbr2': (['swir1_agg', 'swir2_agg'], lambda p, swir1, swir2: F_nd(swir1, swir2)),
    'ndmi': (['nir_agg', 'swir1_agg'], lambda p, nir, swir1: F_nd(nir, swir1)),
    'sipi': (['nir_agg', 'red_agg', 'blue_agg'], lambda p, nir, red, blue: ([nir, -blue], [nir, -red], Fraction(1))),
    'arvi': (['nir_agg', 'red_agg', 'blue_agg'], lambda p, nir, red, blue: ([nir, -2 * red, blue], [nir, 2 * red, blue], Fraction(1))),
    'evi': (['nir_agg', 'red_agg', 'blue_agg'],
            lambda p, nir, red, blue: ([nir, -red], [nir, p['c1'] * red, -p['c2'] * blue, p['soil_factor']], p['gain'])),
}
ND = ['ndvi', 'nbr', 'nbr2', 'ndmi']
ARGS = dict({k: v[0] for k, v in FORMULAS.items()},
            gci=['nir_agg', 'green_agg'], savi=['nir_agg', 'red_agg'], ebbi=['red_agg', 'swir_agg', 'tir_agg'])
ALL_FN = ['ndvi', 'nbr', 'nbr2', 'ndmi', 'gci', 'savi', 'sipi', 'arvi', 'evi', 'ebbi']


def frac_param(x):
    return Fraction(x) if not (isinstance(x, float) and (math.isnan(x) or math.isinf(x))) else x


def ratio_check(N, D, scale, exact_zero_valid):
    """-> ('nan',) | ('skip',) | ('val', q, tol)"""
    Dn = sum(D)
    Nn = sum(N)
    SD = sum(abs(t) for t in D)
    SN = sum(abs(t) for t in N)
    if Dn == 0:
        return ('nan',) if exact_zero_valid else ('skip',)
    if abs(Dn) <= 32 * U * SD:
        return ('skip',)
    q = Nn / Dn
    cond = abs(q) + (SN + abs(q) * SD) / abs(Dn)
    return ('val', scale * q, 16 * U * cond * abs(scale) + Fraction(1, 2 ** 140))


def expected_cell(fn, params, vals, exact_class):
    """property text for one cell; vals = float32-cast band values (Fraction/nan/inf) in public argument order.
    -> ('nan',) | ('skip',) | ('val', q, tol) | ('any',)"""
    if any(isnanx(v) for v in vals):
        return ('nan',)
    pv = {k: frac_param(v) for k, v in params.items()}
    if any(isnanx(v) or isinfx(v) for v in pv.values()):
        return ('any',)
    if any(isinfx(v) for v in vals):
        return ('any',)
    if fn in FORMULAS:
        N, D, scale = FORMULAS[fn][1](pv, *vals)
        # x + y == 0 in floating point iff exactly (gradual underflow): always decidable for the pure float32 kernels
        return ratio_check(N, D, scale, exact_class or fn in ND or fn == 'sipi')
    if fn == 'gci':
        nir, green = vals
        if green == 0:
            return ('nan',)
        q = nir / green
        return ('val', q - 1, 16 * U * (abs(q) + 1))
    if fn == 'savi':
        nir, red = vals
        L = pv['soil_factor']
        # published (Huete 1988): (NIR - Red) / (NIR + Red + L) * (1 + L)
        d = nir + red + L
        if d == 0:
            return ('nan',) if exact_class else ('skip',)
        if abs(d) <= 32 * U * (abs(nir) + abs(red) + abs(L)):
            return ('skip',)
        q = (nir - red) / d
        cond = abs(q) + (abs(nir) + abs(red) + abs(q) * (abs(nir) + abs(red) + abs(L))) / abs(d)
        return ('savi', q, 16 * U * cond, L)
    if fn == 'ebbi':
        red, swir, tir = vals
        s = swir + tir
        if s == 0:
            return ('nan',)
        if s < 0:
            return ('nan',)          # sqrt of a negative number
        if abs(s) <= 32 * U * (abs(swir) + abs(tir)):
            return ('skip',)
        root = Fraction(math.sqrt(s)) if s < 2 ** 1000 else None
        if root is None or root == 0:
            return ('skip',)
        q = (swir - red) / (10 * root)
        cond = abs(q) + (abs(swir) + abs(red)) / (10 * root) + abs(q) * (abs(swir) + abs(tir)) / abs(s)
        return ('val', q, 32 * U * cond + Fraction(1, 2 ** 140))
    raise KeyError(fn)


def same_f(a, b):
    if math.isnan(a) or math.isnan(b):
        return math.isnan(a) and math.isnan(b)
    return a == b


def moderate(vals):
    for v in vals:
        if isinstance(v, Fraction) and v != 0 and not (Fraction(1, 2 ** 60) <= abs(v) <= 2 ** 60):
            return False
    return True


def oracle_index(ctx, case, out):
    """check the implementation's output `out` (list of list of float) against the property text"""
    fn = case['fn']
    params = case.get('params', {})
    bands = case['bands']
    rows, cols = len(bands[0]), len(bands[0][0]) if bands[0] else 0
    exact_class = case.get('exact', False)
    for y in range(rows):
        for x in range(cols):
            raw = [b[y][x] for b in bands]
            vals = [cast32(v) for v in raw]
            o = out[y][x]
            exp = expected_cell(fn, params, vals, exact_class)
            rep = dict(case, cell=[y, x], got=o)
            if math.isinf(o) and not any(isinfx(v) for v in vals) and moderate(vals) and exp[0] != 'any':
                ctx.violation('oracle', '%s: finite bands %r gave %r (never +-inf)' % (fn, raw, o), rep)
                return False
            if exp[0] == 'nan':
                if not math.isnan(o):
                    ctx.violation('oracle', '%s: bands %r (NaN band or zero/undefined denominator) gave %r, expected NaN' % (fn, raw, o), rep)
                    return False
            elif exp[0] == 'val':
                _, q, tol = exp
                if math.isnan(o) and all(abs(v) <= 2 ** 60 for v in vals) and (fn in ND or fn in ('sipi', 'gci') or moderate(vals)):
                    ctx.violation('oracle', '%s: bands %r gave NaN although the denominator is not zero (formula value %.9g)'
                                  % (fn, raw, float(q)), rep)
                    return False
                if math.isnan(o) or math.isinf(o):
                    if moderate(vals):
                        ctx.violation('oracle', '%s: bands %r gave %r, formula value %s' % (fn, raw, o, float(q)), rep)
                        return False
                elif not moderate(vals):
                    pass                                  # float32 overflow / underflow of an intermediate (|band| beyond 2^+-60)
                elif abs(Fraction(o) - q) > tol + abs(q) * 2 * U:
                    ctx.violation('oracle', '%s: bands %r params %r gave %r, band formula gives %.9g' % (fn, raw, params, o, float(q)), rep)
                    return False
                if fn in ND and all(v >= 0 for v in vals) and not (-1.0 <= o <= 1.0):
                    ctx.violation('oracle', '%s: non-negative bands %r gave %r outside [-1,1]' % (fn, raw, o), rep)
                    return False
            elif exp[0] == 'savi':
                _, q, tol, L = exp
                published = q * (1 + L)
                if math.isnan(o) or math.isinf(o):
                    if L == -1 and math.isnan(o):
                        continue          # 0 * x vs x / 0: the code's NaN at L = -1 is the zero-denominator rule of its own form
                    if moderate(vals):
                        ctx.violation('oracle', 'savi: bands %r L=%s gave %r, published formula gives %s' % (raw, L, o, float(published)), rep)
                        return False
                    continue
                if abs(Fraction(o) - published) <= (tol + abs(q) * 2 * U) * abs(1 + L) + Fraction(1, 2 ** 140):
                    continue
                code_form = q / (1 + L) if L != -1 else None
                key = None
                if code_form is not None and abs(Fraction(o) - code_form) <= (tol + abs(q) * 4 * U) / abs(1 + L) + Fraction(1, 2 ** 140):
                    key = 'savi-divides-by-one-plus-L'
                ctx.violation('oracle', 'savi: bands %r soil_factor=%s gave %r; published (NIR-Red)/(NIR+Red+L)*(1+L) = %.9g'
                              % (raw, L, o, float(published)), rep, key=key)
                if key is None:
                    return False
                return True
    return True


# ---------------------------------------------------------------- generators
def dtype_limits(dt):
    if dt.startswith('float'):
        return None
    i = np.iinfo(dt)
    return int(i.min), int(i.max)


def gen_value(rng, dt, kind):
    lim = dtype_limits(dt)
    if lim is not None:
        lo, hi = lim
        if kind == 'small':
            v = rng.randint(0, 40)
        elif kind == 'signed':
            v = rng.randint(-12, 12)
        elif kind == 'zeros':
            v = 0 if rng.random() < 0.7 else rng.randint(0, 3)
        elif kind == 'big':
            c = rng.random()
            if c < 0.3:
                v = hi - rng.randint(0, 3)
            elif c < 0.5:
                v = lo + rng.randint(0, 3)
            elif c < 0.8:
                v = (1 << rng.choice([24, 25, 31, 32, 53, 62])) + rng.randint(-3, 3)
            else:
                v = rng.randint(lo, hi)
        else:
            v = rng.randint(0, 1000)
        return max(lo, min(hi, v))
    # float dtypes
    if kind == 'small':
        v = float(rng.randint(0, 40))
    elif kind == 'signed':
        v = float(rng.randint(-12, 12))
    elif kind == 'zeros':
        v = rng.choice([0.0, 0.0, 0.0, -0.0, 1.0])
    elif kind == 'big':
        v = float((1 << rng.choice([24, 25, 31, 40])) + rng.randint(-3, 3))
    elif kind == 'frac':
        v = rng.randint(-40, 160) / 8.0
    elif kind == 'special':
        c = rng.random()
        if c < 0.25:
            v = float('nan')
        elif c < 0.35:
            v = float('inf')
        elif c < 0.42:
            v = float('-inf')
        elif c < 0.5:
            v = -0.0
        elif c < 0.58:
            v = rng.choice([1e-40, 1e-45, 3e38, -3e38, 2e38, 1e30, 1e-30])
        else:
            v = float(rng.randint(-5, 20))
    else:
        v = rng.random() * rng.choice([1.0, 100.0, 10000.0])
    if dt == 'float32':
        with np.errstate(all='ignore'):
            v = float(np.float32(v))
    if dt == 'float16':
        with np.errstate(all='ignore'):
            v = float(np.float16(v))
    return v


KINDS_INT = ['small', 'small', 'signed', 'zeros', 'big', 'wide']
KINDS_FLT = ['small', 'signed', 'zeros', 'big', 'frac', 'special', 'rand']


def gen_bands(rng, nb, quick=True, shape=None):
    """-> (dtypes, kind, bands as nested python lists)"""
    rows, cols = shape or (rng.randint(1, 4), rng.randint(1, 5))
    if shape is None and rng.random() < 0.04:
        rows = 0 if rng.random() < 0.5 else rows
        cols = 0 if rows != 0 else cols
    dt0 = rng.choice(ALL_DT)
    dts = [dt0] * nb
    if rng.random() < 0.2:
        dts = [rng.choice(ALL_DT) for _ in range(nb)]
    kind = rng.choice(KINDS_FLT if dt0.startswith('float') else KINDS_INT)
    bands = []
    for k in range(nb):
        kk = kind if dts[k].startswith('float') or kind in KINDS_INT else 'small'
        bands.append([[gen_value(rng, dts[k], kk) for _ in range(cols)] for _ in range(rows)])
    # equal bands / planted zero denominators
    u = rng.random()
    if u < 0.12 and len(set(dts)) == 1:
        for k in range(1, nb):
            bands[k] = [list(r) for r in bands[0]]
    elif u < 0.3 and rows and cols:
        y, x = rng.randrange(rows), rng.randrange(cols)
        a = bands[0][y][x]
        lim = dtype_limits(dts[1])
        if isinstance(a, float) and not dts[1].startswith('float'):
            pass
        else:
            neg = -a
            if lim is None and dts[1] in ('float32', 'float16') and isinstance(neg, (int, float)):
                with np.errstate(all='ignore'):          # the planted value must be a value of the band's dtype
                    neg = float(np.dtype(dts[1]).type(neg))
            if lim is None or (isinstance(neg, int) and lim[0] <= neg <= lim[1]):
                if not (lim is None and isinstance(neg, int)):
                    bands[1][y][x] = neg          # val1 + val2 == 0
                else:
                    bands[1][y][x] = float(neg)
    return dts, kind, bands


def is_exact_class(bands, params):
    for b in bands:
        for r in b:
            for v in r:
                if isinstance(v, float) and (math.isnan(v) or math.isinf(v)):
                    continue
                f = Fraction(v)
                if f.denominator != 1 or abs(f) > 2 ** 20:
                    return False
    for v in params.values():
        if isinstance(v, float) and (math.isnan(v) or math.isinf(v)):
            return False
        f = Fraction(v)
        if f.denominator > 16 or abs(f) > 64:
            return False
    return True


SOILS = [1.0, 0.0, 0.5, -0.5, -1.0, 1, 0, -1, 0.25, 0.1, 0.9, 1.5, -1.5, 2, float('nan'), 1.0000000000000002, -1.0000000000000002]
C1S = [6.0, 6, 0.0, 1.0, 2.5, 7.5]
C2S = [7.5, 0.0, 1, 6.0, 0.5]
GAINS = [2.5, 1.0, 0, 0.0, 2, 0.5, -1.0, -0.5]


DEFAULTS = dict(savi=dict(soil_factor=1.0), evi=dict(c1=6.0, c2=7.5, soil_factor=1.0, gain=2.5))


def any_soil(rng):
    u = rng.random()
    if u < 0.45:
        return rng.choice(SOILS[:11])
    if u < 0.6:
        return rng.choice(SOILS)
    if u < 0.8:
        return rng.randint(-64, 64) / 64.0                 # dyadic, all of [-1, 1]
    if u < 0.95:
        return rng.uniform(-1.0, 1.0)
    return float(np.nextafter(rng.choice([-1.0, 1.0]), 0.0))


def any_coef(rng, base):
    u = rng.random()
    if u < 0.5:
        return rng.choice(base)
    if u < 0.7:
        return rng.randint(0, 160) / 16.0
    if u < 0.9:
        return rng.uniform(0.0, 10.0)
    return rng.choice([1e6, 1e-9, 2.0 ** 30, 1e-3, 100])


def gen_params(rng, fn):
    if fn == 'savi':
        p = dict(soil_factor=any_soil(rng))
    elif fn == 'evi':
        s_ = any_soil(rng)
        if isinstance(s_, float) and math.isnan(s_) and rng.random() < 0.5:
            s_ = 0.5
        p = dict(c1=any_coef(rng, C1S), c2=any_coef(rng, C2S), soil_factor=s_,
                 gain=any_coef(rng, GAINS[:6]) if rng.random() < 0.85 else rng.choice(GAINS))
    else:
        return {}
    if rng.random() < 0.1:
        p = {k: (np.float64(v) if isinstance(v, float) else v) for k, v in p.items()}      # numpy float64 scalars are floats
    return p


# ---------------------------------------------------------------- running
def to_array(band, dt):
    rows = len(band)
    cols = len(band[0]) if rows else 0
    a = np.empty((rows, cols), dtype=dt)
    for y in range(rows):
        for x in range(cols):
            a[y, x] = band[y][x]
    return a


def da(a, dims=None):
    return xr.DataArray(a, dims=list(dims or ['y', 'x']))


def relayout(a, lay):
    if lay == 'F':
        return np.asfortranarray(a)
    if lay == 'view' and a.size:                  # strided, non-contiguous view
        big = np.zeros((2 * a.shape[0], 2 * a.shape[1]), dtype=a.dtype)
        big[::2, ::2] = a
        return big[::2, ::2]
    if lay == 'neg' and a.size:                   # negative strides
        return a[::-1, ::-1].copy()[::-1, ::-1]
    if lay == 'T':                                # transposed view of the transposed data
        return np.ascontiguousarray(a.T).T
    if lay == 'strided23' and a.size:             # a[::2, ::3] of a larger array
        big = np.zeros((2 * a.shape[0], 3 * a.shape[1]), dtype=a.dtype)
        big[::2, ::3] = a
        return big[::2, ::3]
    if lay == 'ro':                               # non-writeable
        a = a.copy()
        a.setflags(write=False)
        return a
    return a


def wrap_dask(a, chunks):
    import dask.array as dsk
    ch = tuple(tuple(c) if isinstance(c, (list, tuple)) else c for c in chunks)
    return dsk.from_array(a, chunks=ch)


def split_sizes(rng, n):
    out = []
    left = n
    while left > 0:
        k = rng.randint(1, max(1, min(3, left)))
        out.append(k)
        left -= k
    return out


def gen_chunks(rng, rows, cols, style):
    if style == 'single':
        return [rows, cols]
    if style == 'cells':
        return [1, 1]
    return [split_sizes(rng, rows), split_sizes(rng, cols)]


def build_arrays(case):
    """the band objects handed to the library: NumPy-backed, or Dask-backed when case['chunks'] (one entry per band) is set"""
    arrs = []
    for k, (b, dt) in enumerate(zip(case['bands'], case['dtypes'])):
        a = to_array(b, dt)
        if case.get('layout'):
            a = relayout(a, case['layout'][k % len(case['layout'])])
        if case.get('chunks') is not None:
            a = wrap_dask(a, case['chunks'][k])
        arrs.append(da(a, case.get('dims')))
    return arrs


def call_index(ms, case, arrs=None):
    fn = case['fn']
    if arrs is None:
        arrs = build_arrays(case)
    f = getattr(ms, fn)
    params = {} if case.get('omit_defaults') else dict(case.get('params', {}))     # optional arguments left at their defaults
    if 'name' in case:
        params['name'] = case['name']              # also the falsy names None and ''
    with np.errstate(all='ignore'):
        if case.get('style') == 'kw':
            res = f(**dict(zip(ARGS[fn], arrs)), **params)
        else:
            res = f(*arrs, **params)
    if 'name' in case and res.name != case['name'] and not (case['name'] in (None, '') and res.name in (None, '')):
        raise AssertionError('%s: result is named %r, asked for %r' % (fn, res.name, case['name']))
    return res


def out_lists(res):
    a = np.asarray(res.data)
    return [[float(v) for v in row] for row in a.tolist()] if a.size else [[] for _ in range(a.shape[0])]


def tok(v):
    if isinstance(v, int):
        if abs(v) < (1 << 60):
            return '#%d' % v
        return '#-0x%x' % -v if v < 0 else '#0x%x' % v
    if math.isnan(v):
        return 'nan'
    if math.isinf(v):
        return 'inf' if v > 0 else '-inf'
    return v.hex()


def ptok(v):
    return tok(float(v))


def grid_tok(band):
    rows = len(band)
    cols = len(band[0]) if rows else 0
    return '%d %d %s' % (rows, cols, ' '.join(tok(v) for r in band for v in r))


def model_line(case):
    fn = case['fn']
    p = case.get('params', {})
    head = fn
    if fn == 'savi':
        head += ' ' + ptok(p['soil_factor'])
    elif fn == 'evi':
        head += ' ' + ' '.join(ptok(p[k]) for k in ['c1', 'c2', 'soil_factor', 'gain'])
    return head + ' ' + ' '.join(grid_tok(b) for b in case['bands'])


def parse_model_floats(s):
    return [float.fromhex(t) if t not in ('nan', '-nan') else float('nan') for t in s.split()]


def same_bits(a, b):
    if math.isnan(a) or math.isnan(b):
        return math.isnan(a) and math.isnan(b)
    return a == b and math.copysign(1.0, a) == math.copysign(1.0, b)


def compare_model(ctx, pending):
    """pending: (line, impl ('ERR value' | flat list of float/int), case, what)"""
    if ctx.model is None or not pending:
        return
    outs = ctx.model.run([p[0] for p in pending])
    for (line, impl, case, what), mo in zip(pending, outs):
        ctx.traces += 1
        if isinstance(impl, str) or mo.startswith('ERR'):
            if impl != mo:
                ctx.violation('correspondence', '%s: implementation %r vs model %r' % (what, impl if isinstance(impl, str) else 'a result', mo[:60]),
                              dict(case, impl=str(impl)[:200], model=mo[:200]))
            continue
        if case['fn'] == 'true_color':
            mv = [int(t) for t in mo.split()]
            ok = len(mv) == len(impl) and all(a == b for a, b in zip(impl, mv))
            if not ok:
                i = next((i for i, (a, b) in enumerate(zip(impl, mv)) if a != b), -1)
                ctx.violation('correspondence', '%s: implementation vs model differ at flat index %d (R,G,B,A planes): %r vs %r' % (
                    what, i, impl[i] if i >= 0 else len(impl), mv[i] if i >= 0 else len(mv)), dict(case, flat_index=i))
            continue
        mv = parse_model_floats(mo)
        if len(mv) != len(impl):
            ctx.violation('correspondence', '%s: model returned %d cells for %d' % (what, len(mv), len(impl)), case)
            continue
        for i, (a, b) in enumerate(zip(impl, mv)):
            if not same_bits(a, b):
                ctx.violation('correspondence', '%s: implementation %r (%s) vs model %r (%s) at flat index %d' % (
                    what, a, a.hex() if not math.isnan(a) else 'nan', b, b.hex() if not math.isnan(b) else 'nan', i),
                    dict(case, flat_index=i, impl=a, model=b))
                break


def run_index_case(ctx, ms, case, pending, do_oracle=True):
    fn = case['fn']
    arrs = build_arrays(case)
    try:
        res = call_index(ms, case, arrs)
        out = out_lists(res)
        err = None
    except ValueError as e:
        out, err = None, 'ERR value'
    except Exception as e:  # anything else is a failure of the property's domain
        ctx.violation('oracle', '%s raised %s: %s' % (fn, type(e).__name__, e), case)
        return None
    p = case.get('params', {})
    if do_oracle:
        if fn == 'savi':
            L = p['soil_factor']
            inside = (not (isinstance(L, float) and math.isnan(L))) and -1 <= Fraction(L) <= 1
            if inside and err:
                ctx.violation('oracle', 'savi rejected soil_factor=%r inside [-1,1]' % (L,), case)
                return None
            if not inside and not err:
                ctx.violation('oracle', 'savi accepted soil_factor=%r outside [-1,1]' % (L,), case)
                return None
        if fn == 'evi' and not any(isinstance(v, float) and math.isnan(v) for v in p.values()):
            bad = not (-1 <= Fraction(p['soil_factor']) <= 1) or Fraction(p['gain']) < 0
            if bad != bool(err):
                ctx.violation('oracle', 'evi parameter guard: params %r, raised=%r' % (p, bool(err)), case)
                return None
        if out is not None:
            if str(np.asarray(res.data).dtype) != 'float32':
                ctx.violation('oracle', '%s: result dtype %s is not single precision' % (fn, np.asarray(res.data).dtype), case)
                return None
            oracle_index(ctx, case, out)
            repeated_call(ctx, ms, case, arrs, out)
    if len(case['bands'][0]) and len(case['bands'][0][0]):
        flat = err if err else [v for r in out for v in r]
        pending.append((model_line(case), flat, case, fn))
    return out


def repeated_call(ctx, ms, case, arrs, out):
    """the index is a function of the band VALUES: calling again with the very same band objects (and, for the normalised
    differences, with the same objects swapped) must give the same (negated) result — an in-place write into a band shows here"""
    fn = case['fn']
    if 'float32' not in case['dtypes'] and ctx.rng.random() < 0.7:
        return
    try:
        o2 = out_lists(call_index(ms, case, arrs))
    except Exception as e:
        ctx.violation('oracle', '%s raised %s on a second call with the same band objects' % (fn, type(e).__name__), dict(case, repeat=True))
        return
    for r1, r2 in zip(out, o2):
        for a, b in zip(r1, r2):
            if not same_f(a, b):
                ctx.violation('oracle', '%s: a second call with the SAME band objects gave %r where the first gave %r (bands modified in place?)'
                              % (fn, b, a), dict(case, repeat=True, got=b, original=a))
                return
    if fn in ND:
        sw = dict(case, style='pos')
        try:
            o3 = out_lists(call_index(ms, sw, [arrs[1], arrs[0]]))
        except Exception as e:
            ctx.violation('oracle', '%s raised %s on the swapped band objects' % (fn, type(e).__name__), dict(case, repeat=True))
            return
        for r1, r3 in zip(out, o3):
            for a, b in zip(r1, r3):
                if not same_f(a, -b):
                    ctx.violation('oracle', '%s: swapping the same band objects after a first call gave %r, expected the negation of %r'
                                  % (fn, b, a), dict(case, repeat=True, swapped_objects=True, got=b, original=a))
                    return
    # the band objects still hold the values they were built from
    for k, (arr, b) in enumerate(zip(arrs, case['bands'])):
        cur = np.asarray(arr.data)
        ref = to_array(b, case['dtypes'][k])
        if cur.shape != ref.shape or not np.array_equal(cur, ref, equal_nan=cur.dtype.kind == 'f'):
            ctx.violation('oracle', '%s: band #%d was modified by the call' % (fn, k), dict(case, repeat=True, band=k))
            return


# ---------------------------------------------------------------- several lazy results computed in ONE graph
def gen_group(rng, fn):
    """2-3 variants of one index on Dask bands: same band objects with other parameters / other band order, and other bands"""
    nb = len(ARGS[fn])
    dts, kind, bands = gen_bands(rng, nb)
    while not (len(bands[0]) and len(bands[0][0])):
        dts, kind, bands = gen_bands(rng, nb)
    rows_, cols_ = len(bands[0]), len(bands[0][0])
    styles = ['single', 'cells', 'uneven']
    ch = gen_chunks(rng, rows_, cols_, rng.choice(styles))
    chunks = [ch for _ in range(nb)] if rng.random() < 0.6 else [gen_chunks(rng, rows_, cols_, rng.choice(styles)) for _ in range(nb)]

    def valid_params():
        if fn == 'savi':
            return dict(soil_factor=rng.choice([1.0, 0.5, 0.0, -0.5, 0.25, 1]))
        if fn == 'evi':
            return dict(c1=rng.choice([6.0, 2.4, 1.0, 0.0]), c2=rng.choice([7.5, 0.0, 1, 0.5]),
                        soil_factor=rng.choice([1.0, 0.5, 0.0, -0.5]), gain=rng.choice([2.5, 1.0, 2, 0.5]))
        return {}
    p0 = valid_params()
    base = dict(fn=fn, dtypes=dts, kind=kind, bands=bands, params=p0, chunks=chunks, style='kw')
    group = [base]
    # same band OBJECTS: other parameters (savi / evi) or another band order
    if fn in ('savi', 'evi'):
        p1 = valid_params()
        for _ in range(5):
            if p1 != p0:
                break
            p1 = valid_params()
        group.append(dict(base, params=p1, share=list(range(nb))))
    else:
        perm = list(range(nb))
        perm = perm[1:] + perm[:1]
        group.append(dict(base, bands=[bands[k] for k in perm], dtypes=[dts[k] for k in perm],
                          chunks=[chunks[k] for k in perm], share=perm))
    # other bands, same shape
    if rng.random() < 0.8:
        b2 = [[[gen_value(rng, dts[k], kind if (dts[k].startswith('float') or kind in KINDS_INT) else 'small')
                for _ in range(cols_)] for _ in range(rows_)] for k in range(nb)]
        group.append(dict(base, bands=b2, params=p0 if rng.random() < 0.5 else valid_params()))
    return group


def run_group(ctx, ms, group, pending):
    import dask
    fn = group[0]['fn']
    lazies, arrs0 = [], None
    for i, case in enumerate(group):
        case['exact'] = is_exact_class(case['bands'], case['params'])
        if i == 0:
            arrs = arrs0 = build_arrays(case)
        elif case.get('share') is not None:
            arrs = [arrs0[k] for k in case['share']]
        else:
            arrs = build_arrays(case)
        try:
            lazies.append(call_index(ms, case, arrs))
        except Exception as e:
            ctx.violation('oracle', '%s raised %s: %s' % (fn, type(e).__name__, e), dict(group=group, fn=fn, failing_variant=i))
            return
    try:
        with np.errstate(all='ignore'):
            outs = dask.compute(*[r.data for r in lazies])
    except Exception as e:
        ctx.violation('oracle', '%s: dask.compute of %d lazy results raised %s: %s' % (fn, len(lazies), type(e).__name__, e),
                      dict(group=group, fn=fn))
        return
    for i, (case, o) in enumerate(zip(group, outs)):
        out = [[float(v) for v in row] for row in np.asarray(o).tolist()]
        n0 = len(ctx.violations)
        oracle_index(ctx, case, out)
        try:
            alone = out_lists(call_index(ms, dict(case, chunks=None)))
            for r1, r2 in zip(out, alone):
                for a, b in zip(r1, r2):
                    if not same_bits(a, b):
                        ctx.violation('oracle', '%s: gave %r where the NumPy-backed call gives %r' % (fn, a, b), dict(case, got=a, numpy=b))
                        raise StopIteration
        except StopIteration:
            pass
        for v in ctx.violations[n0:]:
            v['what'] = '[variant %d of %d lazy %s results computed in ONE dask.compute] %s' % (i + 1, len(group), fn, v['what'])
            v['replay'] = dict(group=group, fn=fn, failing_variant=i)
        pending.append((model_line(case), [v for r in out for v in r], dict(case, together=True), fn + '/together'))


def run_true_color_group(ctx, ms, rng):
    """two lazy true_color images of the same Dask bands with different nodata / c / th in one dask.compute"""
    import dask
    case = gen_true_color(rng)
    case['dims'] = ['y', 'x']
    case.pop('omit_defaults', None)
    rows_, cols_ = len(case['bands'][0]), len(case['bands'][0][0])
    ch = gen_chunks(rng, rows_, cols_, rng.choice(['single', 'cells', 'uneven']))
    case['chunks'] = [ch, ch, ch]
    p2 = dict(case['params'], c=rng.choice([5.0, 20.0, 1.0]), th=rng.choice([0.5, 0.25, 0.0]),
              nodata=case['params']['nodata'] if case['dtypes'][0] == 'float32' else rng.choice([0, 3, 7]))
    group = [case, dict(case, params=p2)]
    arrs = build_arrays(case)
    try:
        with np.errstate(all='ignore'):
            lazies = [ms.true_color(*arrs, **c['params']) for c in group]
            outs = dask.compute(*[r.data for r in lazies])
            for i, (c, o) in enumerate(zip(group, outs)):
                alone = np.asarray(ms.true_color(*build_arrays(dict(c, chunks=None)), **c['params']).data)
                if not np.array_equal(np.asarray(o), alone):
                    ctx.violation('oracle', '[variant %d of 2 lazy true_color results computed in ONE dask.compute] differs from the '
                                  'NumPy-backed call (params %r)' % (i + 1, c['params']), dict(group=group, fn='true_color', failing_variant=i))
                    return
    except Exception as e:
        ctx.violation('oracle', 'true_color (two lazy results in one dask.compute) raised %s: %s' % (type(e).__name__, e),
                      dict(group=group, fn='true_color'))


def nontrivial(case):
    b = case['bands']
    for y in range(len(b[0])):
        for x in range(len(b[0][y])):
            if all(not (isinstance(bb[y][x], float) and (math.isnan(bb[y][x]) or math.isinf(bb[y][x]))) for bb in b):
                return True
    return False


def metamorphic(ctx, ms, case, out):
    """band swap (normalised differences) and power-of-two scaling, on the implementation"""
    fn = case['fn']
    rng = ctx.rng
    if out is None:
        return
    if fn in ND:
        sw = dict(case, bands=[case['bands'][1], case['bands'][0]], dtypes=[case['dtypes'][1], case['dtypes'][0]],
                  chunks=None if case.get('chunks') is None else [case['chunks'][1], case['chunks'][0]])
        try:
            o2 = out_lists(call_index(ms, sw))
        except Exception as e:
            ctx.violation('oracle', '%s raised %s on swapped bands' % (fn, type(e).__name__), sw)
            return
        for r1, r2 in zip(out, o2):
            for a, b in zip(r1, r2):
                if not same_f(a, -b):
                    ctx.violation('oracle', '%s: swapping the two bands gave %r, expected the negation of %r' % (fn, b, a),
                                  dict(case, swapped=True, got=b, original=a))
                    return
    # scaling by a power of two: only float dtypes, moderate magnitudes (no overflow / underflow)
    if fn in ND + ['sipi', 'arvi', 'gci'] and all(d in ('float32', 'float64') for d in case['dtypes']):
        k = rng.choice([-7, -3, -1, 1, 2, 5, 9])
        ok = True
        nb = []
        for b in case['bands']:
            rowsb = []
            for r in b:
                rr = []
                for v in r:
                    if not (math.isnan(v) or math.isinf(v)) and v != 0 and not (2.0 ** -60 <= abs(v) <= 2.0 ** 60):
                        ok = False
                    rr.append(v * 2.0 ** k)
                rowsb.append(rr)
            nb.append(rowsb)
        if ok:
            sc = dict(case, bands=nb)
            try:
                o2 = out_lists(call_index(ms, sc))
            except Exception as e:
                ctx.violation('oracle', '%s raised %s on scaled bands' % (fn, type(e).__name__), sc)
                return
            for r1, r2 in zip(out, o2):
                for a, b in zip(r1, r2):
                    if not same_f(a, b):
                        ctx.violation('oracle', '%s: scaling every band by 2^%d changed %r into %r' % (fn, k, a, b),
                                      dict(case, scale_pow=k, got=b, original=a))
                        return


# ---------------------------------------------------------------- true_color
def gen_true_color(rng):
    rows, cols = rng.randint(1, 4), rng.randint(1, 5)
    dt = rng.choice(['uint8', 'uint16', 'int16', 'int32', 'float32', 'float64', 'float64', 'float32', 'int64'])
    kind = rng.choice(['small', 'small', 'wide', 'frac', 'special', 'zeros', 'signed'])
    if not dt.startswith('float') and kind in ('frac', 'special'):
        kind = 'small'
    if dt.startswith('u') and kind == 'signed':
        kind = 'small'
    bands = [[[gen_value(rng, dt, kind) for _ in range(cols)] for _ in range(rows)] for _ in range(3)]
    if rng.random() < 0.1:
        v = bands[0][0][0]
        bands[0] = [[v for _ in range(cols)] for _ in range(rows)]      # constant red: range_val == 0
    nodata = rng.choice([1, 0, 1.0, 0.0, 5, 2.5, -1, 10, 0.5, -3.0])
    if rng.random() < 0.3:
        flat = [v for r in bands[0] for v in r if not (isinstance(v, float) and (math.isnan(v) or math.isinf(v)))]
        if flat:
            nodata = rng.choice(flat)                                     # boundary: r == nodata
            if isinstance(nodata, float) and nodata == int(nodata) and rng.random() < 0.5:
                nodata = int(nodata)
    if dt != 'float32' and rng.random() < 0.15:
        nodata = rng.choice([0.1, 1.3, 2.7])                              # not float32-representable: only non-float32 rasters
    if dt.startswith('float') and rng.random() < 0.35:
        # NaN red cells together with a negative / zero / positive nodata: alpha must be 0 on NaN whatever nodata is
        for _ in range(rng.randint(1, 2)):
            bands[0][rng.randrange(rows)][rng.randrange(cols)] = float('nan')
        nodata = rng.choice([-1, -3.0, -9999, -0.5, 0, 1, nodata])
    c = rng.choice([10.0, 10, 5.0, 1.0, 20.0, 0.0, -5.0, 100.0, 0.37, 1e-3])
    th = rng.choice([0.125, 0.5, 0.0, 0.25, 1.0, 0.3, -0.5, 2.0, 0.77])
    if rng.random() < 0.15:
        nodata = rng.choice([-100, -2.5, 2 ** 20, 65535, 1e6]) if dt != 'float32' else rng.choice([-100.0, -2.5, 1048576.0])
    case = dict(fn='true_color', dtypes=[dt] * 3, kind=kind, bands=bands, params=dict(nodata=nodata, c=c, th=th))
    case['dims'] = rng.choice([['y', 'x'], ['y', 'x'], ['y', 'x'], ['lat', 'lon'], ['x', 'y']])
    if rng.random() < 0.1:
        case['params'] = dict(nodata=1, c=10.0, th=0.125)
        case['omit_defaults'] = True
    return case


def run_true_color(ctx, ms, case, pending):
    dt = case['dtypes'][0]
    p = case['params']
    arrs = build_arrays(case)
    try:
        with np.errstate(all='ignore'):
            res = ms.true_color(*arrs, **({} if case.get('omit_defaults') else p))
        a = np.asarray(res.data)
    except Exception as e:
        key = 'true-color-dim-names' if (isinstance(e, (KeyError, ValueError)) and list(case.get('dims') or ['y', 'x']) != ['y', 'x']) else None
        ctx.violation('oracle', 'true_color raised %s: %s (dims %r)' % (type(e).__name__, e, case.get('dims')), case, key=key)
        return
    rows, cols = len(case['bands'][0]), len(case['bands'][0][0])
    if a.shape != (rows, cols, 4) or str(a.dtype) != 'uint8':
        ctx.violation('oracle', 'true_color: result shape %r dtype %s is not 8-bit RGBA' % (a.shape, a.dtype), case)
        return
    nod = Fraction(p['nodata'])
    for y in range(rows):
        for x in range(cols):
            r = exact_of(case['bands'][0][y][x])
            if isnanx(r):
                exp = 0
            elif isinfx(r):
                exp = 0 if r < 0 else 255
            else:
                exp = 0 if r <= nod else 255
            if int(a[y, x, 3]) != exp:
                ctx.violation('oracle', 'true_color: red %r nodata %r gave alpha %d, expected %d' % (
                    case['bands'][0][y][x], p['nodata'], int(a[y, x, 3]), exp), dict(case, cell=[y, x], got=int(a[y, x, 3])))
                return
    flat = [int(a[y, x, k]) for k in range(4) for y in range(rows) for x in range(cols)]
    line = 'true_color %d %s %s %s %s' % (1 if dt == 'float32' else 0, ptok(p['nodata']), ptok(p['c']), ptok(p['th']),
                                          ' '.join(grid_tok(b) for b in case['bands']))
    pending.append((line, flat, case, 'true_color'))


# ---------------------------------------------------------------- entry points
def fixed_cases():
    """the property's named hard cases, every index"""
    out = []
    for fn in ALL_FN:
        nb = len(ARGS[fn])
        base = [[[3, 0, 5, 7]], [[1, 0, 5, 2]], [[2, 0, 5, 9]]][:nb]
        for dt in ['uint8', 'int64', 'float32', 'float64']:
            b = [[[float(v) for v in r] for r in bb] for bb in base] if dt.startswith('float') else base
            out.append(dict(fn=fn, dtypes=[dt] * nb, kind='fixed', bands=b))
        # asymmetric bands: every argument has a different value (band order mix-ups show)
        out.append(dict(fn=fn, dtypes=['uint16'] * nb, kind='fixed', bands=[[[100 + 37 * k, 9 + k]] for k in range(nb)]))
        out.append(dict(fn=fn, dtypes=['float64'] * nb, kind='fixed',
                        bands=[[[float('nan') if k == j else 4.0 + j for j in range(nb)] + [6.0 - k]] for k in range(nb)]))
        out.append(dict(fn=fn, dtypes=['uint8'] * nb, kind='fixed', bands=[[[200, 255, 250]], [[100, 255, 6]], [[56, 255, 250]]][:nb]))
        out.append(dict(fn=fn, dtypes=['int32'] * nb, kind='fixed',
                        bands=[[[2 ** 24 + 1, 2 ** 31 - 1, -2 ** 31]], [[2 ** 24 + 3, 2 ** 31 - 1, 2 ** 31 - 1]], [[1, 2 ** 30, 5]]][:nb]))
    for c in out:
        if c['fn'] == 'savi':
            c['params'] = dict(soil_factor=1.0)
        elif c['fn'] == 'evi':
            c['params'] = dict(c1=6.0, c2=7.5, soil_factor=1.0, gain=2.5)
        else:
            c['params'] = {}
    return out


def gen_alpha_boundary(rng, quick=True):
    """true_color red bands in their OWN wide dtype around nodata: cells at nodata, at nextafter(nodata) in the band's dtype,
    and values float32 cannot represent — a threshold evaluated on a narrowed (float32) copy of the band shows here"""
    out = []
    specs = []
    for dt in ['int32', 'int64', 'float64', 'uint32']:
        if dt == 'float64':
            nds = [0.1, 0, -0.5, 2.5, 2 ** 24, 1e-50 if False else 0.0, -3, 16777217.0, 1e9 + 0.5]
        elif dt == 'uint32':
            nds = [2 ** 24, 0, 2 ** 31 + 1, 2.5]
        else:
            nds = [2 ** 24, 0, -1, -(2 ** 24) - 1, 2 ** 30 + 1, 2.5, -0.5]
        for nd in nds:
            specs.append((dt, nd))
    if quick:
        rng.shuffle(specs)
        specs = specs[:14]
    for dt, nd in specs:
        if dt == 'float64':
            f = float(nd)
            red = [f, float(np.nextafter(f, np.inf)), float(np.nextafter(f, -np.inf)), f + 1e-9, f - 1e-9,
                   1e-50, -1e-50, f + 1.0, f - 1.0, 0.1 + 1e-9, 16777217.0, float('nan')]
        else:
            lo, hi = dtype_limits(dt)
            base = int(math.floor(nd))
            red = [base, base + 1, base - 1, base + 2, 2 ** 24 + 1, 2 ** 24 - 1, 2 ** 24 + 3, 0, 1, 2 ** 30 + 1]
            if dt == 'int64':
                red += [2 ** 40 + 1, 2 ** 53 - 1, -(2 ** 40) - 1]
            if lo < 0:
                red += [-1, -(2 ** 24) - 1, -(2 ** 24) - 2]
            red = [max(lo, min(hi, v)) for v in red]
        rng.shuffle(red)
        cols = 4
        red = red[:cols * 3] + [red[0]] * (-len(red[:cols * 3]) % cols)
        rows = len(red) // cols
        r = [red[i * cols:(i + 1) * cols] for i in range(rows)]
        other = [[gen_value(rng, dt, 'small') for _ in range(cols)] for _ in range(rows)]
        out.append(dict(fn='true_color', dtypes=[dt] * 3, kind='alpha-boundary', bands=[r, other, [list(x) for x in other]],
                        params=dict(nodata=nd, c=rng.choice([10.0, 5.0]), th=rng.choice([0.125, 0.5])), dims=['y', 'x']))
    return out


SCALE_INV = ND + ['sipi', 'arvi', 'gci', 'savi', 'evi']      # invariant under a common 2^k scaling (savi / evi with soil_factor 0)


def gen_magnitude_cases(rng, quick=True):
    """every ratio index on very small / very large band magnitudes: small integers times 2^k, k = -20 .. -140 and +20 .. +120.
    NaN may appear ONLY where the denominator is exactly zero, and (for the scale-invariant indices) the result must be the
    bit-identical result of the unscaled bands"""
    out = []
    ks = [-20, -23, -24, -30, -40, -60, -90, -120, 20, 60, 100, 120]
    for fn in ALL_FN:
        nb = len(ARGS[fn])
        for k in (rng.sample(ks, 5) if quick else ks):
            dt = rng.choice(['float32', 'float64', 'float32'])
            rows, cols = 2, 4
            base = [[[float(rng.randint(0, 40)) for _ in range(cols)] for _ in range(rows)] for _ in range(nb)]
            base[0][0][0], base[1][0][0] = 3.0, 1.0                       # a plain well-defined cell
            base[0][0][1], base[1][0][1] = 1.0, 0.0                       # a + b = 1 * 2^k : tiny but NOT zero
            base[1][0][2] = -base[0][0][2] if fn in ND else base[1][0][2]  # an exactly zero denominator stays NaN
            params = {}
            if fn == 'savi':
                params = dict(soil_factor=0.0)
            elif fn == 'evi':
                params = dict(c1=rng.choice([6.0, 2.0, 0.0]), c2=rng.choice([7.5, 1.0, 0.0]), soil_factor=0.0, gain=rng.choice([2.5, 1.0]))
            sc = 2.0 ** k
            bands = [[[v * sc for v in r] for r in b] for b in base]
            out.append((dict(fn=fn, dtypes=[dt] * nb, kind='magnitude', bands=base, params=params),
                        dict(fn=fn, dtypes=[dt] * nb, kind='magnitude', bands=bands, params=params, scale_pow=k)))
    return out


def theme_cases(rng, quick=True):
    """appended stream (theme audit): layout of EACH band in turn, per-position Dask splits, falsy names, degenerate content"""
    idx, tc = [], []
    lays = ['F', 'T', 'strided23', 'neg', 'ro', 'view']
    rows, cols = 4, 5

    def bands_of(dt, nb, kind='small'):
        return [[[gen_value(rng, dt, kind) for _ in range(cols)] for _ in range(rows)] for _ in range(nb)]
    for fn in (['ndvi', 'evi', 'ebbi', 'gci'] if quick else ALL_FN):
        nb = len(ARGS[fn])
        for pos in range(nb):
            for lay in (rng.sample(lays, 2) if quick else lays):
                dt = rng.choice(['float32', 'float64', 'int32', 'uint16'])
                layout = [None] * nb
                layout[pos] = lay
                idx.append(dict(fn=fn, dtypes=[dt] * nb, kind='layout-%s@band%d' % (lay, pos), bands=bands_of(dt, nb),
                                params=dict(DEFAULTS.get(fn, {})), layout=layout))
            # Dask: this band split differently from the others (same shape, same per-axis maximum chunk)
            chunks = [[[3, 1], [3, 2]] for _ in range(nb)]
            chunks[pos] = [[1, 3], [2, 3]]
            dt = rng.choice(['float32', 'int16', 'float64'])
            idx.append(dict(fn=fn, dtypes=[dt] * nb, kind='dask-split@band%d' % pos, bands=bands_of(dt, nb),
                            params=dict(DEFAULTS.get(fn, {})), chunks=chunks))
    nan = float('nan')
    for fn in (['ndvi', 'savi', 'sipi'] if quick else ALL_FN):
        nb = len(ARGS[fn])
        b = bands_of('float64', nb)
        b[rng.randrange(nb)] = [[nan] * cols for _ in range(rows)]
        idx.append(dict(fn=fn, dtypes=['float64'] * nb, kind='all-nan-band', bands=b, params=dict(DEFAULTS.get(fn, {}))))
        one = [[[nan] * cols for _ in range(rows)] for _ in range(nb)]
        for k in range(nb):
            one[k][1][2] = float(3 + k)
        idx.append(dict(fn=fn, dtypes=['float32'] * nb, kind='single-valid', bands=one, params=dict(DEFAULTS.get(fn, {})),
                        name=rng.choice([None, ''])))
    for pos in range(3):
        for lay in (rng.sample(lays, 2) if quick else lays):
            dt = rng.choice(['float64', 'int32', 'uint16'])
            layout = [None] * 3
            layout[pos] = lay
            tc.append(dict(fn='true_color', dtypes=[dt] * 3, kind='layout-%s@band%d' % (lay, pos), bands=bands_of(dt, 3),
                           params=dict(nodata=rng.choice([0, 1, 5]), c=10.0, th=0.125), dims=['y', 'x'], layout=layout))
    b = bands_of('float64', 3)
    b[0] = [[nan] * cols for _ in range(rows)]
    tc.append(dict(fn='true_color', dtypes=['float64'] * 3, kind='all-nan-red', bands=b, params=dict(nodata=0, c=10.0, th=0.125), dims=['y', 'x']))
    one = [[[nan] * cols for _ in range(rows)] for _ in range(3)]
    for k in range(3):
        one[k][2][1] = float(5 + k)
    tc.append(dict(fn='true_color', dtypes=['float32'] * 3, kind='single-valid', bands=one, params=dict(nodata=1, c=5.0, th=0.5), dims=['y', 'x']))
    return idx, tc


def run_band_sequence(ctx, ms, rng, pending, dask=False):
    """call sequences: bands carrying coordinates and attrs are used once, then bands DERIVED from those objects (strided and
    reversed slices, astype, copy) are used; every result must be the formula on the derived VALUES, and no call may change
    the data, coordinates or attrs of its inputs.  With dask=True the first lazy result is computed only after the other calls"""
    fn = rng.choice(['ndvi', 'savi', 'arvi', 'gci', 'evi', 'nbr2'])
    nb = len(ARGS[fn])
    rows, cols = 6, 7
    dt = rng.choice(['float64', 'int32', 'uint16'])
    bands = [[[gen_value(rng, dt, 'small') for _ in range(cols)] for _ in range(rows)] for _ in range(nb)]
    params = dict(DEFAULTS.get(fn, {}))
    base = dict(fn=fn, dtypes=[dt] * nb, kind='sequence', bands=bands, params=params, style='kw',
                chunks=[[[2, 4], [3, 4]] for _ in range(nb)] if dask else None)
    base['exact'] = is_exact_class(bands, params)
    ys = [100.5 - 0.5 * i for i in range(rows)]
    xs = [-3.0 + 30.0 * i for i in range(cols)]
    arrs = [a.assign_coords(y=ys, x=xs).assign_attrs(res=(30.0, 0.5), nodata=0, units='dn') for a in build_arrays(base)]
    snap = [(np.array(np.asarray(a.data), copy=True), dict(a.attrs), np.array(a['y'].values), np.array(a['x'].values)) for a in arrs]

    def unchanged(label):
        for k, (a, (d0, at0, y0, x0)) in enumerate(zip(arrs, snap)):
            if not np.array_equal(np.asarray(a.data), d0) or dict(a.attrs) != at0 or \
                    not np.array_equal(a['y'].values, y0) or not np.array_equal(a['x'].values, x0):
                ctx.violation('oracle', '[call sequence, %s] %s changed the data / coordinates / attrs of band #%d' % (label, fn, k),
                              dict(base, band_sequence=True, step=label))
                return False
        return True

    def check(label, objs, case_d, lazy=None):
        case_d = dict(case_d, exact=is_exact_class(case_d['bands'], params))
        try:
            res = lazy if lazy is not None else call_index(ms, case_d, objs)
            out = out_lists(res)
        except Exception as e:
            ctx.violation('oracle', '[call sequence, %s] %s raised %s: %s' % (label, fn, type(e).__name__, e),
                          dict(base, band_sequence=True, step=label))
            return False
        n0 = len(ctx.violations)
        oracle_index(ctx, case_d, out)
        for v in ctx.violations[n0:]:
            v['what'] = '[call sequence, %s] %s' % (label, v['what'])
            v['replay'] = dict(base, band_sequence=True, step=label)
        pending.append((model_line(case_d), [v for r in out for v in r], dict(case_d, band_sequence=label), fn))
        return len(ctx.violations) == n0 and unchanged(label)

    def sub(rs, cs, dtype=None):
        b2 = [[list(r[cs]) for r in b[rs]] for b in bands]
        d = dict(base, bands=b2, chunks=None)
        if dtype:
            d['dtypes'] = [dtype] * nb
            d['bands'] = [[[float(np.dtype(dtype).type(v)) for v in r] for r in b] for b in b2]
        return d
    first_lazy = call_index(ms, base, arrs) if dask else None
    if not dask and not check('first call', arrs, base):
        return
    steps = [
        ('bands[::2, ::3]', [a[::2, ::3] for a in arrs], sub(slice(None, None, 2), slice(None, None, 3))),
        ('bands[::-1, ::-1]', [a[::-1, ::-1] for a in arrs], sub(slice(None, None, -1), slice(None, None, -1))),
        ('astype(float32)', [a.astype('float32') for a in arrs], sub(slice(None), slice(None), dtype='float32')),
        ('copy()[1:, :-1]', [a.copy()[1:, :-1] for a in arrs], sub(slice(1, None), slice(None, -1))),
    ]
    for label, objs, case_d in steps:
        if not check(label, objs, case_d):
            return
    if dask:
        check('the first lazy result, computed after the other calls', arrs, base, lazy=first_lazy)
    else:
        check('the same bands again', arrs, base)


def run(ctx, model=True):
    ms = _impl()
    rng = ctx.rng
    pending = []
    n = 0
    cases = fixed_cases()
    per_fn = 60 if ctx.quick() else 2000
    for fn in ALL_FN:
        for _ in range(per_fn):
            dts, kind, bands = gen_bands(rng, len(ARGS[fn]))
            cases.append(dict(fn=fn, dtypes=dts, kind=kind, bands=bands, params=gen_params(rng, fn)))
    # Dask-backed stream: every dtype incl. all integer dtypes and float32, single / 1-cell / uneven chunks, mixed per band
    styles = ['single', 'cells', 'uneven']
    k = 0
    for fn in ALL_FN:
        nbands = len(ARGS[fn])
        dts_cycle = ALL_DT + ['float32']
        for j in range(4 if ctx.quick() else 300):
            dts, kind, bands = gen_bands(rng, nbands)
            while not (len(bands[0]) and len(bands[0][0])):
                dts, kind, bands = gen_bands(rng, nbands)
            if j < 2:                     # walk through every dtype deterministically across the functions
                dt = dts_cycle[k % len(dts_cycle)]
                k += 1
                kind = rng.choice(KINDS_FLT if dt.startswith('float') else KINDS_INT)
                rows_, cols_ = len(bands[0]), len(bands[0][0])
                dts = [dt] * nbands
                bands = [[[gen_value(rng, dt, kind) for _ in range(cols_)] for _ in range(rows_)] for _ in range(nbands)]
            rows_, cols_ = len(bands[0]), len(bands[0][0])
            st = styles[(j + k) % 3]
            if rng.random() < 0.4:
                chunks = [gen_chunks(rng, rows_, cols_, rng.choice(styles)) for _ in range(nbands)]     # mixed per band
            else:
                ch = gen_chunks(rng, rows_, cols_, st)
                chunks = [ch for _ in range(nbands)]
            cases.append(dict(fn=fn, dtypes=dts, kind=kind, bands=bands, params=gen_params(rng, fn), chunks=chunks))
    # savi / evi with a NEGATIVE denominator (nir + red < -L): the guard is `!= 0`, not `> 0`
    for L in [-0.5, 0.5, -1.0, 0.25]:
        cases.append(dict(fn='savi', dtypes=['float64'] * 2, kind='fixed', params=dict(soil_factor=L),
                          bands=[[[-3.0, -8.0, 1.0, -0.25]], [[-2.0, 1.0, -7.0, -0.25]]]))
        cases.append(dict(fn='savi', dtypes=['int16'] * 2, kind='fixed', params=dict(soil_factor=L),
                          bands=[[[-3, -8, 1, 0]], [[-2, 1, -7, -1]]]))
    cases.append(dict(fn='evi', dtypes=['int32'] * 3, kind='fixed', params=dict(c1=6.0, c2=7.5, soil_factor=1.0, gain=2.5),
                      bands=[[[-30, 2, 1]], [[-2, 1, -7]], [[1, 9, 3]]]))
    for fn in ALL_FN:                                   # large-ish rasters
        for _ in range(1 if ctx.quick() else 25):
            shp = (rng.randint(9, 14), rng.randint(9, 16)) if ctx.quick() else (rng.randint(20, 50), rng.randint(20, 60))
            dts, kind, bands = gen_bands(rng, len(ARGS[fn]), shape=shp)
            cases.append(dict(fn=fn, dtypes=dts, kind=kind, bands=bands, params=gen_params(rng, fn)))
    nlay = 0
    for case in cases:
        fn = case['fn']
        if case.get('kind') != 'fixed':
            case['dims'] = rng.choice([['y', 'x'], ['y', 'x'], ['lat', 'lon'], ['row', 'col'], ['x', 'y']])
            if rng.random() < 0.12:
                case['name'] = 'idx_%d' % rng.randint(0, 9)
            if rng.random() < 0.05 and (nlay < 6 or not ctx.quick()):      # memory layouts: each is a Numba specialisation
                nlay += 1
                case['layout'] = [rng.choice(['F', 'view', 'neg', None]) for _ in case['bands']]
            if fn in DEFAULTS and rng.random() < 0.12:
                case['params'] = dict(DEFAULTS[fn])
                case['omit_defaults'] = True
        case['style'] = 'kw' if rng.random() < 0.5 else 'pos'
        case['exact'] = is_exact_class(case['bands'], case['params'])
        ctx.case(case, nontrivial=nontrivial(case))
        ctx.count('%s%s/%s/%s' % ('dask:' if case.get('chunks') is not None else '', fn,
                                  case['dtypes'][0] if len(set(case['dtypes'])) == 1 else 'mixed', case['kind']))
        out = run_index_case(ctx, ms, case, pending)
        if rng.random() < (0.5 if ctx.quick() else 0.7):
            metamorphic(ctx, ms, case, out)
    ntc = 150 if ctx.quick() else 5000
    # several lazy results of one index evaluated in ONE graph (a shared output key shows only there)
    for fn in ALL_FN:
        for _ in range(2 if ctx.quick() else 120):
            group = gen_group(rng, fn)
            ctx.case(dict(group=group, fn=fn), nontrivial=True)
            ctx.count('dask-together:%s/%d' % (fn, len(group)))
            run_group(ctx, ms, group, pending)
    for _ in range(3 if ctx.quick() else 150):
        ctx.count('dask-together:true_color/2')
        run_true_color_group(ctx, ms, rng)
    ndask_tc = 16 if ctx.quick() else 600
    for i in range(ntc + ndask_tc):
        case = gen_true_color(rng)
        if i >= ntc:
            rows_, cols_ = len(case['bands'][0]), len(case['bands'][0][0])
            if rng.random() < 0.3:
                case['chunks'] = [gen_chunks(rng, rows_, cols_, rng.choice(styles)) for _ in range(3)]
            else:
                ch = gen_chunks(rng, rows_, cols_, styles[i % 3])
                case['chunks'] = [ch, ch, ch]
        ctx.case(case, nontrivial=nontrivial(case))
        ctx.count('%strue_color/%s/%s' % ('dask:' if case.get('chunks') is not None else '', case['dtypes'][0], case['kind']))
        run_true_color(ctx, ms, case, pending)
    # ---- appended streams (rng draws of the streams above are unchanged) ----
    # true_color alpha at the nodata boundary in the red band's own (wide) dtype
    for case in gen_alpha_boundary(rng, ctx.quick()):
        ctx.case(case, nontrivial=True)
        ctx.count('true_color/%s/alpha-boundary' % case['dtypes'][0])
        run_true_color(ctx, ms, case, pending)
    # ratio indices at very small / very large magnitudes, with the unscaled twin
    for base, scaled in gen_magnitude_cases(rng, ctx.quick()):
        for c in (base, scaled):
            c['style'] = 'kw'
            c['exact'] = is_exact_class(c['bands'], c['params'])
        ctx.case(scaled, nontrivial=True)
        ctx.count('%s/%s/magnitude 2^%d' % (scaled['fn'], scaled['dtypes'][0], scaled['scale_pow']))
        o1 = run_index_case(ctx, ms, base, pending)
        o2 = run_index_case(ctx, ms, scaled, pending)
        if o1 is not None and o2 is not None and scaled['fn'] in SCALE_INV:
            done = False
            for y, (r1, r2) in enumerate(zip(o1, o2)):
                for x, (a, b) in enumerate(zip(r1, r2)):
                    if not same_f(a, b) and not done:
                        done = True
                        ctx.violation('oracle', '%s: scaling every band by 2^%d changed %r into %r (bands %r)' % (
                            scaled['fn'], scaled['scale_pow'], a, b, [bb[y][x] for bb in base['bands']]),
                            dict(scaled, cell=[y, x], got=b, original=a))
    # ---- appended stream: theme audit ----
    idx_cases, tc_cases = theme_cases(rng, ctx.quick())
    for case in idx_cases:
        case['style'] = 'kw'
        case['exact'] = is_exact_class(case['bands'], case['params'])
        ctx.case(case, nontrivial=nontrivial(case))
        ctx.count('theme:%s%s/%s' % ('dask:' if case.get('chunks') is not None else '', case['fn'], case['kind']))
        run_index_case(ctx, ms, case, pending)
    for case in tc_cases:
        ctx.case(case, nontrivial=True)
        ctx.count('theme:true_color/%s' % case['kind'])
        run_true_color(ctx, ms, case, pending)
    for i in range(2 if ctx.quick() else 60):
        ctx.count('theme:band-sequence%s' % ('/dask' if i % 2 else ''))
        run_band_sequence(ctx, ms, rng, pending, dask=bool(i % 2))
    if model:
        compare_model(ctx, pending)
    ctx.exhaustive = False


def search(ctx):
    old, m = ctx.tier, ctx.model
    ctx.tier, ctx.model = 'thorough', None
    try:
        run(ctx, model=False)
    finally:
        ctx.tier, ctx.model = old, m


def _fix(v):
    if isinstance(v, str):
        return float(v)
    if isinstance(v, list):
        return [_fix(x) for x in v]
    if isinstance(v, dict):
        return {k: _fix(x) if k in ('bands', 'params') else x for k, x in v.items()}
    return v


def replay_case(ctx, case):
    ms = _impl()
    if case.get('band_sequence'):
        import random
        pending = []
        for i in range(20):
            run_band_sequence(ctx, ms, random.Random(ctx.seed * 1000 + i), pending, dask=bool(i % 2))
            if ctx.violations:
                break
        compare_model(ctx, pending)
        return
    if case.get('group') is not None:
        group = []
        for c in case['group']:
            c = dict(c)
            c['bands'] = _fix(c['bands'])
            c['params'] = {k: _fix(v) for k, v in c.get('params', {}).items()}
            group.append(c)
        ctx.case(case)
        pending = []
        if case.get('fn') == 'true_color':
            import random
            run_true_color_group(ctx, ms, random.Random(ctx.seed))
        else:
            run_group(ctx, ms, group, pending)
        compare_model(ctx, pending)
        return
    case = dict(case)
    case['bands'] = _fix(case['bands'])
    case['params'] = {k: _fix(v) for k, v in case.get('params', {}).items()}
    ctx.case(case)
    pending = []
    if case['fn'] == 'true_color':
        run_true_color(ctx, ms, case, pending)
    else:
        if case.get('swapped'):
            base = dict(case)
            base.pop('swapped')
            out = run_index_case(ctx, ms, base, pending)
            metamorphic(ctx, ms, base, out)
        else:
            out = run_index_case(ctx, ms, case, pending)
            metamorphic(ctx, ms, case, out)
    compare_model(ctx, pending)
