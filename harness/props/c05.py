"""C05 — viewshed marks a cell visible exactly when the line-of-sight model says so.
Correspondence: xrspatial.viewshed (NumPy backend: event generation, lexsort, radial sweep over the
array-encoded red-black tree) vs the extracted Coq model coq/C05 (abstract status structure); the jitted tree
functions driven directly vs BOTH the abstract structure and the concrete red-black tree model coq/C05/Tree.v (node arrays
compared row by row);
oracle: an independent pure-Python O(n^2) line-of-sight reference written from the property text."""
import math
from math import atan, fabs, sqrt

import numpy as np
import xarray as xr

ID = 'C05'
OCAML_UTILS = ['zio.ml']
OCAML_PACKAGES = ['coq-core.kernel']
OCAML_FLAGS = '-rectypes -thread'

RULE = ('(a) terrains built to drive the status tree through its hard cases — plateaus/ties (small ints), flat, single ridges '
        '(row/column/diagonal), staircases, monotone ramps in 8 directions (long insert-only / delete-only runs), checkerboards '
        '(alternating insert/delete), pits/peaks/rings around the observer, isolated spikes, "forests" of tall cells, random '
        'one-decimal floats, level plateaus / terraces / lakes at heights that are not float32-representable (0.1, 0.3, '
        '1234.567, observer level with the plateau: exact gradient ties) — on grid shapes 2..7 x 2..7 (thorough: every shape, every observer cell; quick: corners, edge '
        'midpoints, centre of a seeded subset of shapes) plus larger grids (up to 12x15) for deep trees; cell sizes square / '
        'non-square / descending coordinates; observer_elev in {-2,0,1,2.5}; target_elev in {0,0.5,1}; dtypes '
        'float64/int64/int32; a stream of off-grid observers (nearest lookup incl. exact midpoints) and out-of-range observers '
        '(ValueError); quantifier-audit streams (labelled audit/* in the input distribution): grids 14..20 cells across with '
        'towers / walls / ridges and every observer class (status trees 5+ levels deep), every integer width int8..uint64 and '
        'float32 (also holding values that are not float32-representable), observer heights that overflow / are negative '
        'for the raster dtype, single rows / columns / a single cell, elevations x1e6, x1e-6, -5000, +1e9, cell sizes 1e-3, '
        '1e5x3e4, 0.1, 0.3x-0.7, observer_elev 1e4 / -100, target_elev negative / 50. Non-trivial = at least one hidden cell. (b) the real _insert_into_tree/_delete_from_tree/'
        '_max_grad_in_status_struct driven directly with operation sequences (ascending/descending/random insert and delete '
        'orders, sliding windows, evens-then-odds, churn; up to 89 live nodes; gradient patterns incl. ties and spikes) with '
        'three queries after every operation whose gradients are taken around the min-gradients of live and of just-deleted '
        'nodes (stale augmented maxima), compared with the extracted abstract status structure, a brute-force oracle, and the '
        'extracted CONCRETE tree model (Tree.v): new root and freed row of every insert/delete, the float returned by every '
        'query, and snapshots of the complete node arrays (every row ever handed out plus the dummy root and the NIL row: '
        'key, payload, cached maximum, colour, left/right/parent) after every update of short sequences and at ~48 evenly '
        'spaced points of long ones; the real arrays are checked for an inexact cached '
        'maximum: after every update every cached maximum must EQUAL the maximum over its subtree (oracle). The minimised input '
        'of the defect of _delete_from_tree fixed by e4337e3 (45 updates, STALE_MAX_SEQ) is replayed on every run.')
TRUSTED = [
    'the red-black tree of viewshed.py:93-732 is modelled line by line in coq/C05/Tree.v (finite map row id -> node record; '
    'NIL_ID = -1 is an ordinary row whose colour / cached maximum are read and whose parent field is written, as in the '
    'code; explicit fuel for every loop). Modelled, not verified: NumPy row storage and Numba\'s negative-index wrap '
    '(row -1 = last row); the places where the code would read row num_nodes (NIL\'s initial links) are out-of-bounds reads '
    'in the jitted code and stop the model (guards in _left_rotate/_right_rotate with a NIL pivot or child, '
    '_rb_insert_fixup with a NIL grandparent, _delete_from_tree emptying the tree); the print() in phase 2 of the query is '
    'not modelled; _tree_successor is modelled by the only branch its call site can reach (_tree_minimum of the right child); '
    'row ids come from the idle stack of _viewshed_cpu_sweep modelled as a list',
    'PROVED about that concrete model (PropsTree.v, all closed under the global context, all sizes / all inputs; partial '
    'correctness = conditional on the model returning, i.e. no out-of-bounds guard and fuel not exhausted; only the query '
    'is proved never to stop, C05_tree_query_total): rotations, _rb_insert_fixup, _insert_into_tree, _rb_delete_fixup and '
    '_delete_from_tree (fixed code e4337e3: both repair loops recompute every ancestor; unlinking, successor copy, fix-up) '
    'preserve the full tree invariant (links + parent pointers encode a binary tree, distinct ids, every cached maximum = '
    'maximum of min3 over its subtree) and refine st_insert / del_key on the in-order abstraction; the query on a tree '
    'with the invariant returns a maximum m with (not m > g) = visible_q; and the composition C05_rbtree_refines_status: '
    'from _create_status_struct, for EVERY sequence of inserts / deletes / queries (keys above the dummy root, no key '
    'inserted twice) the results agree with the abstract status structure of Sweep.v as long as the model returns. The '
    'defect of the pre-fix loops (known finding rbtree-delete-stale-cached-max, fixed) is documented by Examples about the '
    'explicitly named pre-fix variants del_up1_prefix / del_up2_prefix (C05_tree_delete_max_not_preserved, '
    'C05_tree_refines_refuted). Still only bounded (C05_bounded_tree_refines_small) + correspondence: that the model never '
    'stops on insert / delete (fuel 2*live+8 suffices, no guard fires), i.e. red-black balance facts',
    'premises of the tree theorems: > on gradients is a strict weak order on the whole gradient type (asymmetric, '
    '"not >" transitive) and < on keys is a strict weak order (irreflexive, transitive, negatively transitive) — true for '
    'binary64 off NaN; SMALLEST_GRAD <= min3 of every inserted node and <= every query gradient; the dummy root has min3 '
    'equivalent to SMALLEST_GRAD and is never hit; the phase-1 premise of the query (a node whose min3 exceeds g also has '
    'its interpolated gradient exceed g — the code consults cached maxima only to the left of the search path), stated for '
    'every payload in C05_rbtree_refines_status',
    'the query is modelled as a decision (exists a nearer node with min3 > g, or with interpolated gradient > g) instead of '
    'the running maximum started at SMALLEST_GRAD=-1e22 and the final test max <= g; identical for NaN-free gradients '
    '>= -1e22 (all gradients are atan values). Phase 1 of the code consults only the nodes on the left of the search path '
    '(not the left subtree of the cell\'s own node); the model consults every nearer node — equal decisions whenever '
    'min3 <= interpolated gradient (Section hypothesis phase1_sound of the clean-spec theorem)',
    'Section hypotheses of the theorems (visible in their statements): klt_irrefl (k < k is false), wf_span (the entering '
    'bearing is below the exiting bearing exactly for cells that do not start on the sweep line), the sorted event list is '
    'a permutation without inversions of the generated events (proved for the model\'s stable insertion sort under '
    'alt_asym / alt_negtrans = float < is a strict weak order on the NaN-free bearings), own_span and phase1_sound for the '
    'clean statement',
    'libm atan is a Section variable; the OCaml driver passes Stdlib.atan (bit-identical to Numba\'s math.atan here); '
    'C05_vertical_angle_range is proved over the reals for Coq\'s Ratan.atan using the stdlib real-number axioms '
    '(ClassicalDedekindReals.sig_not_dec, sig_forall_dec, FunctionalExtensionality.functional_extensionality_dep, '
    'Classical_Prop.classic); the float formula is tied to it by correspondence only. C05_float_instance mentions the '
    'PrimFloat primitives (float, add, sub, mul, div, ltb, leb), which Print Assumptions lists as axioms',
    'np.lexsort((type, ang)) is modelled as a stable insertion sort on (ang, type); raster.sel(method="nearest") as '
    '"minimal |coord - x|, ties to the larger coordinate" (pandas behaviour observed for ascending and descending indexes)',
]
ASSUMPTIONS = [
    'NumPy backend; rasters with >= 2 rows and >= 2 columns (resolution divides by size-1), NaN-free, strictly monotone '
    'evenly spaced coordinates; dtypes float64 / int64 / int32 (a float32 raster rounds observer elevation in float32 under NumPy 2)',
    'no two simultaneously active cells have equal squared distance (the model reports DUPKEY; counted, expected 0)',
    'outside the quantifier, observed on the unchanged code and not checked: a NaN cell is itself reported -1 and hides nothing, a '
    'NaN observer cell makes every other cell -1; dims other than y/x or a raster without coordinates raise AttributeError; '
    'float16 rasters raise NotImplementedError; the `res` attribute is ignored (cell sizes come from the coordinates); a '
    'negative target_elev is treated as 0',
    'inputs in the class of a recorded wrapper defect (single row / column: key single-row-or-column-all-invisible; observer '
    'height not exactly addable in the raster dtype: key observer-elev-added-in-raster-dtype) are judged by the oracle only '
    '(LOS reference with square cells for a single line, float64 observer height) and are not compared with the model',
]
PARTIAL = [
    'the red-black tree refinement is claimed in the form C05_rbtree_refines_status (PropsTree.v): every operation '
    'sequence, conditional on the model returning (result RStop = fuel exhausted / out-of-bounds guard / idle stack empty: '
    'nothing claimed afterwards) and on the abstract domain (no key inserted twice). UNCLAIMED: the total version '
    'tree_refines_status_full_statement (the model never stops on insert / delete: fuel sufficiency and the guards need the '
    'red-black balance / colour invariants, which are not proved; the query is proved total) and the literal Prop '
    'rbtree_refines_status_statement of Props.v (stated for total functions). Bounded supplement: '
    'C05_bounded_tree_refines_small (vm_compute, integer instance: every sequence of <= 6 inserts/deletes, keys 1..5, '
    'gradients {0,1}; no stop, in-order sequence = sorted abstract status and 14 queries after every prefix). The weak '
    '(one-sided) invariant theorems C05_tree_weak_invariant_rotations / _insert_refines_weak / _query_refines_weak remain as '
    'by-products; C05_tree_delete_refines_structure is the structure-only delete theorem',
    'C05_sweep_eq_spec is conditional on the sweep not leaving the modelled domain (result inr _: no duplicate active key, '
    'no delete of an absent key); that this never happens for real grids is checked per case by the extracted model '
    '(DUPKEY / NOTFOUND counters), not proved',
    'float-level facts (bearings are NaN-free and strictly ordered enter < centre < exit, min3 <= interpolated gradient, '
    'closed-span test succeeds for active nodes, binary64 < is a strict weak order off NaN) are premises of the theorems; the '
    'decidable ones (NaN-free bearings, wf_span, own_span, phase1_sound) are evaluated by the extracted model on every '
    'generated case (PREM flag, expected ok) and the sweep is compared with both reference definitions (SPEC / FULL); not proved',
    'vertical angle range is proved for the real-valued formula, not for its binary64 evaluation',
]
LEVEL_TEXT = ('Proved for all inputs (any grid size, any terrain/observer/heights, over abstract ordered bearing/key/gradient '
              'types, so in particular for the float instance): the status invariant of the radial sweep (C05_status_invariant), the equality '
              'sweep = O(n^2) reference (C05_sweep_eq_spec_full unconditional on interpolation facts; C05_sweep_eq_spec with '
              'the clean property statement under phase1_sound/own_span), that the stable insertion sort yields an '
              'inversion-free permutation under a strict weak order, and the 0..180 / level=90 range of the vertical angle '
              'over the reals. The red-black tree itself is inside the model (coq/C05/Tree.v, line by line, fixed code e4337e3) '
              'and proved for all sizes and inputs, conditional on the model returning: rotations, insert (descent, attach, '
              'maximum propagation, fix-up) and delete (unlinking, recomputation of every ancestor, successor copy, fix-up) '
              'preserve the full tree invariant incl. every cached maximum and refine st_insert / del_key on the in-order '
              'abstraction (C05_tree_*_preserves, C05_tree_insert_refines, C05_tree_delete_refines); the query equals the '
              'abstract two-phase query and never runs out of fuel (C05_tree_query_refines, C05_tree_query_total); and for '
              'EVERY operation sequence from the initial tree the concrete results agree with the abstract status structure '
              '(C05_rbtree_refines_status). Bounded (vm_compute; every sequence of <= 6 inserts/deletes over keys 1..5, '
              'gradients {0,1}, 14 queries after every prefix): the model does not stop and agrees '
              '(C05_bounded_tree_refines_small). The defect found in the pre-fix delete loops (a visible key reported hidden '
              'after some delete sequences; fixed in e4337e3) is kept as Examples about the pre-fix loop variants. Not '
              'proved: fuel sufficiency / guards of insert and delete (red-black balance), float rounding facts. '
              'Correspondence: viewshed() vs extracted model, visible '
              'mask and angles bit-exact; the jitted tree functions vs the concrete tree model (node arrays row by row, query '
              'floats) and vs the abstract structure; oracles: independent Python reference, cached-maximum check on the '
              'real arrays.')
LEVEL_NOTE = ('Trusted: Coq kernel, extraction (ExtrOcamlBasic + ExtrOCamlFloats), the OCaml driver handing Stdlib.atan to '
              'the model, that the tree model never stops on insert / delete (bounded run + every correspondence case), the line-by-line reading of the jitted tree code as Tree.v '
              '(compared row by row on every run), float order laws as premises, the Python harness and oracle.')

PI = math.pi


# ---------------------------------------------------------------------------------------------
# oracle: O(n^2) line-of-sight reference written from the property text
# ---------------------------------------------------------------------------------------------
def corner(kind, r, c, vr, vc):
    """(y, x) of the entering (kind=1) / exiting (kind=-1) corner of cell (r, c) seen from (vr, vc);
    the sweep turns counter-clockwise starting east, rows grow downwards"""
    E = kind == 1
    if r < vr and c < vc:
        return (r - .5, c + .5) if E else (r + .5, c - .5)
    if r < vr and c == vc:
        return (r + .5, c + .5) if E else (r + .5, c - .5)
    if r < vr and c > vc:
        return (r + .5, c + .5) if E else (r - .5, c - .5)
    if r == vr and c > vc:
        return (r + .5, c - .5) if E else (r - .5, c - .5)
    if r > vr and c > vc:
        return (r + .5, c - .5) if E else (r - .5, c + .5)
    if r > vr and c == vc:
        return (r - .5, c - .5) if E else (r - .5, c + .5)
    if r > vr and c < vc:
        return (r - .5, c - .5) if E else (r + .5, c + .5)
    if r == vr and c < vc:
        return (r - .5, c + .5) if E else (r + .5, c + .5)
    raise AssertionError('observer cell has no corners')


def bearing(x, y, vx, vy):
    if vx == x and vy > y:
        return PI / 2
    if vx == x and vy < y:
        return PI * 3.0 / 2.0
    if x == vx and y == vy:
        return 0.0
    if vy == y and x > vx:
        return 0.0
    if vx > x and vy == y:
        return PI
    a = atan(fabs(y - vy) / fabs(x - vx))
    if x > vx and y < vy:
        return a
    if vx > x and vy > y:
        return PI - a
    if vx > x and vy < y:
        return PI + a
    if vx < x and vy < y:
        return PI * 2.0 - a
    return 0.0


def dist_grad(r, c, elev, vr, vc, ve, ew, ns):
    dx = (c - vc) * ew
    dy = (r - vr) * ns
    d = dx * dx + dy * dy
    if d == 0:
        return d, (PI / 2 if elev - ve > 0 else (-PI / 2 if elev - ve < 0 else 0.0))
    return d, atan((elev - ve) / sqrt(d))


def corner_elev(kind, r, c, g, vr, vc):
    R, C = len(g), len(g[0])
    y, x = corner(kind, r, c, vr, vc)
    r1, c1 = int(2 * y - r), int(2 * x - c)
    if 0 <= r1 < R and 0 <= c1 < C:
        return (g[r1][c1] + g[r1][c] + g[r][c1] + g[r][c]) / 4.0
    return g[r][c]


def vert_ang(ve, d, elev):
    diff = ve - elev
    if diff == 0.0:
        return 90.0
    if diff > 0:
        return atan(sqrt(d) / diff) * 180 / PI
    return atan(abs(diff) / sqrt(d)) * 180 / PI + 90


class _Cell(object):
    __slots__ = ('r', 'c', 'ea', 'ca', 'xa', 'g0', 'g1', 'g2', 'gt', 'key', 'out', 'wrap')


def cells_of(g, vr, vc, ve, tgt, ew, ns):
    out = []
    for r in range(len(g)):
        for c in range(len(g[0])):
            if (r, c) == (vr, vc):
                continue
            o = _Cell()
            o.r, o.c = r, c
            ey, ex = corner(1, r, c, vr, vc)
            xy, xx = corner(-1, r, c, vr, vc)
            o.ea = bearing(ex, ey, vc, vr)
            o.ca = bearing(c, r, vc, vr)
            o.xa = bearing(xx, xy, vc, vr)
            _, o.g0 = dist_grad(ey, ex, corner_elev(1, r, c, g, vr, vc), vr, vc, ve, ew, ns)
            o.key, o.g1 = dist_grad(r, c, g[r][c], vr, vc, ve, ew, ns)
            _, o.g2 = dist_grad(xy, xx, corner_elev(-1, r, c, g, vr, vc), vr, vc, ve, ew, ns)
            _, o.gt = dist_grad(r, c, g[r][c] + tgt, vr, vc, ve, ew, ns)
            o.out = vert_ang(ve, o.key, g[r][c] + tgt)
            o.wrap = o.ea > o.ca            # the cell straddles bearing 0 (east of the observer, same row)
            out.append(o)
    return out


def interp(a0, a1, a2, g0, g1, g2, ang):
    """gradient of a cell at bearing ang: linear corner -> centre -> corner"""
    if not (a0 <= ang <= a2):
        return None
    if ang < a1:
        return g1 + (g0 - g1) * (a1 - ang) / (a1 - a0)
    if ang > a1:
        return g1 + (g2 - g1) * (ang - a1) / (a2 - a1)
    return g1


def reference(g, vr, vc, ve, tgt, ew, ns):
    cs = cells_of(g, vr, vc, ve, tgt, ew, ns)
    res = [[-1.0] * len(g[0]) for _ in g]
    res[vr][vc] = 180.0
    blockers = {}
    for c in cs:
        th = c.ca
        blocked = None
        for o in cs:
            if not (o.key < c.key):          # strictly nearer
                continue
            if o.wrap:                        # open span across bearing 0
                if th < o.xa:
                    a0, a1, a2 = o.ea - 2 * PI, o.ca, o.xa
                elif o.ea < th:
                    a0, a1, a2 = o.ea, o.ca + 2 * PI, o.xa + 2 * PI
                else:
                    continue
            else:
                if not (o.ea < th < o.xa):    # open span
                    continue
                a0, a1, a2 = o.ea, o.ca, o.xa
            v = interp(a0, a1, a2, o.g0, o.g1, o.g2, th)
            if v is not None and v > c.gt:
                blocked = (o.r, o.c, v)
                break
        if blocked is None:
            res[c.r][c.c] = c.out
        else:
            blockers[(c.r, c.c)] = blocked
    return res, blockers


def nearest_coord(coords, x):
    best = coords[0]
    for c in coords[1:]:
        dc, db = abs(c - x), abs(best - x)
        if dc < db or (dc == db and c > best):
            best = c
    return best


KNOWN_ELEV_DTYPE = 'observer-elev-added-in-raster-dtype'
KNOWN_SINGLE_LINE = 'single-row-or-column-all-invisible'
KNOWN_ELEV_SCALAR = 'observer-elev-added-in-scalar-dtype'


def effective_grid(case):
    """the elevations the implementation sees: the case's float64 values stored in the raster's dtype"""
    dt = case.get('dtype', 'float64')
    if dt == 'float64':
        return [[float(v) for v in row] for row in case['grid']]
    a = np.array(case['grid'], dtype='float64').astype(dt)
    if case.get('int_offset'):
        a = a + np.array(case['int_offset'], dtype=dt)
    a = a.astype('float64')
    return [[float(v) for v in row] for row in a.tolist()]


def impl_observer_elev(case):
    """observer_elev as run_impl passes it (a Python int for integer rasters when it is integral)"""
    oe = case['observer_elev']
    if case.get('oe_type'):
        return conv_scalar(oe, case['oe_type'])
    dt = case.get('dtype', 'float64')
    if (dt.startswith('int') or dt.startswith('uint')) and float(oe) == int(oe):
        oe = int(oe)
    return oe


def conv_scalar(v, t):
    """a scalar parameter in the Python / NumPy type named t (the case stores its exact float64 value)"""
    if t == 'int':
        return int(v)
    if t == 'float':
        return float(v)
    if t == 'bool':
        return bool(v)
    return getattr(np, t)(v)


def elev_dtype_class(case, vr, vc):
    """input class of the defect 'observer height added in the raster dtype': evaluating
    raster.values[vr, vc] + observer_elev with NumPy's rules raises or differs from the float64 sum"""
    dt = case.get('dtype', 'float64')
    if dt == 'float64':
        return False
    v = np.array(case['grid'], dtype='float64').astype(dt)[vr, vc]
    oe = impl_observer_elev(case)
    try:
        with np.errstate(all='ignore'):
            got = float(v + oe)
    except OverflowError:
        return True
    return got != float(v) + float(oe)


def single_line_class(case):
    g = case['grid']
    return (len(g) == 1 or len(g[0]) == 1) and len(g) * len(g[0]) > 1


def elev_scalar_class(case, vr, vc):
    """input class of the defect 'observer height added in the dtype of a NumPy scalar observer_elev': observer_elev is
    a NumPy floating scalar narrower than float64 and float(cell) + observer_elev, evaluated with NumPy's rules (a Python
    float is weak: the sum stays in the scalar's type), differs from the double-precision sum"""
    if case.get('oe_type') not in ('float32', 'float16'):
        return False
    v = effective_grid(case)[vr][vc]
    oe = impl_observer_elev(case)
    with np.errstate(all='ignore'):
        got = float(float(v) + oe)
    return got != float(v) + float(oe)


def known_class(case):
    """the key of the recorded defect whose input class contains this case, or None"""
    if single_line_class(case):
        return KNOWN_SINGLE_LINE
    xs, ys = case['xs'], case['ys']
    if min(xs) <= case['x'] <= max(xs) and min(ys) <= case['y'] <= max(ys):
        vc = xs.index(nearest_coord(xs, case['x'])); vr = ys.index(nearest_coord(ys, case['y']))
        if elev_dtype_class(case, vr, vc):
            return KNOWN_ELEV_DTYPE
        if elev_scalar_class(case, vr, vc):
            return KNOWN_ELEV_SCALAR
    return None


def oracle_expected(case):
    """expected output of viewshed() for a case dict, or 'ValueError'"""
    g = effective_grid(case)
    xs, ys = case['xs'], case['ys']
    x, y = case['x'], case['y']
    if not (min(xs) <= x <= max(xs)) or not (min(ys) <= y <= max(ys)):
        return 'ValueError', {}
    vc = xs.index(nearest_coord(xs, x))
    vr = ys.index(nearest_coord(ys, y))
    ve = g[vr][vc] + case['observer_elev']
    tgt = float(case['target_elev']) if case['target_elev'] > 0 else 0.0
    # a single row / column has no spacing of its own: square cells (1.0 for a single cell)
    ew = (xs[-1] - xs[0]) / (len(xs) - 1) if len(xs) > 1 else None
    ns = (ys[-1] - ys[0]) / (len(ys) - 1) if len(ys) > 1 else None
    if ew is None:
        ew = abs(ns) if ns is not None else 1.0
    if ns is None:
        ns = abs(ew)
    return reference(g, vr, vc, ve, tgt, ew, ns)


# ---------------------------------------------------------------------------------------------
# implementation runner
# ---------------------------------------------------------------------------------------------
def build_values(case):
    """the raster's array: logical values case['grid'] in the case's dtype and memory layout"""
    dt = case.get('dtype', 'float64')
    a = np.array(case['grid'], dtype='float64').astype(dt)
    if case.get('int_offset'):
        a = a + np.array(case['int_offset'], dtype=dt)
    lay = case.get('layout', 'C')
    R, C = a.shape
    if lay == 'F':
        a = np.asfortranarray(a)
    elif lay == 'T':                         # transposed view of a C-contiguous array
        a = np.ascontiguousarray(a.T).T
    elif lay == 'strided':                   # every 2nd row / 3rd column of a larger array full of decoys
        big = np.full((2 * R, 3 * C), 77, dtype=dt)
        big[::2, ::3] = a
        a = big[::2, ::3]
    elif lay == 'offset':                    # interior window of a larger array
        big = np.full((R + 2, C + 3), 77, dtype=dt)
        big[1:R + 1, 2:C + 2] = a
        a = big[1:R + 1, 2:C + 2]
    elif lay == 'reversed':                  # negative strides on both axes
        a = np.ascontiguousarray(a[::-1, ::-1])[::-1, ::-1]
    elif lay == 'readonly':
        a.setflags(write=False)
    return a


def build_raster(case, a=None):
    cd = case.get('coord_dtype', 'float64')
    a = build_values(case) if a is None else a
    return xr.DataArray(a, dims=['y', 'x'], coords={'y': np.array(case['ys'], dtype='float64').astype(cd),
                                                     'x': np.array(case['xs'], dtype='float64').astype(cd)})


def call_viewshed(case, r, **over):
    from xrspatial import viewshed
    te = case['target_elev']
    if case.get('te_type'):
        te = conv_scalar(te, case['te_type'])
    x, y = case['x'], case['y']
    if case.get('xy_type'):
        x, y = conv_scalar(x, case['xy_type']), conv_scalar(y, case['xy_type'])
    kw = dict(x=x, y=y, observer_elev=impl_observer_elev(case), target_elev=te)
    kw.update(over)
    if case.get('positional'):
        return viewshed(r, kw['x'], kw['y'], kw['observer_elev'], kw['target_elev'])
    return viewshed(r, **kw)


def grid_of(out):
    return [[float(v) for v in row] for row in np.asarray(out.values, dtype='float64').tolist()]


def run_sequence(case):
    """call sequences: repeated calls, calls on rasters derived from processed ones, interleaved parameters; the
    result of the LAST call on the raster the case describes is returned; a string when an earlier identical call
    answered differently or an input changed its logical values / coordinates"""
    seq = case['seq']
    g = np.array(effective_grid(case), dtype='float64')
    R, C = g.shape
    xs, ys = case['xs'], case['ys']
    if seq == 'repeat':
        r = build_raster(case)
        o1 = grid_of(call_viewshed(case, r)); o2 = grid_of(call_viewshed(case, r)); o3 = grid_of(call_viewshed(case, r))
        if not (same_grid(o1, o2) and same_grid(o2, o3)):
            return 'SEQ: the same call on the same raster answered differently'
        out, final = o3, r
    elif seq == 'interleave':                # other observer / heights in between
        r = build_raster(case)
        o1 = grid_of(call_viewshed(case, r))
        call_viewshed(case, r, x=xs[-1], y=ys[0], observer_elev=7.5, target_elev=3)
        call_viewshed(case, r, x=xs[0], y=ys[-1], observer_elev=-1, target_elev=0)
        out = grid_of(call_viewshed(case, r)); final = r
        if not same_grid(o1, out):
            return 'SEQ: the call answered differently after calls with other parameters'
    elif seq in ('derived-slice', 'derived-step'):
        dt = case.get('dtype', 'float64')
        if seq == 'derived-slice':           # the case is an interior window of a processed raster
            big = np.full((R + 2, C + 3), 9, dtype='float64'); big[1:R + 1, 2:C + 2] = g
            dx = xs[1] - xs[0]; dy = ys[1] - ys[0]
            bxs = [xs[0] - 2 * dx, xs[0] - dx] + list(xs) + [xs[-1] + dx]
            bys = [ys[0] - dy] + list(ys) + [ys[-1] + dy]
            sel = dict(y=slice(1, R + 1), x=slice(2, C + 2))
        else:                                # the case is every 2nd column / row of a processed raster
            big = np.full((2 * R - 1, 2 * C - 1), 9, dtype='float64'); big[::2, ::2] = g
            bxs = [xs[i // 2] if i % 2 == 0 else (xs[i // 2] + xs[i // 2 + 1]) / 2 for i in range(2 * C - 1)]
            bys = [ys[i // 2] if i % 2 == 0 else (ys[i // 2] + ys[i // 2 + 1]) / 2 for i in range(2 * R - 1)]
            sel = dict(y=slice(0, None, 2), x=slice(0, None, 2))
        rb = xr.DataArray(big.astype(dt), dims=['y', 'x'], coords={'y': np.array(bys), 'x': np.array(bxs)},
                          attrs={'res': (123.0, 456.0)})
        call_viewshed(case, rb, x=bxs[1], y=bys[-1])
        d = rb.isel(**sel)
        out = grid_of(call_viewshed(case, d)); final = d
    elif seq == 'assign_coords':             # processed under other coordinates first; stale attrs['res']
        r0 = xr.DataArray(build_values(case), dims=['y', 'x'],
                          coords={'y': np.arange(R) * 10.0, 'x': np.arange(C) * 10.0}, attrs={'res': (10.0, 10.0)})
        call_viewshed(case, r0, x=0.0, y=0.0)
        r = r0.assign_coords(x=np.array(xs), y=np.array(ys))
        out = grid_of(call_viewshed(case, r)); final = r
    elif seq == 'copy':
        r0 = build_raster(case)
        call_viewshed(case, r0)
        r = r0.copy(deep=True)
        out = grid_of(call_viewshed(case, r)); final = r
    elif seq == 'astype':                    # int raster processed, then converted
        r0 = build_raster(case)
        call_viewshed(case, r0)
        r = r0.astype('float32').astype('float64')
        out = grid_of(call_viewshed(case, r)); final = r
    else:
        raise AssertionError(seq)
    after = np.asarray(final.values, dtype='float64')
    if after.shape != g.shape or not np.array_equal(after, g):
        return 'SEQ: the input raster\'s values changed'
    if not (np.array_equal(np.asarray(final['x'].values, dtype='float64'), np.array(xs)) and
            np.array_equal(np.asarray(final['y'].values, dtype='float64'), np.array(ys))):
        return 'SEQ: the input raster\'s coordinates changed'
    return out


def run_impl(case):
    try:
        if case.get('seq'):
            return run_sequence(case)
        a = build_values(case)
        keep = a.copy()
        r = build_raster(case, a)
        out = call_viewshed(case, r)
        res = grid_of(out)
        if case.get('layout'):
            # the caller's array (and whatever it is a view of) must be untouched
            base = a if a.base is None else a.base
            if not np.array_equal(a, keep):
                return 'LAYOUT: the caller\'s array changed'
            if out.shape != keep.shape or list(out.dims) != ['y', 'x']:
                return 'LAYOUT: result shape %r' % (out.shape,)
        return res
    except ValueError as e:
        return 'ValueError'
    except OverflowError as e:
        return 'OverflowError'
    except Exception as e:                   # any other exception type is an answer too (compared with the reference)
        return 'Exception:%s' % type(e).__name__


def same_grid(a, b):
    if isinstance(a, str) or isinstance(b, str):
        return a == b
    if len(a) != len(b):
        return False
    for ra, rb in zip(a, b):
        if len(ra) != len(rb):
            return False
        for u, v in zip(ra, rb):
            if not (u == v or (u != u and v != v)):
                return False
    return True


def first_diff(a, b):
    for i, (ra, rb) in enumerate(zip(a, b)):
        for j, (u, v) in enumerate(zip(ra, rb)):
            if not (u == v or (u != u and v != v)):
                return i, j, u, v
    return None


def check_oracle(ctx, case, impl):
    exp, blockers = oracle_expected(case)
    if same_grid(impl, exp):
        return True
    key = known_class(case)
    if key is not None:
        ctx.count('known-class/' + key)
    if isinstance(impl, str) or isinstance(exp, str):
        ctx.violation('oracle', 'viewshed: implementation gave %s, the line-of-sight reference %s' % (
            impl if isinstance(impl, str) else 'a grid', exp if isinstance(exp, str) else 'a grid'), dict(case), key=key)
        return False
    i, j, u, v = first_diff(impl, exp)
    why = ''
    if (i, j) in blockers:
        why = ' (hidden by nearer cell (%d,%d) whose interpolated gradient %r exceeds the cell\'s)' % blockers[(i, j)]
    ctx.violation('oracle', 'viewshed: cell (%d,%d) is %r but the line-of-sight model gives %r%s' % (i, j, u, v, why),
                  dict(case, cell=[i, j], got=u, expected=v, implementation=impl, reference=exp), key=key)
    return False


# ---------------------------------------------------------------------------------------------
# model runner
# ---------------------------------------------------------------------------------------------
def hx(v):
    return float(v).hex()


def model_line(case):
    g = effective_grid(case)
    toks = ['vs', str(len(g)), str(len(g[0]))]
    toks += [hx(v) for row in g for v in row]
    toks += [str(len(case['xs']))] + [hx(v) for v in case['xs']]
    toks += [str(len(case['ys']))] + [hx(v) for v in case['ys']]
    toks += [hx(case['x']), hx(case['y']), hx(case['observer_elev']), hx(case['target_elev'])]
    return ' '.join(toks)


def parse_grid(tokens, rows, cols):
    vals = [float.fromhex(t) if t not in ('nan', '-nan') else float('nan') for t in tokens]
    if len(vals) != rows * cols:
        return None
    return [vals[i * cols:(i + 1) * cols] for i in range(rows)]


def compare_model(ctx, pending):
    if ctx.model is None or not pending:
        return
    # inputs in the class of a recorded defect of the wrapper (single row / column; observer height added in a narrow
    # raster dtype) are judged by the oracle only: the model describes neither the defect nor its repair
    pending = [(c, i) for c, i in pending if known_class(c) is None]
    outs = ctx.model.run([model_line(c) for c, _ in pending])
    for (case, impl), mo in zip(pending, outs):
        ctx.traces += 1
        if mo in ('DUPKEY', 'NOTFOUND'):
            # outside the modelled domain (two active cells with the same key / malformed spans)
            ctx.count('model/' + mo.lower())
            ctx.violation('correspondence', 'model left its domain (%s) on a generated case' % mo, dict(case))
            continue
        if mo == 'RANGE':
            if impl != 'ValueError':
                ctx.violation('correspondence', 'model: observer out of range, implementation returned a grid', dict(case))
            continue
        if not mo.startswith('OK '):
            ctx.violation('correspondence', 'model returned %s' % mo[:80], dict(case))
            continue
        if impl == 'ValueError':
            ctx.violation('correspondence', 'implementation raised ValueError, model returned a grid', dict(case))
            continue
        rows, cols = len(case['grid']), len(case['grid'][0])
        body = mo[3:]
        m_part, rest = body.split(' SPEC ')
        s_part, rest = rest.split(' FULL ')
        f_part, p_part = rest.split(' PREM ')
        mg = parse_grid(m_part.split(), rows, cols)
        if mg is None:
            ctx.violation('correspondence', 'model returned a malformed grid', dict(case))
            continue
        if not same_grid(impl, mg):
            i, j, u, v = first_diff(impl, mg)
            ctx.violation('correspondence', 'viewshed: implementation %r vs model %r at cell (%d,%d)' % (u, v, i, j),
                          dict(case, cell=[i, j], impl=u, model=v))
            continue
        if f_part.strip() != 'same':
            ctx.violation('correspondence', 'extracted sweep differs from extracted viewshed_spec_full '
                          '(contradicts C05_sweep_eq_spec_full)', dict(case))
        if p_part.strip() != 'ok':
            # NaN-free bearings / wf_span / own_span / phase1_sound evaluated by the extracted model on this input
            ctx.count('model/theorem-premise-failed')
            ctx.violation('correspondence', 'a decidable premise of C05_sweep_eq_spec (NaN-free bearings, wf_span, own_span, '
                          'phase1_sound) is false in binary64 on this input', dict(case))
        if s_part.strip() != 'same':
            # premises phase1_sound / own_span of the clean statement failed on this input
            ctx.count('model/clean-spec-premise-failed')
            ctx.violation('correspondence', 'extracted sweep differs from extracted viewshed_spec: a premise of '
                          'C05_sweep_eq_spec (phase1_sound / own_span) fails in binary64 on this input', dict(case))



# ---------------------------------------------------------------------------------------------
# the status structure driven directly: real _insert_into_tree / _delete_from_tree /
# _max_grad_in_status_struct vs the abstract structure (extracted tree_run) vs brute force
# ---------------------------------------------------------------------------------------------
class RealTree(object):
    """the array-encoded red-black tree exactly as _viewshed_cpu_sweep sets it up"""

    def __init__(self, cap):
        import importlib
        V = importlib.import_module('xrspatial.viewshed')
        self.V = V
        n = cap + 10
        self.vals = np.zeros((n, 8), dtype=np.float64)
        self.nodes = np.zeros((n, 4), dtype=np.int64)
        self.root = V._create_status_struct(self.vals, self.nodes)
        self.idle = np.zeros((n,), dtype=np.int64)
        for i in range(0, n - 1):
            self.idle[i] = n - i
        self.idle[0] = n - 2
        self.num_nodes = n
        self.used = set()

    def insert(self, key, g0, g1, g2, a0, a1, a2):
        node = np.array([key, g0, g1, g2, a0, a1, a2], dtype=np.float64)
        i = self.V._pop(self.idle)
        self.used.add(int(i))
        self.root = self.V._insert_into_tree(self.vals, self.nodes, self.root, i, node)

    def delete(self, key):
        self.root, deleted = self.V._delete_from_tree(self.vals, self.nodes, self.root, float(key))
        self.V._push(self.idle, deleted)
        return int(deleted)

    def max_grad(self, key, ang, grad):
        return float(self.V._max_grad_in_status_struct(self.vals, self.nodes, self.root, float(key), float(ang),
                                                       float(grad)))

    def visible(self, key, ang, grad):
        return bool(self.max_grad(key, ang, grad) <= grad)

    def stale_max(self):
        """a node whose cached maximum differs from the maximum of min(g0,g1,g2) over its subtree (too high: the
        phase-1 shortcut of the query would hide a visible cell; too low: the shortcut is lost):
        (row, key, cached, true subtree maximum) or None.  Since the fix e4337e3 of _delete_from_tree the cached
        maxima are exact after every update."""
        bad = []

        def rec(i):
            if i == -1:
                return None
            v = self.vals[i]
            m = min(v[1], v[2], v[3])
            for ch in (self.nodes[i][1], self.nodes[i][2]):
                r = rec(int(ch))
                if r is not None and r > m:
                    m = r
            if v[7] != m and not bad:
                bad.append((i, float(v[0]), float(v[7]), float(m)))
            return m
        rec(int(self.root))
        return bad[0] if bad else None

    def snapshot(self):
        """every row of the two arrays that has ever been written: NIL (last row, id -1), the dummy root and the
        rows handed out by the idle stack — (id, key, max, red, left, right, parent, g0, g1, g2, a0, a1, a2)"""
        rows = []
        for i in [-1, 0] + sorted(self.used):
            v = self.vals[i]
            t = self.nodes[i]
            rows.append((i, hx(v[0]), hx(v[7]), int(t[0] == 0), int(t[1]), int(t[2]), int(t[3])) +
                        tuple(hx(x) for x in v[1:7]))
        return rows


def snapshot_points(ops):
    """indices of the insert/delete operations after which the whole node arrays are compared with the concrete
    tree model: every one for short sequences, about 48 evenly spaced ones (and the last) otherwise"""
    upd = [j for j, o in enumerate(ops) if o[0] in ('I', 'D')]
    if not upd:
        return set()
    step = max(1, -(-len(upd) // 48))
    return set(upd[::step]) | {upd[-1]}


def tree_capacity(ops):
    return sum(1 for o in ops if o[0] == 'I') + 10


def run_tree_real(ops):
    """-> (codes, detail): codes as compared with the abstract structure (10 / 20 / visible bit / -1);
    detail = per operation what the concrete tree model must reproduce: new root (and freed row) of every
    insert / delete, the float returned by _max_grad_in_status_struct, and snapshots of the node arrays"""
    cap = sum(1 for o in ops if o[0] == 'I')
    t = RealTree(cap)
    snaps = snapshot_points(ops)
    res = []
    detail = []
    stale = None
    for j, o in enumerate(ops):
        try:
            if o[0] == 'I':
                t.insert(*o[1:]); res.append(10)
                detail.append(('I', int(t.root)))
            elif o[0] == 'D':
                d = t.delete(o[1]); res.append(20)
                detail.append(('D', int(t.root), d))
            else:
                m = t.max_grad(o[1], o[2], o[3])
                res.append(1 if m <= o[3] else 0)
                detail.append(('Q', hx(m)))
        except ValueError:
            res.append(-1)
            detail.append(('ERR',))
        if stale is None and o[0] in ('I', 'D') and res[-1] != -1:
            sh = t.stale_max()
            if sh is not None:
                stale = (j,) + sh
        if j in snaps:
            detail.append(('S', t.snapshot()))
    return res, detail, stale


def run_tree_oracle(ops):
    """brute force over the live set: hidden iff the key is live and a live node with a strictly smaller key has an
    interpolated gradient above g"""
    live = {}
    res = []
    for o in ops:
        if o[0] == 'I':
            live[o[1]] = o[2:]; res.append(10)
        elif o[0] == 'D':
            del live[o[1]]; res.append(20)
        else:
            k, ang, g = o[1:]
            vis = True
            if k in live:
                for k2, (g0, g1, g2, a0, a1, a2) in live.items():
                    if k2 < k:
                        v = interp(a0, a1, a2, g0, g1, g2, ang)
                        if v is not None and v > g:
                            vis = False
                            break
            res.append(1 if vis else 0)
    return res


def tree_line(ops):
    toks = ['tree', str(len(ops))]
    for o in ops:
        toks.append(o[0])
        toks += [hx(v) for v in o[1:]]
    return ' '.join(toks)


def ctree_line(ops):
    """the same operations for the CONCRETE tree model (coq/C05/Tree.v), with S = snapshot markers"""
    snaps = snapshot_points(ops)
    toks = []
    n = 0
    for j, o in enumerate(ops):
        toks.append(o[0])
        toks += [hx(v) for v in o[1:]]
        n += 1
        if j in snaps:
            toks.append('S'); n += 1
    return ' '.join(['ctree', str(tree_capacity(ops)), str(n)] + toks)


def _canon_hex(tok):
    return float.fromhex(tok).hex()


def parse_ctree(out):
    """model output of a ctree line -> the same structure as run_tree_real's detail"""
    res = []
    for tok in out.split():
        if tok.startswith('I:'):
            res.append(('I', int(tok[2:])))
        elif tok.startswith('D:'):
            a, b = tok[2:].split(':')
            res.append(('D', int(a), int(b)))
        elif tok.startswith('Q:'):
            res.append(('Q', _canon_hex(tok[2:])))
        elif tok in ('NF', 'QERR'):
            res.append(('ERR',))
        elif tok.startswith('S:'):
            rows = []
            for row in tok[2:].split(';'):
                f = row.split(',')
                rows.append((int(f[0]), _canon_hex(f[1]), _canon_hex(f[2]), int(f[3]), int(f[4]), int(f[5]), int(f[6])) +
                            tuple(_canon_hex(x) for x in f[7:13]))
            res.append(('S', rows))
        else:
            res.append((tok,))              # STOP / ERR ..: the model left its domain
    return res


ROW_FIELDS = ['id', 'key', 'max_grad', 'red', 'left', 'right', 'parent', 'grad0', 'grad1', 'grad2', 'ang0', 'ang1', 'ang2']


def describe_ctree_diff(real, model, ops):
    """first difference between the real tree's trace and the concrete model's"""
    snaps = snapshot_points(ops)
    labels = []
    for j, o in enumerate(ops):
        labels.append((j, 'result'))
        if j in snaps:
            labels.append((j, 'snapshot'))
    for i, (a, b) in enumerate(zip(real, model)):
        if a == b:
            continue
        j, what = labels[i] if i < len(labels) else (None, '?')
        if a[0] == 'S' and b[0] == 'S':
            for ra, rb in zip(a[1], b[1]):
                if ra != rb:
                    f = next(k for k in range(len(ra)) if ra[k] != rb[k])
                    return j, 'node arrays after op #%d %r: row %d field %s real %s model %s' % (
                        j, ops[j], ra[0], ROW_FIELDS[f], ra[f], rb[f])
            return j, 'node arrays after op #%d: different set of rows' % j
        return j, 'op #%d %r: real %r model %r' % (j, ops[j] if j is not None else None, a, b)
    if len(real) != len(model):
        return None, 'trace lengths differ: real %d model %d' % (len(real), len(model))
    return None, None


def gen_tree_ops(rng, pattern, n, gpat):
    """n keys; every node spans bearings [-1, 1] with centre 0 (so the closed-span test always holds and
    min3 <= interpolated value holds exactly: gradients are multiples of 1/4)"""
    keys = [float(i + 1) if rng.random() < 0.8 else i + 1 + 0.5 for i in range(n)]

    def grads(i):
        if gpat == 'rand':
            return [rng.randint(-12, 12) / 4.0 for _ in range(3)]
        if gpat == 'inc':
            return [i / 4.0 + rng.randint(0, 1) / 4.0 for _ in range(3)]
        if gpat == 'dec':
            return [-i / 4.0 + rng.randint(0, 1) / 4.0 for _ in range(3)]
        if gpat == 'tie':
            return [1.0, 1.0, 1.0]
        if gpat == 'spike':
            return [5.0, 5.0, 5.0] if i % 7 == 3 else [rng.randint(-2, 2) / 4.0 for _ in range(3)]
        return [0.0, 0.0, 0.0]
    node = {k: grads(i) + [-1.0, 0.0, 1.0] for i, k in enumerate(keys)}
    idx = list(range(n))
    if pattern == 'asc-asc':
        seq = [('I', i) for i in idx] + [('D', i) for i in idx]
    elif pattern == 'asc-desc':
        seq = [('I', i) for i in idx] + [('D', i) for i in reversed(idx)]
    elif pattern == 'desc-asc':
        seq = [('I', i) for i in reversed(idx)] + [('D', i) for i in idx]
    elif pattern == 'desc-desc':
        seq = [('I', i) for i in reversed(idx)] + [('D', i) for i in reversed(idx)]
    elif pattern == 'rand-rand':
        a = idx[:]; rng.shuffle(a); b = idx[:]; rng.shuffle(b)
        seq = [('I', i) for i in a] + [('D', i) for i in b]
    elif pattern == 'window-up':
        w = max(2, n // 4)
        seq = []
        for i in idx:
            seq.append(('I', i))
            if i >= w:
                seq.append(('D', i - w))
    elif pattern == 'window-down':
        w = max(2, n // 4)
        seq = []
        for j, i in enumerate(reversed(idx)):
            seq.append(('I', i))
            if j >= w:
                seq.append(('D', i + w))
    elif pattern == 'evens-odds':
        ev = [i for i in idx if i % 2 == 0]; od = [i for i in idx if i % 2 == 1]
        seq = [('I', i) for i in ev] + [('I', i) for i in od] + [('D', i) for i in ev] + [('I', i) for i in ev] + \
              [('D', i) for i in od]
    else:                                   # 'churn': random insert / delete of random keys
        live = set(); seq = []
        for _ in range(3 * n):
            i = rng.randrange(n)
            if i in live:
                live.discard(i); seq.append(('D', i))
            else:
                live.add(i); seq.append(('I', i))
    ops = []
    live = []
    recent = []
    for kind, i in seq:
        k = keys[i]
        if kind == 'I':
            ops.append(('I', k) + tuple(node[k])); live.append(k)
        else:
            ops.append(('D', k)); live.remove(k)
            recent = ([min(node[k][:3])] + recent)[:4]
        if not live:
            continue
        for q in range(3):
            qk = max(live) if q == 0 else rng.choice(live)
            if q == 2 and rng.random() < 0.1:
                qk = keys[-1] + 7.0                       # absent key
            pool = list(recent) + [min(node[rng.choice(live)][:3]) for _ in range(2)] + [node[rng.choice(live)][1]]
            g = rng.choice(pool) + rng.choice([-0.125, 0.0, 0.125])
            ops.append(('Q', qk, rng.choice([-1.0, -0.5, 0.0, 0.5, 1.0]), g))
    return ops


TREE_PATTERNS = ['asc-asc', 'asc-desc', 'desc-asc', 'desc-desc', 'rand-rand', 'window-up', 'window-down', 'evens-odds',
                 'churn']
TREE_GRADS = ['rand', 'inc', 'dec', 'tie', 'spike', 'zero']


def run_real(case):
    """run the implementation on one case (whole viewshed, or the tree functions driven directly)"""
    if case.get('fn') == 'treeops':
        try:
            return run_tree_real([tuple(o) for o in case['ops']])
        except Exception as e:          # the private tree API moved: the refinement can no longer be exercised
            return 'EXC %s: %s' % (type(e).__name__, e)
    return run_impl(case)


def forked_run(cases):
    """Run the implementation on every case in a forked child (the jitted status tree does no bounds checking: a
    broken rotation can corrupt memory and kill the interpreter).  Returns (results, crash) where results may be
    shorter than cases and crash = None or a description; the case that crashed is cases[len(results)]."""
    import os
    import pickle
    import struct
    rfd, wfd = os.pipe()
    pid = os.fork()
    if pid == 0:
        code = 0
        try:
            os.close(rfd)
            with os.fdopen(wfd, 'wb') as w:
                for c in cases:
                    blob = pickle.dumps(run_real(c))
                    w.write(struct.pack('<Q', len(blob)) + blob)
                    w.flush()
        except BaseException:
            code = 3
        finally:
            os._exit(code)
    os.close(wfd)
    results = []
    with os.fdopen(rfd, 'rb') as r:
        while True:
            h = r.read(8)
            if len(h) < 8:
                break
            n = struct.unpack('<Q', h)[0]
            blob = r.read(n)
            if len(blob) < n:
                break
            results.append(pickle.loads(blob))
    _, status = os.waitpid(pid, 0)
    crash = None
    if len(results) < len(cases):
        if os.WIFSIGNALED(status):
            crash = 'the interpreter was killed by signal %d' % os.WTERMSIG(status)
        else:
            crash = 'the worker exited with status %d' % os.WEXITSTATUS(status)
    return results, crash


def check_tree_case(ctx, case, real):
    """oracle for one operation sequence -> None, or the failure (what, replay dict) to be reported by
    compare_tree_model (which decides whether it is the known defect of the unchanged code)"""
    ops = [tuple(o) for o in case['ops']]
    if isinstance(real, str):
        ctx.violation('correspondence', 'cannot drive the status tree of viewshed.py directly: %s' % real, dict(case, ops=[]))
        return None
    exp = run_tree_oracle(ops)
    for j, (a, b) in enumerate(zip(real[0], exp)):
        if a != b:
            return ('status tree: after %d operations (%s) the real tree answers %s for op %r, brute force '
                    'over the live nodes says %s' % (j, case['pattern'], a, ops[j], b),
                    dict(case, op_index=j, got=a, expected=b))
    if real[2] is not None:
        j, row, key, cached, true = real[2]
        return ('status tree: after op #%d %r (%s) row %d (key %r) caches the maximum %r but the maximum of min(g0,g1,g2) '
                'over its subtree is %r (%s)' % (j, ops[j], case['pattern'], row, key, cached, true,
                                                 'too high: the phase-1 shortcut of the query can hide a visible cell'
                                                 if cached > true else 'too low: stale after an update'),
                dict(case, op_index=j))
    return None


def report_tree_failure(ctx, failure, same_as_concrete_model):
    """a wrong answer / an inexact cached maximum of the real tree (same_as_concrete_model: the extracted concrete model
    reproduces the real trace exactly, i.e. the model has the same defect)"""
    what, replay = failure
    if same_as_concrete_model:
        what += ' [the concrete tree model of Tree.v reproduces this trace: model and code share the defect]'
    ctx.violation('oracle', what, replay)


# regression input of the defect fixed by e4337e3 (known finding rbtree-delete-stale-cached-max): before the fix, after
# these 45 updates the tree hid key 16 at gradient 2.5 although no nearer live node has a gradient above 2 (a cached
# maximum 3 survived the deletion of the node it came from)
STALE_MAX_SEQ = ('I2:2 I8:4 I12:4 I13:2 I9:3 D12 I5:1 I10:2 D2 I12:1 D8 I6:3 I8:2 D9 I9:1 D10 D13 D6 I16:3 D9 I9:2 D12 I13:2 '
                 'D8 I7:4 I6:3 I10:1 I8:1 D6 D10 D5 I11:3 I15:0 I12:2 D9 I3:3 D7 I5:4 D3 I14:1 D13 I13:3 D11 D13 D5')


def stale_max_case():
    ops = []
    for tok in STALE_MAX_SEQ.split():
        if tok[0] == 'I':
            k, g = tok[1:].split(':')
            ops.append(['I', float(k)] + [float(g)] * 3 + [-1.0, 0.0, 1.0])
        else:
            ops.append(['D', float(tok[1:])])
    ops.append(['Q', 16.0, 0.0, 2.5])
    ops.append(['Q', 16.0, 0.0, 3.5])
    return dict(fn='treeops', pattern='regress-stale-max', grads='const', n=16, ops=ops)


def gen_tree_cases(ctx):
    rng = ctx.rng
    yield stale_max_case()
    nseq = 120 if ctx.quick() else 3000
    for s in range(nseq):
        pattern = TREE_PATTERNS[s % len(TREE_PATTERNS)]
        gpat = TREE_GRADS[(s // len(TREE_PATTERNS)) % len(TREE_GRADS)]
        n = rng.choice([3, 5, 8, 13, 21, 34, 48]) if ctx.quick() else rng.choice([2, 3, 5, 8, 13, 21, 34, 55, 89])
        ops = gen_tree_ops(rng, pattern, n, gpat)
        yield dict(fn='treeops', pattern=pattern, grads=gpat, n=n, ops=[list(o) for o in ops])


def compare_tree_model(ctx, pending):
    if not pending:
        return
    if ctx.model is None:
        for _case, _impl, failure in pending:
            if failure is not None:
                report_tree_failure(ctx, failure, False)
        return
    outs = ctx.model.run([tree_line([tuple(o) for o in c['ops']]) for c, _, _ in pending])
    couts = ctx.model.run([ctree_line([tuple(o) for o in c['ops']]) for c, _, _ in pending])
    for (case, (real, detail, _stale), failure), mo, co in zip(pending, outs, couts):
        ctx.traces += 1
        # (i) the real tree vs the CONCRETE tree model of coq/C05/Tree.v: roots, freed rows, the floats returned by
        # the query and the complete node arrays (keys, payloads, cached maxima, colours, links, NIL row)
        ops_t = [tuple(o) for o in case['ops']]
        same = False
        if co.startswith('ERR'):
            ctx.violation('correspondence', 'concrete tree model returned %s' % co[:80], dict(case))
            if failure is not None:
                report_tree_failure(ctx, failure, False)
        else:
            cm = parse_ctree(co)
            j, why = describe_ctree_diff(detail, cm, ops_t)
            same = why is None
            if failure is not None:
                ctx.count('treeops/oracle-failure')
                report_tree_failure(ctx, failure, same)
            if why is not None:
                ctx.count('treeops/concrete-model-differs')
                ctx.violation('correspondence', 'status tree vs concrete red-black tree model (Tree.v): %s' % why,
                              dict(case, op_index=j))
            else:
                ctx.count('treeops/snapshots-compared', sum(1 for d in detail if d[0] == 'S'))
        # (ii) the real tree vs the ABSTRACT status structure
        try:
            mv = [int(t) for t in mo.split()]
        except ValueError:
            ctx.violation('correspondence', 'tree model returned %s' % mo[:80], dict(case))
            continue
        if mv != real:
            j = next((i for i, (a, b) in enumerate(zip(real, mv)) if a != b), min(len(real), len(mv)))
            ctx.violation('correspondence', 'status tree vs abstract status structure: op #%d %r real %s model %s' % (
                j, case['ops'][j] if j < len(case['ops']) else None, real[j] if j < len(real) else None,
                mv[j] if j < len(mv) else None), dict(case, op_index=j))


# ---------------------------------------------------------------------------------------------
# generators
# ---------------------------------------------------------------------------------------------
FAMILIES = ['flat', 'plateau', 'ridge_row', 'ridge_col', 'ridge_diag', 'stair', 'ramp', 'checker', 'peak', 'pit',
            'dec', 'ring', 'spike', 'forest']


def terrain(rng, fam, R, C, vr, vc):
    def grid(f):
        return [[float(f(r, c)) for c in range(C)] for r in range(R)]
    if fam == 'flat':
        k = rng.randint(0, 3)
        return grid(lambda r, c: k)
    if fam == 'plateau':
        return grid(lambda r, c: rng.randint(0, 2))
    if fam == 'ridge_row':
        k = rng.randrange(R); h = rng.randint(1, 5)
        return grid(lambda r, c: h if r == k else 0)
    if fam == 'ridge_col':
        k = rng.randrange(C); h = rng.randint(1, 5)
        return grid(lambda r, c: h if c == k else 0)
    if fam == 'ridge_diag':
        k = rng.randint(-1, 2); h = rng.randint(1, 5); s = rng.choice([1, -1])
        return grid(lambda r, c: h if r - s * c == k or r + c == k + 3 else 0)
    if fam == 'stair':
        w = rng.randint(1, 3); s = rng.choice([1, -1]); ax = rng.randint(0, 2)
        return grid(lambda r, c: s * ((r if ax == 0 else c if ax == 1 else r + c) // w))
    if fam == 'ramp':
        a = rng.choice([-2, -1, -0.5, 0, 0.5, 1, 2]); b = rng.choice([-2, -1, -0.5, 0, 0.5, 1, 2])
        if a == 0 and b == 0:
            a = 1
        return grid(lambda r, c: a * r + b * c)
    if fam == 'checker':
        h = rng.randint(1, 4); p = rng.randint(0, 1)
        return grid(lambda r, c: h if (r + c) % 2 == p else 0)
    if fam == 'peak':      # rises towards the observer / radial ramp down: insert-only then delete-only by distance
        s = rng.choice([0.5, 1, 2])
        return grid(lambda r, c: -s * max(abs(r - vr), abs(c - vc)))
    if fam == 'pit':
        s = rng.choice([0.5, 1, 2])
        return grid(lambda r, c: s * ((r - vr) ** 2 + (c - vc) ** 2) / 4.0)
    if fam == 'ring':
        k = rng.randint(1, 2); h = rng.randint(1, 4)
        return grid(lambda r, c: h if max(abs(r - vr), abs(c - vc)) == k else 0)
    if fam == 'forest':    # many isolated tall cells on flat ground: every exit removes a large min-gradient from the tree
        dens = rng.choice([0.1, 0.2, 0.3]); hmax = rng.choice([4, 8, 12])
        return grid(lambda r, c: rng.randint(3, hmax) if rng.random() < dens and (r, c) != (vr, vc) else 0)
    if fam == 'spike':
        g = grid(lambda r, c: 0)
        for _ in range(rng.randint(1, 3)):
            g[rng.randrange(R)][rng.randrange(C)] = float(rng.randint(1, 6))
        return g
    return grid(lambda r, c: rng.randint(0, 60) / 10.0)          # 'dec': random one-decimal floats


RES = [(1.0, 1.0), (1.0, 1.0), (2.0, 1.0), (1.0, 0.5), (3.0, 0.25), (-1.0, 1.0), (1.0, -1.0), (-0.5, -2.0), (10.0, 10.0)]


def mk_case(rng, fam, R, C, vr, vc, res=None, oe=None, te=None, dtype=None, off=None):
    g = terrain(rng, fam, R, C, vr, vc)
    ew, ns = res if res is not None else rng.choice(RES)
    x0 = rng.choice([0.0, 10.0, -3.0]); y0 = rng.choice([0.0, 5.0, -7.5])
    xs = [x0 + ew * i for i in range(C)]
    ys = [y0 + ns * i for i in range(R)]
    oe = rng.choice([-2, 0, 1, 2.5]) if oe is None else oe
    te = rng.choice([0, 0, 1, 1, 0.5]) if te is None else te
    integral = all(v == int(v) for row in g for v in row)
    if dtype is None:
        dtype = rng.choice(['float64', 'float64', 'int64', 'int32']) if integral else 'float64'
    x, y = xs[vc], ys[vr]
    if off == 'near':                      # off-grid observer, nearest lookup (strictly inside the half cell)
        x = x + ew * rng.choice([-0.25, 0.25, 0.125]); y = y + ns * rng.choice([-0.25, 0.25, -0.375])
        x = min(max(x, min(xs)), max(xs)); y = min(max(y, min(ys)), max(ys))
    elif off == 'mid':                     # exact midpoint between two coordinates
        if vc + 1 < C:
            x = (xs[vc] + xs[vc + 1]) / 2
        if vr + 1 < R:
            y = (ys[vr] + ys[vr + 1]) / 2
    elif off == 'out':
        if rng.random() < 0.5:
            x = max(xs) + 0.5 if rng.random() < 0.5 else min(xs) - 0.5
        else:
            y = max(ys) + 0.5 if rng.random() < 0.5 else min(ys) - 0.5
    return dict(fn='viewshed', family=fam, grid=g, xs=xs, ys=ys, x=x, y=y, observer_elev=oe, target_elev=te, dtype=dtype)


def observer_cells(R, C, every):
    if every:
        return [(r, c) for r in range(R) for c in range(C)]
    s = {(0, 0), (0, C - 1), (R - 1, 0), (R - 1, C - 1), (0, C // 2), (R - 1, C // 2), (R // 2, 0), (R // 2, C - 1),
         (R // 2, C // 2)}
    return sorted(s)


def gen_cases(ctx):
    rng = ctx.rng
    quick = ctx.quick()
    shapes = [(R, C) for R in range(2, 8) for C in range(2, 8)]
    if quick:
        must = [(2, 2), (7, 7), (3, 7), (7, 2), (5, 5)]
        shapes = must + rng.sample([s for s in shapes if s not in must], 9)
    for (R, C) in shapes:
        for (vr, vc) in observer_cells(R, C, not quick):
            fams = FAMILIES if not quick else rng.sample(FAMILIES, 7)
            for fam in fams:
                for _ in range(1 if quick else 2):
                    yield mk_case(rng, fam, R, C, vr, vc)
    # larger grids: deeper status trees, long monotone runs
    nbig = 80 if quick else 1500
    for i in range(nbig):
        R, C = rng.randint(8, 12), rng.randint(8, 15)
        fam = ['ramp', 'checker', 'peak', 'pit', 'dec', 'plateau', 'stair', 'ring'][i % 8]
        vr, vc = rng.choice(observer_cells(R, C, False) + [(rng.randrange(R), rng.randrange(C))])
        yield mk_case(rng, fam, R, C, vr, vc)
    # level plateaus / lakes / terraces of heights that are NOT float32-representable, observer level with the water:
    # every gradient on the level part is an exact tie (0), so any elevation that passes through a narrower float type
    # on one side of a comparison (e.g. the pre-loaded sweep-line cells east of the observer) hides visible cells
    nlake = 24 if quick else 400
    for i in range(nlake):
        R, C = rng.randint(3, 7), rng.randint(4, 8)
        hgt = [0.1, 0.3, 1234.567, 0.1, 2.2, 1e-3][i % 6]
        vr, vc = rng.randrange(R), rng.randrange(max(1, C - 2))
        case = mk_case(rng, 'flat', R, C, vr, vc, res=rng.choice([(1.0, 1.0), (2.0, 1.0), (1.0, 0.5)]), oe=0, te=0,
                       dtype='float64')
        g = [[hgt] * C for _ in range(R)]
        kind = i % 3
        if kind == 1:            # a terrace: one side higher by an inexact step
            for r in range(R):
                for c in range(C):
                    if c > vc + 1 + (r % 2):
                        g[r][c] = hgt + 0.3
        elif kind == 2:          # a lake with a few islands / pits away from the observer's row
            for _ in range(rng.randint(1, 3)):
                r, c = rng.randrange(R), rng.randrange(C)
                if r != vr and (r, c) != (vr, vc):
                    g[r][c] = hgt + rng.choice([0.7, -0.4, 1.1])
        case['grid'] = g
        case['family'] = 'lake'
        yield case
    # ---- quantifier audit streams ("all terrains ..., all observer cells, observer_elev >= 0 or < 0, target_elev >= 0,
    # square and non-square cell sizes"): each stream is labelled in the input distribution (audit/...)
    def tag(case, label):
        case['audit'] = label
        return case
    # (a) large grids (14..20 cells across): status trees 5+ levels deep, towers / walls / ridges, every observer class
    nbig2 = 18 if quick else 400
    big_shapes = [(14, 16), (16, 14), (15, 18), (20, 20), (18, 15), (14, 20)]
    big_fams = ['spike', 'ridge_col', 'ridge_row', 'ridge_diag', 'forest', 'ring', 'checker', 'dec', 'stair']
    for i in range(nbig2):
        R, C = big_shapes[i % len(big_shapes)]
        cells = observer_cells(R, C, False)
        vr, vc = cells[(i * 2 + i // len(big_shapes)) % len(cells)]
        yield tag(mk_case(rng, big_fams[i % len(big_fams)], R, C, vr, vc), 'large-14..20')
    # (b) every integer width and float32 (values that fit; observer heights that stay exact in the raster dtype)
    nonneg = ['plateau', 'ridge_row', 'ridge_col', 'checker', 'spike', 'forest', 'ring', 'flat']
    # (each new dtype costs 1.5-3 s of Numba compilation: the quick tier takes the three the overflow cases below need
    # anyway plus two others chosen by the seed; thorough takes all)
    all_dt = ['int8', 'int16', 'uint8', 'uint16', 'uint32', 'uint64', 'float32']
    dts = all_dt if not quick else ['int8', 'uint8', 'uint16'] + rng.sample(['int16', 'uint32', 'uint64'], 1) + ['float32']
    for dt in dts:
        for _ in range(2 if quick else 40):
            R, C = rng.randint(3, 7), rng.randint(3, 7)
            yield tag(mk_case(rng, rng.choice(nonneg), R, C, rng.randrange(R), rng.randrange(C), oe=rng.choice([0, 1, 2]),
                              dtype=dt), 'dtype-' + dt)
    for _ in range(2 if quick else 40):      # float32 raster holding values that are not float32-representable
        R, C = rng.randint(3, 6), rng.randint(4, 7)
        case = mk_case(rng, 'flat', R, C, rng.randrange(R), rng.randrange(C), oe=0, te=rng.choice([0, 0.5]), dtype='float32')
        case['grid'] = [[rng.choice([0.1, 0.1, 0.3, 1234.567]) for _ in range(C)] for _ in range(R)]
        yield tag(case, 'dtype-float32-inexact')
    # the observer height is added in the raster's dtype: unsigned + negative height, int8 / uint8 wrap-around
    for dt, cell, oe in [('uint8', 2, -3), ('uint16', 7, -2), ('int8', 120, 100), ('uint8', 250, 10)] if quick else \
            [('uint8', 2, -3), ('uint16', 7, -2), ('int8', 120, 100), ('uint8', 250, 10), ('uint32', 0, -1), ('int16', 32000, 1000),
             ('uint64', 3, -5), ('int8', -120, -100)]:
        case = mk_case(rng, 'flat', 2, 4, 0, 0, res=(1.0, 1.0), oe=oe, te=0, dtype=dt)
        case['grid'] = [[cell, 3, 0, 0], [0, 0, 0, 1]]
        yield tag(case, 'elev-dtype-overflow')
    # (c) a single row / a single column (and a single cell)
    for i in range(6 if quick else 60):
        n = rng.randint(2, 7)
        R, C = (1, n) if i % 2 == 0 else (n, 1)
        fam = ['flat', 'spike', 'dec'][i % 3]
        vr, vc = rng.randrange(R), rng.randrange(C)
        yield tag(mk_case(rng, fam, R, C, vr, vc, res=rng.choice([(1.0, 1.0), (2.0, 0.5), (-1.0, 3.0)]), oe=rng.choice([1, 2.5]),
                          dtype='float64'), 'single-line')
    yield tag(mk_case(rng, 'flat', 1, 1, 0, 0, res=(1.0, 1.0), dtype='float64'), 'single-cell')
    # (d) magnitudes, (e) cell sizes, (f) observer / target heights
    for i in range(24 if quick else 480):
        R, C = rng.randint(3, 7), rng.randint(3, 7)
        vr, vc = rng.randrange(R), rng.randrange(C)
        kind = i % 12
        kw = dict(dtype='float64')
        scale, shift, label = 1.0, 0.0, ''
        if kind == 0: scale, label = 1e6, 'values-x1e6'
        elif kind == 1: scale, label = 1e-6, 'values-x1e-6'
        elif kind == 2: shift, label = -5000.0, 'values-negative-5000'
        elif kind == 3: shift, label = 1e9, 'values-plus-1e9'
        elif kind == 4: kw['res'] = (1e-3, 1e-3); label = 'cell-1e-3'
        elif kind == 5: kw['res'] = (1e5, 3e4); label = 'cell-1e5x3e4'
        elif kind == 6: kw['res'] = (0.1, 0.1); label = 'cell-0.1'
        elif kind == 7: kw['res'] = (0.3, -0.7); label = 'cell-0.3x-0.7'
        elif kind == 8: kw['oe'] = 1e4; label = 'observer_elev-1e4'
        elif kind == 9: kw['oe'] = -100; label = 'observer_elev--100'
        elif kind == 10: kw['te'] = -3; label = 'target_elev-negative'
        else: kw['te'] = 50; label = 'target_elev-50'
        case = mk_case(rng, rng.choice(['dec', 'dec', 'ramp', 'stair', 'forest', 'pit']), R, C, vr, vc, **kw)
        case['grid'] = [[v * scale + shift for v in row] for row in case['grid']]
        yield tag(case, label)
    # observer lookup and range validation
    nedge = 60 if quick else 400
    for i in range(nedge):
        R, C = rng.randint(2, 6), rng.randint(2, 6)
        vr, vc = rng.randrange(R), rng.randrange(C)
        yield mk_case(rng, rng.choice(FAMILIES), R, C, vr, vc, off=['near', 'mid', 'out', 'near'][i % 4])


def gen_theme_cases(ctx):
    """round-5 theme audit: memory layouts, scalar / coordinate dtypes, magnitudes, call sequences, coordinates.
    Appended after every other stream (earlier rng draws do not shift)."""
    rng = ctx.rng
    quick = ctx.quick()

    def tag(case, label, **kw):
        case['audit'] = label
        case.update(kw)
        return case
    fams = ['dec', 'forest', 'ridge_diag', 'checker', 'stair', 'spike', 'pit', 'plateau']
    # 1. memory layout of the raster argument (logical values identical; decoys 77 around strided / offset views)
    for rep in range(1 if quick else 12):
        for lay in ['F', 'T', 'strided', 'offset', 'reversed', 'readonly']:
            for dt in ['float64', 'int32'] + ([] if quick else ['float32', 'uint8']):
                R, C = rng.randint(3, 7), rng.randint(3, 7)
                fam = rng.choice(fams if dt == 'float64' else ['forest', 'checker', 'spike', 'plateau', 'ridge_col'])
                yield tag(mk_case(rng, fam, R, C, rng.randrange(R), rng.randrange(C), oe=rng.choice([0, 1, 2]), dtype=dt),
                          'layout-' + lay, layout=lay)
    # 2a. scalar parameters given as NumPy scalars / ints / bools of other widths (values exact in that type)
    sc = [('np.float32-oe', dict(oe_type='float32'), dict(oe=2.5)),
          ('np.float64-oe', dict(oe_type='float64'), dict(oe=2.5)),
          ('np.int32-oe', dict(oe_type='int32'), dict(oe=2)),
          ('np.int8-oe', dict(oe_type='int8'), dict(oe=-2)),
          ('np.uint8-oe', dict(oe_type='uint8'), dict(oe=1)),
          ('bool-oe', dict(oe_type='bool'), dict(oe=1)),
          ('np.float32-te', dict(te_type='float32'), dict(te=0.5)),
          ('np.int64-te', dict(te_type='int64'), dict(te=1)),
          ('np.uint8-te', dict(te_type='uint8'), dict(te=2)),
          ('bool-te', dict(te_type='bool'), dict(te=1)),
          ('int-xy', dict(xy_type='int'), dict()),
          ('np.int64-xy', dict(xy_type='int64'), dict()),
          ('np.float32-xy', dict(xy_type='float32'), dict()),
          ('positional', dict(positional=True), dict())]
    for rep in range(1 if quick else 10):
        for label, keys, kw in sc:
            if quick and label in ('bool-te', 'np.uint8-te', 'np.float64-oe'):
                continue                     # each new scalar type costs ~1 s of Numba specialisation: thorough only
            R, C = rng.randint(3, 6), rng.randint(3, 6)
            dt = rng.choice(['float64', 'float64', 'int64'])
            fam = rng.choice(['forest', 'checker', 'spike', 'plateau'])
            vr, vc = rng.randrange(R), rng.randrange(C)
            case = mk_case(rng, fam, R, C, vr, vc, res=rng.choice([(1.0, 1.0), (2.0, -1.0)]), dtype=dt, **kw)
            if keys.get('xy_type', '').startswith('int'):      # integer observer coordinates: integral coordinate values
                case['ys'] = [float(math.floor(v)) for v in case['ys']]
                case['x'], case['y'] = case['xs'][vc], case['ys'][vr]
            yield tag(case, 'scalar-' + label, **keys)
    # 2b. observer / target heights that are NOT exact in the scalar's own type, on inexact terrain: the heights are the
    #     float32 values the caller passed; sums must be formed in double precision
    for rep in range(2 if quick else 20):
        R, C = rng.randint(3, 6), rng.randint(4, 7)
        case = mk_case(rng, 'flat', R, C, rng.randrange(R), rng.randrange(C), res=(1.0, 1.0), dtype='float64',
                       oe=float(np.float32(rng.choice([0.3, 1.1, 0.7]))), te=float(np.float32(rng.choice([0.0, 0.1]))))
        case['grid'] = [[rng.choice([0.1, 0.1, 0.3, 0.7, 1234.567]) for _ in range(C)] for _ in range(R)]
        yield tag(case, 'scalar-float32-inexact', oe_type='float32', te_type='float32')
    # 2c. magnitudes and exact ties: tiny / huge elevations and cell sizes, int64 beyond 2**53, float32 rasters beyond
    #     2**24, observer one ulp above / below a level lake
    for rep in range(1 if quick else 10):
        for kind in range(10):
            R, C = rng.randint(3, 6), rng.randint(3, 7)
            vr, vc = rng.randrange(R), rng.randrange(C)
            if kind < 4:
                sc_, res = [(2.0 ** -60, (1.0, 1.0)), (2.0 ** 80, (1.0, 1.0)), (1.0, (2.0 ** -40, 2.0 ** -41)),
                            (2.0 ** 50, (2.0 ** 45, 2.0 ** 45))][kind]
                case = mk_case(rng, rng.choice(['dec', 'forest', 'stair']), R, C, vr, vc, res=res, dtype='float64',
                               oe=rng.choice([0, 1, 2.5]) * (sc_ if sc_ != 1.0 else 2.0 ** -40))
                case['grid'] = [[v * sc_ for v in row] for row in case['grid']]
                yield tag(case, 'magnitude-%d' % kind)
            elif kind == 4:      # int64 elevations beyond 2**53 (not exact in float64)
                case = mk_case(rng, 'forest', R, C, vr, vc, oe=rng.choice([0, 1, 3]), dtype='int64')
                yield tag(case, 'int64-above-2**53', int_offset=2 ** 53 + 1)
            elif kind == 5:      # uint64 beyond 2**63
                case = mk_case(rng, 'checker', R, C, vr, vc, oe=rng.choice([0, 2]), dtype='uint64')
                yield tag(case, 'uint64-above-2**63', int_offset=2 ** 63 + 5)
            elif kind == 6:      # float32 raster with integers beyond 2**24
                case = mk_case(rng, 'forest', R, C, vr, vc, oe=rng.choice([0, 1]), dtype='float32')
                case['grid'] = [[v + 2.0 ** 24 + 1 for v in row] for row in case['grid']]
                yield tag(case, 'float32-above-2**24')
            elif kind == 7:      # int32 near its limits
                case = mk_case(rng, 'spike', R, C, vr, vc, oe=rng.choice([0, 1]), dtype='int32')
                yield tag(case, 'int32-near-max', int_offset=2 ** 31 - 20)
            else:                # level lake, observer one ulp above (8) / below (9) it; target one ulp too
                h = rng.choice([0.1, 1234.567, 1.0])
                ulp = float(np.nextafter(h, np.inf) - h)
                case = mk_case(rng, 'flat', R, C, vr, vc, res=(1.0, 1.0), dtype='float64',
                               oe=ulp if kind == 8 else -ulp, te=rng.choice([0, ulp]))
                case['grid'] = [[h] * C for _ in range(R)]
                for _ in range(rng.randint(0, 2)):
                    case['grid'][rng.randrange(R)][rng.randrange(C)] = float(np.nextafter(h, np.inf if rng.random() < 0.5 else -np.inf))
                yield tag(case, 'ulp-ties')
    # 4. call sequences
    for rep in range(1 if quick else 10):
        for seq in ['repeat', 'interleave', 'derived-slice', 'derived-step', 'assign_coords', 'copy', 'astype']:
            for dt in ['float64', 'int32']:
                R, C = rng.randint(3, 6), rng.randint(3, 6)
                fam = rng.choice(['forest', 'checker', 'spike', 'plateau', 'ridge_row'])
                yield tag(mk_case(rng, fam, R, C, rng.randrange(R), rng.randrange(C), res=rng.choice([(1.0, 1.0), (2.0, 0.5), (-1.0, 1.0)]),
                                  oe=rng.choice([0, 1, 2]), dtype=dt), 'seq-' + seq, seq=seq)
    # 6. coordinates: integer and float32 coordinate arrays, far origins with fractional spacing
    for rep in range(1 if quick else 10):
        for kind in range(8):
            R, C = rng.randint(3, 6), rng.randint(3, 7)
            vr, vc = rng.randrange(R), rng.randrange(C)
            fam = rng.choice(fams)
            if kind < 2:
                case = mk_case(rng, fam, R, C, vr, vc, res=[(1.0, 1.0), (3.0, -2.0)][kind])
                case['xs'] = [float(math.floor(v)) for v in case['xs']]; case['ys'] = [float(math.floor(v)) for v in case['ys']]
                case['x'], case['y'] = case['xs'][vc], case['ys'][vr]
                yield tag(case, 'coords-int64', coord_dtype='int64', xy_type=rng.choice(['int', 'float']))
            elif kind < 4:
                case = mk_case(rng, fam, R, C, vr, vc, res=[(0.5, 0.25), (-2.0, 8.0)][kind - 2])
                yield tag(case, 'coords-float32', coord_dtype='float32')
            else:
                x0, y0, ew, ns = [(1e6, -1e7, 0.1, 0.1), (4.5e8, 2.5e6, 30.0, -30.0), (-179.95, 89.95, 0.1, -0.1),
                                  (1e6 + 0.05, 1e6 + 0.05, 1e6, 1e6)][kind - 4]
                case = mk_case(rng, fam, R, C, vr, vc, res=(1.0, 1.0))
                case['xs'] = [x0 + ew * i for i in range(C)]; case['ys'] = [y0 + ns * i for i in range(R)]
                case['x'], case['y'] = case['xs'][vc], case['ys'][vr]
                if rng.random() < 0.4:
                    case['x'] += 0.3 * ew
                yield tag(case, 'coords-origin-%d' % (kind - 4))
    # 5. very large grids (thorough only: the O(n^2) oracle takes seconds)
    if not quick:
        for i in range(6):
            R, C = [(30, 30), (24, 40), (40, 18)][i % 3]
            cells = observer_cells(R, C, False)
            vr, vc = cells[(5 * i) % len(cells)]
            yield tag(mk_case(rng, ['forest', 'dec', 'checker'][i % 3], R, C, vr, vc), 'huge-grid')


def process(ctx, cases):
    """run every case in the forked worker, then oracle + model comparison in this process"""
    results, crash = forked_run(cases)
    vpending, tpending = [], []
    for case, impl in zip(cases, results):
        if case.get('fn') == 'treeops':
            ctx.case(case, nontrivial=True)
            ctx.count('treeops/%s' % case['pattern'])
            failure = check_tree_case(ctx, case, impl)
            if not isinstance(impl, str):
                tpending.append((case, impl, failure))
            continue
        hidden = (not isinstance(impl, str)) and any(v == -1 for row in impl for v in row)
        ctx.case(case, nontrivial=hidden)
        R, C = len(case['grid']), len(case['grid'][0])
        ctx.count('family/%s' % case['family'])
        ctx.count('shape/%s' % ('<=7x7' if R <= 7 and C <= 7 else 'large'))
        ctx.count('dtype/%s' % case['dtype'])
        if case.get('audit'):
            ctx.count('audit/%s' % case['audit'])
        ctx.count('result/%s' % ('ValueError' if isinstance(impl, str) else ('some-hidden' if hidden else 'all-visible')))
        check_oracle(ctx, case, impl)
        vpending.append((case, impl))
    if crash is not None:
        bad = cases[len(results)]
        ctx.case(bad)
        ctx.violation('oracle', '%s while the implementation ran this input (%s): memory corruption in the jitted status '
                      'tree' % (crash, 'tree operation sequence' if bad.get('fn') == 'treeops' else 'viewshed call'), dict(bad))
    return vpending, tpending, crash


def run(ctx):
    cases = list(gen_cases(ctx)) + list(gen_tree_cases(ctx)) + list(gen_theme_cases(ctx))
    vpending, tpending, crash = process(ctx, cases)
    ctx.exhaustive = False
    compare_model(ctx, vpending)
    compare_tree_model(ctx, tpending)


def search(ctx):
    """An obligation or the correspondence broke and the normal run showed no failing input: widen the oracle run."""
    old = ctx.tier
    ctx.tier = 'thorough'
    model = ctx.model
    ctx.model = None
    try:
        cases = []
        for case in gen_cases(ctx):
            cases.append(case)
            if len(cases) >= 6000:
                break
        cases += list(gen_tree_cases(ctx))[:600]
        _v, tpending, _c = process(ctx, cases)
        ctx.model = model
        compare_tree_model(ctx, tpending)
    finally:
        ctx.tier = old
        ctx.model = model


def replay_case(ctx, case):
    case = dict(case)
    for k in ('op_index', 'cell', 'got', 'expected', 'implementation', 'reference', 'impl', 'model'):
        case.pop(k, None)
    if case.get('fn') != 'treeops':
        case['grid'] = [[float(v) for v in row] for row in case['grid']]
    _v, tpending, _c = process(ctx, [case])
    compare_tree_model(ctx, tpending)
