"""C02 — zonal stats summarise exactly the valid cells of each zone.
Correspondence: xrspatial.zonal.stats (NumPy backend, both return types) vs the extracted Coq model
coq/C02/Model.v; oracle: the property text evaluated per zone with exact arithmetic (fractions.Fraction).
Shared generators / helpers for C03 and C04 live here too (they import this module)."""
import math
import multiprocessing as mp
import os
from fractions import Fraction

import numpy as np
import xarray as xr

from harness import xvio

ID = 'C02'
RULE = ('random rasters up to 8x8 (plus 1xN / Nx1 / single cell): zone ids from a small alphabet (negative, fractional dyadic, '
        'ids equal to the nodata value) scattered over the raster (interleaved, non-contiguous), NaN / +inf / -inf zone cells, '
        'int32/int64/float32/float64 zones; integer-valued values (so sums are exact) in int/float dtypes with NaN/+-inf cells; '
        'nodata in {None, NaN, 0, a present value, a zone id}; zone_ids None / random sub-lists in any order with absent and '
        'duplicate ids (occasionally NaN); random subsets of the seven statistics (list) or dict-valued stats_funcs with user '
        'callables under keys that collide with built-in names but compute a different statistic, and under other keys; both '
        'return types; zones and values INDEPENDENTLY in memory layout C / Fortran copy / transposed view / strided view; plus a '
        'Dask-backed stream (1-4 blocks, values chunked like or unlike zones, >= 1 requested zone exists) with selected zones '
        'that have no valid cell (all NaN/inf/nodata), negative-only values and zones whose max / min is 0. Dtypes: every pair '
        'of zones dtype x values dtype over float64/float32/int8/16/32/64/uint8/16/32/64; shapes include 1x1, 1xN, Nx1; a stream '
        'with zone ids above 2**24 and above 2**53 (Python ints, adjacent ids) on int64/uint64/uint32/int32/float rasters; '
        'zone_ids also empty. Appended theme streams: reversed (a[::-1, ::-1]) and non-writeable arrays; zone_ids as tuple / '
        'numpy arrays of int16/int64/float32/float64, nodata 0.0 and as numpy scalars of another dtype; stats_funcs [] and {}; '
        'float16 values; non-integer values (0.1, 2**-30, 2**-120, 1e100, 2**24+1, 1+1e-9; oracle only) with nodata equal to / '
        'one ulp around a cell value in the cell dtype; degenerate rasters (1x1, 2x2, all-NaN values, all-equal, single valid '
        'cell, all zones non-finite); call sequences (same call twice, inputs unchanged, calls on rasters derived by isel / '
        'copy+assign_coords / astype / reversed isel, with descending / fractional / 1e6-spaced coords and attrs). Named hard cases: zone whose cells are all nodata/NaN, last zone, one-cell zones, all zones non-finite. '
        'A case is non-trivial when at least one finite zone has a valid cell; cases are distinct by their JSON encoding.')
TRUSTED = [
    'np.argsort / fancy indexing / np.unique / boolean masking are modelled (stable insertion sort by zone with NaN last, '
    'ascending distinct list, filter), not verified; NumPy\'s default argsort is not stable - the theorems only use that the '
    'result is a sorted permutation, and every modelled reducer is permutation invariant',
    'zone ids of one case are embedded into Z by a common power-of-two scale (exact, order preserving; the model only compares '
    'zone ids); values are integer-valued so count/sum/min/max/sum-of-squares are exact in float64 and compared exactly; mean/var '
    'are compared with the model\'s exact rational at relative 1e-9 (float64 / int values) or 1e-4 (float32 values), std as '
    'sqrt(var) at the same tolerance',
    'nodata_values=None is encoded as NaN in the model (both never compare equal to a value); a non-integer nodata is encoded '
    'as NaN as well because it cannot equal an integer-valued cell',
    'the int32 strides array of _strides is modelled with unbounded integers (rasters below 2^31 cells)',
    'the user reducer is a Section variable f : list Z -> T with the hypothesis that f is permutation invariant; the driver '
    'instantiates it with count/sum/min/max/mean/var and the two user reducers 2*sum and max-min',
]
ASSUMPTIONS = [
    'the theorems are about the NumPy path (the Dask path is proved equal to it in C03); the Dask-backed stream here is checked '
    'by the oracle and against the same model; the source carries fixes/C02-neg-inf-zone.diff (without it a -inf zone cell shifts '
    'every slice: reported as a violation with key neg-inf-zone-shifts-slices)',
    'zone_ids contains no NaN in the theorem C02_stats_spec (NaN ids are exercised by the correspondence only)',
    'the source carries fixes/C03-dask-sum-squares-overflow.diff and fixes/C03-dask-zone-ids-float-compare.diff (Dask stream; keys '
    'dask-sum-squares-int-overflow / dask-zone-ids-compared-as-float otherwise)',
    'float16 ZONES are outside the domain (numba cannot compile _strides for float16: NotImplementedError); float16 values are covered',
    'user reducers are permutation invariant (np.argsort does not fix the order of the cells inside a zone)',
]
PARTIAL = [
    'return_type="xarray.DataArray": NumPy fancy assignment result[zs] = x is modelled as a lookup function (assign), and '
    'C02_raster_spec assumes the cells carry distinct flat indices (the driver numbers them 0..n-1)',
    'std is not a Coq theorem: it is sqrt(var) in floating point, compared by tolerance in the harness',
    'floating-point rounding of sum/mean/var for non-integer data is outside the exact model (integer-valued data are generated)',
]
LEVEL_TEXT = ('Proved for all rasters of any size, all nodata values, all NaN-free zone_ids lists and every permutation-invariant '
              'reducer (Coq, closed under the global context): _strides returns the cumulative group sizes of the zone-sorted '
              'cells (C02_strides_cumcount), the i-th slice is a permutation of exactly the cells of zone i with NaN/inf zone '
              'cells in no slice (C02_slice_is_zone), and the DataFrame has one row per requested distinct finite zone id in '
              'ascending order whose statistic is the reducer over exactly the finite non-nodata values of that zone, NaN if '
              'there are none (C02_stats_spec); the seven default statistics are permutation invariant and are min/max/mean/'
              'mean-squared-deviation (C02_default_stats_*); with return_type xarray.DataArray every cell carries the statistic of '
              'its own zone when that zone is finite and selected and NaN otherwise (C02_raster_spec). std (sqrt of var) and '
              'float rounding are correspondence/oracle only.')
LEVEL_NOTE = ('Trusted: Coq kernel, extraction, the OCaml driver, the harness; NumPy primitives (argsort, unique, masking, slicing, '
              'fancy assignment) are modelled not verified; the model is tied to xrspatial.zonal.stats on every run by the '
              'correspondence check on generated rasters.')

NAN = float('nan')
INF = float('inf')
ZD = ['float64', 'float32', 'int32', 'int64', 'int8', 'uint8', 'int16', 'uint16', 'uint32', 'uint64']
VD = ['float64', 'int8', 'float32', 'uint8', 'int32', 'int16', 'int64', 'uint16', 'uint64', 'uint32']
BIG_IDS = [2 ** 24 + 1, 2 ** 24 + 2, 2 ** 31 + 5, 2 ** 53 - 1, 2 ** 53, 2 ** 53 + 1, 2 ** 53 + 2, 2 ** 62 + 1]


def pick_dtypes(i):
    """every pair of (zones dtype, values dtype) is reached as i runs"""
    return ZD[i % len(ZD)], VD[(i // len(ZD) + i) % len(VD)]


def exact(x):
    """a case number as Python int (kept exact, may exceed 2**53) or float"""
    return int(x) if isinstance(x, int) and not isinstance(x, bool) else float(x)


def num(x):
    """exact Python number of an implementation output (int for integer dtypes: ids above 2**53 must not be rounded)"""
    if isinstance(x, (int, np.integer)) and not isinstance(x, (bool, np.bool_)):
        return int(x)
    return float(x)
ALL_STATS = ['mean', 'max', 'min', 'sum', 'std', 'var', 'count']


# --------------------------------------------------------------------------- helpers shared with C03 / C04
def unjson(v):
    if isinstance(v, str):
        return {'nan': NAN, 'inf': INF, '-inf': -INF}[v]
    if isinstance(v, list):
        return [unjson(x) for x in v]
    return v


def isfin(x):
    return not (math.isnan(x) or math.isinf(x))


def feq(a, b):
    """float equality with NaN == NaN"""
    return a == b or (isinstance(a, float) and isinstance(b, float) and math.isnan(a) and math.isnan(b))


def to_floats(a):
    return [[float(v) for v in row] for row in np.asarray(a).tolist()]


def gen_zones(rng, rows, cols, dtype, alphabet=None, p_nan=0.08, p_pinf=0.04, p_ninf=0.05):
    """zone raster as list of lists of python floats (representable in dtype)"""
    if alphabet is None:
        k = rng.randint(1, 5)
        if dtype.startswith('float') and rng.random() < 0.4:
            pool = [-2.5, -1.0, -0.5, 0.0, 0.25, 0.5, 1.0, 1.5, 2.0, 3.0, 7.0, 9.0]
        elif dtype.startswith('uint'):
            pool = [0.0, 1.0, 2.0, 3.0, 4.0, 5.0, 7.0, 9.0, 10.0, 200.0, 255.0]
        else:
            pool = [-3.0, -1.0, 0.0, 1.0, 2.0, 3.0, 4.0, 5.0, 7.0, 9.0, 10.0, -128.0, 127.0]
        alphabet = rng.sample(pool, k)
    out = []
    fl = dtype.startswith('float')
    mode = rng.random()
    for r in range(rows):
        row = []
        for c in range(cols):
            if mode < 0.2:      # column-aligned blocks like the fixture
                z = alphabet[(c * len(alphabet)) // cols]
            else:
                z = rng.choice(alphabet)
            if fl:
                u = rng.random()
                if u < p_nan:
                    z = NAN
                elif u < p_nan + p_pinf:
                    z = INF
                elif u < p_nan + p_pinf + p_ninf:
                    z = -INF
            row.append(float(z))
        out.append(row)
    return out, alphabet


def gen_values(rng, rows, cols, dtype, lo=-9, hi=20, small=False):
    fl = dtype.startswith('float')
    if dtype.startswith('uint') and lo < 0:
        lo, hi = 0, (hi if hi > 0 else 6)
    out = []
    for r in range(rows):
        row = []
        for c in range(cols):
            v = float(rng.randint(0, 4) if small else rng.randint(lo, hi))
            if fl:
                u = rng.random()
                if u < 0.08:
                    v = NAN
                elif u < 0.11:
                    v = INF
                elif u < 0.13:
                    v = -INF
            row.append(v)
        out.append(row)
    return out


def np_array(data, dtype):
    if not str(dtype).startswith('float') and any(isinstance(x, int) for row in data for x in (row if isinstance(row, list) else [row])):
        return np.array(data, dtype=dtype)         # exact big integers (above 2**53) never pass through float64
    return np.array(data, dtype='float64').astype(dtype)


LAYOUTS = ['C', 'F', 'T', 'S']


def layout_array(data, dtype, layout):
    """the same logical raster in a given memory layout: C-contiguous, Fortran-ordered copy, transposed view of a
    C array, or a strided (non-contiguous) view into a larger buffer filled with junk"""
    a = np_array(data, dtype)
    if layout == 'F':
        a = np.asfortranarray(a)
    elif layout == 'T':
        a = np.ascontiguousarray(a.T).T
    elif layout == 'S':
        big = np.full((a.shape[0] * 2, a.shape[1] * 2 + 1), 77, dtype=a.dtype)
        big[::2, 1::2] = a
        a = big[::2, 1::2]
    elif layout == 'R':                      # reversed view a[::-1, ::-1] (negative strides)
        a = np.ascontiguousarray(a[::-1, ::-1])[::-1, ::-1]
    elif layout == 'W':                      # non-writeable buffer
        a = np.ascontiguousarray(a)
        a.flags.writeable = False
    return a


def fits(x, dtype):
    """x (a python number) can be written into an integer-valued raster of this dtype (NaN / inf only in float dtypes)"""
    x = float(x)
    if not isfin(x):
        return str(dtype).startswith('float')
    if x != int(x):
        return False            # the value rasters are integer-valued (exact sums)
    if str(dtype).startswith('float'):
        return float(np.array(x, dtype=dtype)) == x
    info = np.iinfo(dtype)
    return x == int(x) and info.min <= int(x) <= info.max


LAYOUTS6 = ['C', 'F', 'T', 'S', 'R', 'W']


def pick_layout(rng):
    u = rng.random()
    return 'C' if u < 0.4 else ('F' if u < 0.6 else ('T' if u < 0.8 else 'S'))


def shape_for(rng, quick=True):
    u = rng.random()
    if u < 0.03:
        return 1, 1
    if u < 0.08:
        return 1, rng.randint(1, 8)
    if u < 0.16:
        return rng.randint(1, 8), 1
    return rng.randint(1, 6 if quick else 8), rng.randint(1, 6 if quick else 8)


def zone_scale(zones, ids):
    vals = [z for row in zones for z in row] + [exact(i) for i in (ids or [])]
    return xvio.scale_for(vals)


def nodata_tok(nd):
    if nd is None:
        return 'nan'
    if isinstance(nd, int) and not isinstance(nd, bool):
        return xvio.tok(nd, 1)
    nd = float(nd)
    if math.isnan(nd) or math.isinf(nd) or nd != int(nd):
        return 'nan' if not math.isinf(nd) else ('inf' if nd > 0 else '-inf')
    return str(int(nd))


def ids_tok(ids, s):
    if ids is None:
        return '-1'
    return xvio.lst([exact(i) for i in ids], s)


def cells_tok(zones, values, s):
    zs = [z for row in zones for z in row]
    vs = [v for row in values for v in row]
    return '%d %s' % (len(zs), ' '.join('%s %s' % (xvio.tok(z, s), xvio.tok(v, 1)) for z, v in zip(zs, vs)))


def valid_value(v, nodata):
    return isfin(v) and not (nodata is not None and v == nodata)


def finite_zone_ids(zones):
    return sorted({z for row in zones for z in row if isfin(z)})


def requested_rows(zones, zone_ids):
    """property text: one row per distinct finite zone id present, ascending, restricted to the requested ids that exist"""
    present = finite_zone_ids(zones)
    if zone_ids is None:
        return present
    req = [exact(i) for i in zone_ids]
    return [z for z in present if any(z == r for r in req)]


def zone_valid_values(zones, values, z, nodata):
    return [Fraction(v) for rz, rv in zip(zones, values) for zz, v in zip(rz, rv) if zz == z and valid_value(v, nodata)]


def exact_stat(name, xs):
    """statistic of a non-empty list of Fractions"""
    n = len(xs)
    if name == 'count':
        return Fraction(n)
    if name == 'sum':
        return sum(xs)
    if name == 'min':
        return min(xs)
    if name == 'max':
        return max(xs)
    mean = sum(xs) / n
    if name == 'mean':
        return mean
    if name in ('var', 'std'):
        return sum((x - mean) ** 2 for x in xs) / n       # std: the caller takes the square root
    if name == 'double_sum':
        return 2 * sum(xs)
    if name == 'ptp':
        return max(xs) - min(xs)
    raise KeyError(name)


EXACT = {'count', 'sum', 'min', 'max', 'double_sum', 'ptp'}
TOL = {'float32': 1e-4, 'float16': 3e-2}        # mean/std/var are computed in the values' own float width


def stat_matches(name, got, xs, vdtype):
    """got: float from the implementation; xs: exact valid values of the zone (Fractions)"""
    if not xs:
        return isinstance(got, float) and math.isnan(got)
    if isinstance(got, float) and (math.isnan(got) or math.isinf(got)):
        return False
    exp = exact_stat(name, xs)
    if name in EXACT:
        return Fraction(got) == exp
    tol = TOL.get(vdtype, 1e-9)
    e = math.sqrt(exp) if name == 'std' else float(exp)
    return abs(got - e) <= tol * (1.0 + abs(e))


CUSTOM = {
    'double_sum': lambda val: val.sum() * 2,
    'ptp': lambda val: val.max() - val.min(),
}
# user callables for a dict-valued stats_funcs, by reducer name (what the callable computes)
USER_FUNCS = dict(CUSTOM,
                  count=lambda val: val.size, sum=lambda val: val.sum(), min=lambda val: val.min(), max=lambda val: val.max(),
                  mean=lambda val: val.mean(), var=lambda val: val.var(), std=lambda val: val.std())


def reducer_of(case, col):
    """what the column `col` must contain: for a list-valued stats_funcs the built-in of that name, for a dict-valued
    stats_funcs the USER callable stored under that key (case['funcs'][col]) - also when the key is a built-in name"""
    return (case.get('funcs') or {}).get(col, col)


def stats_arg(case):
    if case.get('empty_dict') and not case['stats']:
        return {}
    if case.get('funcs'):
        return {col: USER_FUNCS[case['funcs'][col]] for col in case['stats']}
    if all(n in ALL_STATS for n in case['stats']):
        return list(case['stats'])
    return {n: CUSTOM[n] for n in case['stats']}


# --------------------------------------------------------------------------- case generation
def gen_case(rng, quick, i):
    rows, cols = shape_for(rng, quick)
    zd, vd = pick_dtypes(i)
    kind = rng.random()
    if kind < 0.03:     # all zone cells non-finite
        zd = 'float64'
        zones = [[rng.choice([NAN, INF, -INF]) for _ in range(cols)] for _ in range(rows)]
        alphabet = [1.0]
    else:
        zones, alphabet = gen_zones(rng, rows, cols, zd)
    values = gen_values(rng, rows, cols, vd)
    present = finite_zone_ids(zones)
    # nodata
    u = rng.random()
    vals_present = [v for row in values for v in row if isfin(v)]
    if u < 0.3:
        nodata = None
    elif u < 0.55 and vals_present:
        nodata = rng.choice(vals_present)
    elif u < 0.7 and present:
        nodata = rng.choice(present)            # a zone id used as nodata: applies to values only
    elif u < 0.8:
        nodata = 0
    elif u < 0.88:
        nodata = NAN
    else:
        nodata = float(rng.randint(-3, 9))
    if nodata is not None and not isinstance(nodata, int) and isfin(nodata) and nodata == int(nodata) and rng.random() < 0.5:
        nodata = int(nodata)
    # hard case: one zone entirely nodata / NaN
    if present and rng.random() < 0.25:
        z0 = rng.choice(present)
        fill = NAN if (vd.startswith('float') and (nodata is None or rng.random() < 0.5)) else nodata
        if fill is not None and fits(fill, vd):
            if True:
                for r in range(rows):
                    for c in range(cols):
                        if zones[r][c] == z0:
                            values[r][c] = float(fill)
    # zone_ids
    u = rng.random()
    if u < 0.4:
        zone_ids = None
    else:
        pool = list(present) + [11.0, -7.0, 0.75] + list(alphabet)
        k = rng.randint(1, max(1, min(6, len(pool))))
        zone_ids = [rng.choice(pool) for _ in range(k)]
        if rng.random() < 0.08:
            zone_ids.append(NAN)
        if rng.random() < 0.05:
            zone_ids = [11.0, -7.0]
        if rng.random() < 0.03:
            zone_ids = []
        rng.shuffle(zone_ids)
        if all(float(z) == int(z) for z in zone_ids if isfin(z)) and not any(math.isnan(z) for z in zone_ids) and rng.random() < 0.5:
            zone_ids = [int(z) for z in zone_ids]
    # stats
    funcs = None
    u = rng.random()
    if u < 0.1:
        names = rng.sample(['double_sum', 'ptp'], rng.randint(1, 2))
    elif u < 0.3:
        # dict-valued stats_funcs: keys that collide with built-in names but carry a DIFFERENT user callable, keys that
        # collide and carry the same statistic, and keys that do not collide
        k = rng.randint(1, 4)
        names = rng.sample(ALL_STATS + ['double_sum', 'ptp', 'my_stat', 'range'], k)
        pool = ['count', 'sum', 'min', 'max', 'mean', 'var', 'double_sum', 'ptp']
        funcs = {}
        for col in names:
            if col in ALL_STATS and rng.random() < 0.75:
                funcs[col] = rng.choice([f for f in pool if f != col and not (col == 'std' and f == 'var')])
            elif col in ('double_sum', 'ptp') and rng.random() < 0.5:
                funcs[col] = col
            else:
                funcs[col] = rng.choice(pool)
    else:
        names = [s for s in ALL_STATS if rng.random() < 0.5] or ['count']
        rng.shuffle(names)
    rt = 'xarray.DataArray' if rng.random() < 0.3 else 'pandas.DataFrame'
    case = dict(fn='stats', zones=zones, values=values, zdtype=zd, vdtype=vd, nodata=nodata, zone_ids=zone_ids,
                stats=names, return_type=rt, zlayout=pick_layout(rng), vlayout=pick_layout(rng), backend='numpy')
    if funcs:
        case['funcs'] = funcs
    return case


def gen_big_case(rng, i, backend='numpy'):
    """zone ids above 2**24 (not representable in float32) and above 2**53 (not representable in float64), as Python
    ints in integer zone rasters and as floats where the dtype can hold them; ids that differ by 1 or 2"""
    rows, cols = rng.randint(1, 4), rng.randint(1, 5)
    zd = ['int64', 'uint64', 'float64', 'int64', 'uint32', 'float32', 'int64', 'int32'][i % 8]
    cand = [b for b in BIG_IDS + [2 ** 24, 5, 0] if (np.iinfo(zd).max >= b if not zd.startswith('float')
                                                     else float(np.array(b, dtype=zd)) == b and b <= 2 ** 53)]
    alphabet = rng.sample(cand, min(len(cand), rng.randint(2, 4)))
    isint = not zd.startswith('float')
    zones = [[(rng.choice(alphabet) if isint else float(rng.choice(alphabet))) for _ in range(cols)] for _ in range(rows)]
    if not isint:
        for _ in range(rng.randint(0, 2)):
            zones[rng.randrange(rows)][rng.randrange(cols)] = rng.choice([NAN, INF])
    vd = VD[(i * 3) % len(VD)]
    values = gen_values(rng, rows, cols, vd)
    present = finite_zone_ids(zones)
    if not present:
        zones[0][0] = alphabet[0] if isint else float(alphabet[0])
        present = finite_zone_ids(zones)
    if rng.random() < 0.5:
        zone_ids = None
    else:
        pool = list(present) + [p + 1 for p in present[:2]] + [11]
        zone_ids = [rng.choice(pool) for _ in range(rng.randint(1, 4))]
        if backend == 'dask' and present and not any(z in present for z in zone_ids):
            zone_ids.append(rng.choice(present))
        zone_ids = [int(z) for z in zone_ids]          # ids are given as Python ints (exact)
    names = [s for s in ALL_STATS if rng.random() < 0.4] or ['count', 'max']
    case = dict(fn='stats', zones=zones, values=values, zdtype=zd, vdtype=vd, nodata=None if rng.random() < 0.6 else 0,
                zone_ids=zone_ids, stats=names, return_type='pandas.DataFrame' if (backend == 'dask' or rng.random() < 0.7) else 'xarray.DataArray',
                zlayout='C', vlayout=pick_layout(rng), backend=backend, bigids=True)
    if backend == 'dask':
        case['zchunks'] = [composition(rng, rows, 2), composition(rng, cols, 2)]
        case['vchunks'] = case['zchunks']
    return case


def all_compositions(n):
    if n == 0:
        return [[]]
    return [[k] + rest for k in range(1, n + 1) for rest in all_compositions(n - k)]


CHUNK_MODES = ['same-max-different-split', 'same-count-different-boundaries', 'one-side-single-chunk', 'independent']


def chunk_pair(rng, n, mode, max_parts=3):
    """(zones chunks, values chunks) of one axis of length n: IRREGULAR chunk tuples that differ but share the per-axis
    maximum (e.g. (4,2,2) vs (4,4)), that have the same number of blocks but other boundaries, one side unchunked, or
    two independent compositions"""
    comps = all_compositions(n)
    if mode == 'same-max-different-split':
        pairs = [(a, b) for a in comps for b in comps if a != b and max(a) == max(b)]
    elif mode == 'same-count-different-boundaries':
        pairs = [(a, b) for a in comps for b in comps if a != b and len(a) == len(b)]
    elif mode == 'one-side-single-chunk':
        pairs = [(a, [n]) for a in comps if len(a) > 1] + [([n], a) for a in comps if len(a) > 1]
    else:
        pairs = [(a, b) for a in comps for b in comps]
    pairs = [(a, b) for a, b in pairs if len(a) <= max_parts and len(b) <= max_parts]
    if not pairs:
        c = rng.choice([c for c in comps if len(c) <= max_parts])
        return list(c), list(c)
    a, b = rng.choice(pairs)
    return list(a), list(b)


def chunk_pairs_2d(rng, rows, cols):
    """irregular, mutually different chunkings of zones and values (at most 3 parts on the interesting axis, at most 2 on
    the other: <= 6 blocks); returns (zchunks, vchunks, label)"""
    mode = rng.choice(CHUNK_MODES[:3] * 2 + CHUNK_MODES[3:])
    other = rng.choice(['equal', 'equal', 'independent', 'one-side-single-chunk'])
    first_rows = rng.random() < 0.6
    n1, n2 = (rows, cols) if first_rows else (cols, rows)
    z1, v1 = chunk_pair(rng, n1, mode, 3)
    if other == 'equal':
        z2 = v2 = composition(rng, n2, 2)
    else:
        z2, v2 = chunk_pair(rng, n2, other, 2)
    if first_rows:
        return [z1, z2], [v1, v2], '%s|%s' % (mode, other)
    return [z2, z1], [v2, v1], '%s|%s' % (other, mode)


def gen_chunk_case(rng, i):
    """Dask stats on rasters large enough (rows, cols in 3..8) for irregular chunk tuples"""
    case = gen_dask_case(rng, i)
    rows, cols = rng.randint(3, 8), rng.randint(2, 6)
    zones, _ = gen_zones(rng, rows, cols, case['zdtype'], p_nan=0.04, p_pinf=0.02, p_ninf=0.02)
    if not finite_zone_ids(zones):
        zones[0][0] = 1.0
    values = gen_values(rng, rows, cols, case['vdtype'])
    zch, vch, label = chunk_pairs_2d(rng, rows, cols)
    case.update(zones=zones, values=values, zone_ids=None, nodata=None if rng.random() < 0.6 else 0, zchunks=zch, vchunks=vch,
                chunkmode=label)
    return case


def composition(rng, n, max_parts):
    k = rng.randint(1, min(n, max_parts))
    cuts = sorted(rng.sample(range(1, n), k - 1)) if k > 1 else []
    return [b - a for a, b in zip([0] + cuts, cuts + [n])]


def gen_dask_case(rng, i):
    """Dask-backed stream (the property does not restrict the backend): few blocks, default statistics only, at least
    one requested zone exists; hard cases: a selected zone without any valid cell (all NaN / all nodata), zones whose
    values are all negative, zones whose maximum / minimum is 0"""
    rows, cols = rng.randint(1, 5), rng.randint(1, 5)
    zd, vd = pick_dtypes(i)
    zones, alphabet = gen_zones(rng, rows, cols, zd, p_nan=0.05, p_pinf=0.03, p_ninf=0.03)
    present = finite_zone_ids(zones)
    if not present:
        zones[0][0] = 1.0
        present = [1.0]
    mode = i % 4
    if mode == 0:
        values = gen_values(rng, rows, cols, vd, lo=-20, hi=-1)       # negative-only values
    elif mode == 1:
        values = gen_values(rng, rows, cols, vd, lo=-6, hi=0)         # maxima equal to 0
    elif mode == 2:
        values = gen_values(rng, rows, cols, vd, lo=0, hi=6)          # minima equal to 0
    else:
        values = gen_values(rng, rows, cols, vd)
    vals_present = [v for row in values for v in row if isfin(v)]
    u = rng.random()
    nodata = None if u < 0.35 else (rng.choice(vals_present) if (u < 0.7 and vals_present) else (0 if u < 0.85 else NAN))
    if rng.random() < 0.6:          # a zone without any valid cell
        z0 = rng.choice(present)
        fl = vd.startswith('float')
        if nodata is not None and isfin(float(nodata)) and fits(nodata, vd) and (not fl or rng.random() < 0.5):
            fill = float(nodata)
        elif fl:
            fill = rng.choice([NAN, NAN, INF, -INF])
        else:
            nodata = fill = float(rng.randint(0 if vd.startswith('uint') else -3, 3))
        for r in range(rows):
            for c in range(cols):
                if zones[r][c] == z0:
                    values[r][c] = fill
    if rng.random() < 0.5:
        zone_ids = None
    else:
        pool = list(present) + [11.0, -7.0]
        zone_ids = [rng.choice(pool) for _ in range(rng.randint(1, 4))]
        if not any(z in present for z in zone_ids):
            zone_ids.append(rng.choice(present))
        rng.shuffle(zone_ids)
        if all(float(z) == int(z) for z in zone_ids) and rng.random() < 0.5:
            zone_ids = [int(z) for z in zone_ids]
    names = [s for s in ALL_STATS if rng.random() < 0.6] or ['max', 'min']
    if rng.random() < 0.5:
        names = list(dict.fromkeys(names + ['max', 'min']))
    rng.shuffle(names)
    zch = [composition(rng, rows, 2), composition(rng, cols, 2)]
    vch = zch if rng.random() < 0.7 else [composition(rng, rows, 2), composition(rng, cols, 2)]
    return dict(fn='stats', zones=zones, values=values, zdtype=zd, vdtype=vd, nodata=nodata, zone_ids=zone_ids, stats=names,
                return_type='pandas.DataFrame', zlayout=pick_layout(rng), vlayout=pick_layout(rng), backend='dask',
                zchunks=zch, vchunks=vch)


def ids_arg(ids, how):
    """the same list of ids as a list (default), tuple, or numpy array of a given dtype"""
    if ids is None or not how or how == 'list':
        return ids
    if how == 'tuple':
        return tuple(ids)
    return np.array(ids, dtype=how.split(':')[1])


def nodata_arg(nd, how):
    if nd is None or not how:
        return nd
    return np.dtype(how).type(nd)


def run_impl(case):
    from xrspatial.zonal import stats
    za = layout_array(case['zones'], case['zdtype'], case.get('zlayout', 'C'))
    va = layout_array(case['values'], case['vdtype'], case.get('vlayout', 'C'))
    if case.get('ids_as') or case.get('nodata_as'):
        case = dict(case, zone_ids=ids_arg(case['zone_ids'], case.get('ids_as')), nodata=nodata_arg(case['nodata'], case.get('nodata_as')))
    if case.get('backend', 'numpy') == 'dask':
        import dask
        import dask.array as da
        za = da.from_array(za, chunks=tuple(tuple(c) for c in case['zchunks']))
        va = da.from_array(va, chunks=tuple(tuple(c) for c in case['vchunks']))
        z = xr.DataArray(za, dims=['y', 'x'])
        v = xr.DataArray(va, dims=['y', 'x'])
        with dask.config.set(scheduler='synchronous'):
            res = stats(zones=z, values=v, zone_ids=case['zone_ids'], stats_funcs=stats_arg(case),
                        nodata_values=case['nodata']).compute()
    else:
        z = xr.DataArray(za, dims=['y', 'x'])
        v = xr.DataArray(va, dims=['y', 'x'])
        res = stats(zones=z, values=v, zone_ids=case['zone_ids'], stats_funcs=stats_arg(case),
                    nodata_values=case['nodata'], return_type=case['return_type'])
    if case['return_type'] == 'pandas.DataFrame':
        cols = list(res.columns)
        if cols != ['zone'] + list(case['stats']):
            raise AssertionError('columns %r' % cols)
        return [dict((c, num(res[c].iloc[i]) if c == 'zone' else float(res[c].iloc[i])) for c in cols) for i in range(len(res))]
    if list(res.coords['stats'].values) != list(case['stats']) or res.shape != (len(case['stats']),) + z.shape:
        raise AssertionError('raster result shape/coords %r' % (res.shape,))
    return [[float(x) for x in res.data[k].ravel().tolist()] for k in range(len(case['stats']))]


K_SQ = 'dask-sum-squares-int-overflow'
K_F53 = 'dask-zone-ids-compared-as-float'


def float_collision_class(case):
    """Dask backend and a requested id that differs from a present zone id but rounds to the same float64 (ids above 2**53)"""
    if case.get('backend', 'numpy') != 'dask' or case['zone_ids'] is None:
        return False
    present = finite_zone_ids(case['zones'])
    return any(exact(r) != z and isfin(float(r)) and float(r) == float(z) for r in case['zone_ids'] for z in present)


def sumsq_overflow_class(case, stat=None):
    """Dask backend, integer values whose square does not fit the values dtype, and std / var requested"""
    if case.get('backend', 'numpy') != 'dask' and case.get('fn') != 'stats_dask':
        return False
    vd = case['vdtype']
    if str(vd).startswith('float') or (stat is not None and stat not in ('std', 'var')):
        return False
    mx = np.iinfo(vd).max
    return any(isfin(v) and v * v > mx for row in case['values'] for v in row)


def has_neg_inf_zone(case):
    return any(z == -INF for row in case['zones'] for z in row)


def col_desc(case, col):
    r = reducer_of(case, col)
    return col if r == col else '%s (stats_funcs[%r] = user callable computing %s)' % (col, col, r)


def oracle(ctx, case, out):
    """the property text on the implementation's output; returns True when it holds"""
    zones, values, nodata = case['zones'], case['values'], case['nodata']
    nd = None if nodata is None else exact(nodata)
    key = 'neg-inf-zone-shifts-slices' if has_neg_inf_zone(case) else None
    exp_rows = requested_rows(zones, case['zone_ids'])
    if case['return_type'] == 'pandas.DataFrame':
        key0 = key
        got_ids = [r['zone'] for r in out]
        if got_ids != exp_rows and key is None and float_collision_class(case):
            key = K_F53
        if got_ids != exp_rows:
            ctx.violation('oracle', 'stats: rows are zones %r, expected the requested distinct finite zone ids %r (ascending)' % (
                got_ids, exp_rows), dict(case, got_rows=got_ids, expected_rows=exp_rows), key=key)
            return False
        for r in out:
            xs = zone_valid_values(zones, values, r['zone'], nd)
            for s in case['stats']:
                key = (K_SQ if sumsq_overflow_class(case, reducer_of(case, s)) else None) or key0
                if not stat_matches(reducer_of(case, s), r[s], xs, case['vdtype']):
                    ctx.violation('oracle', 'stats: zone %r %s = %r but its valid cells are %r' % (
                        r['zone'], col_desc(case, s), r[s], [float(x) for x in xs]),
                        dict(case, zone=r['zone'], stat=s, got=r[s], valid_cells=[float(x) for x in xs]), key=key)
                    return False
        return True
    flat_z = [z for row in zones for z in row]
    for k, s in enumerate(case['stats']):
        for j, z in enumerate(flat_z):
            g = out[k][j]
            if isfin(z) and z in exp_rows:
                xs = zone_valid_values(zones, values, z, nd)
                ok = stat_matches(reducer_of(case, s), g, xs, case['vdtype'])
            else:
                ok = math.isnan(g)
            if not ok:
                ctx.violation('oracle', 'stats(DataArray): cell %d (zone %r) carries %s = %r' % (j, z, col_desc(case, s), g),
                              dict(case, cell=j, zone=z, stat=s, got=g), key=key)
                return False
    return True


MODEL_COLS = ['zone', 'count', 'sum', 'min', 'max', 'mean', 'var', 'double_sum', 'ptp']


def parse_num(t):
    if t == 'nan':
        return None
    if '/' in t:
        a, b = t.split('/')
        return Fraction(int(a, 0), int(b, 0))
    return Fraction(int(t, 0))


def model_line(case):
    s = zone_scale(case['zones'], [z for z in (case['zone_ids'] or []) if isfin(float(z))])
    op = 'df' if case['return_type'] == 'pandas.DataFrame' else 'ra'
    return '%s %s %s %s' % (op, nodata_tok(case['nodata']), ids_tok(case['zone_ids'], s), cells_tok(case['zones'], case['values'], s)), s


def close_q(name, got, q, vdtype):
    """implementation float vs model exact value (None = NaN)"""
    if q is None:
        return isinstance(got, float) and math.isnan(got)
    if isinstance(got, float) and (math.isnan(got) or math.isinf(got)):
        return False
    if name in EXACT:
        return Fraction(got) == q
    tol = TOL.get(vdtype, 1e-9)
    e = math.sqrt(q) if name == 'std' else float(q)
    return abs(got - e) <= tol * (1.0 + abs(e))


def compare_model(ctx, case, out, mo, s):
    if mo.startswith('ERR'):
        ctx.violation('correspondence', 'model returned %s' % mo[:80], case)
        return
    key = 'neg-inf-zone-shifts-slices' if has_neg_inf_zone(case) else None
    if case['return_type'] == 'pandas.DataFrame':
        rows = [g.split() for g in mo.split(';')] if mo.strip() else []
        if len(rows) != len(out) and key is None and float_collision_class(case):
            key = K_F53
        if len(rows) != len(out):
            ctx.violation('correspondence', 'stats: implementation has %d rows, model %d' % (len(out), len(rows)),
                          dict(case, impl=out, model=mo), key=key)
            return
        for r, m in zip(out, rows):
            md = dict(zip(MODEL_COLS, m))
            if not xvio.same(r['zone'], xvio.parse(md['zone'], s)):
                ctx.violation('correspondence', 'stats: row zone %r vs model %s' % (r['zone'], md['zone']),
                              dict(case, impl=out, model=mo), key=key)
                return
            for col in case['stats']:
                st = reducer_of(case, col)
                if key is None and sumsq_overflow_class(case, st):
                    key = K_SQ
                q = parse_num(md['var' if st == 'std' else st])
                if not close_q(st, r[col], q, case['vdtype']):
                    ctx.violation('correspondence', 'stats: zone %r %s: implementation %r vs model %s' % (
                        r['zone'], col_desc(case, col), r[col], md['var' if st == 'std' else st]), dict(case, impl=out, model=mo), key=key)
                    return
        return
    parts = [p.split() for p in mo.split(';')]
    cols = dict(zip(['sum', 'max', 'mean'], parts))
    for k, col in enumerate(case['stats']):
        st = reducer_of(case, col)
        if st not in cols:
            continue
        if len(cols[st]) != len(out[k]):
            ctx.violation('correspondence', 'stats(DataArray): %d cells vs model %d' % (len(out[k]), len(cols[st])), case, key=key)
            return
        for j, (g, t) in enumerate(zip(out[k], cols[st])):
            if not close_q(st, g, parse_num(t), case['vdtype']):
                ctx.violation('correspondence', 'stats(DataArray): cell %d %s: implementation %r vs model %s' % (j, st, g, t),
                              dict(case, cell=j, impl=g, model=t), key=key)
                return


def nontrivial(case):
    nd = None if case['nodata'] is None else float(case['nodata'])
    return any(zone_valid_values(case['zones'], case['values'], z, nd) for z in finite_zone_ids(case['zones']))


# --------------------------------------------------------------------------- appended "theme" streams (round-5 audit)
ODD64 = [0.1, 0.5, 2.0 ** -30, 2.0 ** -120, 1e100, float(2 ** 24 + 1), 1.0 + 1e-9, 1.0, -0.1, 3.0e9, float(2 ** 53 + 2)]
ODD32 = [0.1, 0.5, 2.0 ** -30, 2.0 ** -120, 1e30, float(2 ** 24 + 2), 1.0 + 2.0 ** -20, 1.0, -0.1, 3.0e9]


def gen_theme_case(rng, i, backend='numpy'):
    """one appended case per audit theme (i selects the theme); see RULE"""
    theme = ['layout', 'containers', 'nostats', 'float16', 'oddfloat', 'degenerate'][i % 6]
    case = gen_dask_case(rng, i) if backend == 'dask' else gen_case(rng, True, i)
    case.pop('funcs', None)
    if any(s not in ALL_STATS for s in case['stats']):
        case['stats'] = ['sum', 'count']
    case['theme'] = theme
    rows, cols = len(case['zones']), len(case['zones'][0])
    if theme == 'layout':
        case['zlayout'], case['vlayout'] = rng.choice(LAYOUTS6), rng.choice(['R', 'W', 'R', 'W', 'F', 'S'])
        if rng.random() < 0.5:
            case['zlayout'], case['vlayout'] = case['vlayout'], case['zlayout']
    elif theme == 'containers':
        present = finite_zone_ids(case['zones'])
        ids = [z for z in present if float(z) == int(z) and abs(z) < 100] or [1.0]
        ids = rng.sample(ids, rng.randint(1, len(ids))) + ([11.0] if rng.random() < 0.4 else [])
        how = rng.choice(['tuple', 'ndarray:int64', 'ndarray:float32', 'ndarray:float64', 'ndarray:int16', 'tuple'])
        if how in ('ndarray:int16', 'ndarray:int64') or rng.random() < 0.5:
            ids = [int(z) for z in ids]
        if rng.random() < 0.1 and backend != 'dask':
            ids = []
        rng.shuffle(ids)
        case['zone_ids'], case['ids_as'] = ids, how
        if backend == 'dask' and not any(z in present for z in ids):
            case['zone_ids'] = None
            case.pop('ids_as')
        u = rng.random()
        vals = [v for row in case['values'] for v in row if isfin(v)]
        if u < 0.3:
            case['nodata'] = 0.0                                     # falsy float
        elif vals:
            case['nodata'] = rng.choice(vals)
            case['nodata_as'] = rng.choice(['float32', 'float64', 'int64', 'int8' if -100 < case['nodata'] < 100 else 'int64'])
    elif theme == 'nostats':
        case['stats'] = []
        if backend != 'dask' and rng.random() < 0.5:
            case['return_type'] = 'xarray.DataArray'
        if rng.random() < 0.5:
            case['empty_dict'] = True if backend != 'dask' else False
    elif theme == 'float16':
        case['vdtype'] = 'float16'        # numba cannot compile _strides for float16 ZONES (NotImplementedError): values only
        case['values'] = gen_values(rng, rows, cols, 'float16')
        case['nodata'] = None if rng.random() < 0.5 else 0
    elif theme == 'oddfloat':
        vd = rng.choice(['float64', 'float32'])
        pool = ODD64 if vd == 'float64' else ODD32
        alph = rng.sample(pool, rng.randint(2, 5))
        values = [[rng.choice(alph) if rng.random() > 0.08 else NAN for _ in range(cols)] for _ in range(rows)]
        values = to_floats(np_array(values, vd))                    # the logical values are the cast ones
        flat = [v for row in values for v in row if isfin(v)]
        case.update(values=values, vdtype=vd, stats=rng.sample(['count', 'min', 'max', 'sum', 'mean'], rng.randint(1, 4)),
                    oracle_only=True, nodata=None, return_type='pandas.DataFrame')
        case.pop('nodata_as', None)
        if flat and rng.random() < 0.7:
            v0 = rng.choice(flat)
            t = np.dtype(vd).type
            # nodata equal to a cell value, or one ulp below / above it, in the cells' OWN dtype
            nd = rng.choice([t(v0), np.nextafter(t(v0), t(np.inf)), np.nextafter(t(v0), t(-np.inf))])
            case['nodata'], case['nodata_as'] = float(nd), vd
    else:
        kind = rng.choice(['1x1', '2x2', 'all-nan-values', 'all-equal', 'single-valid-cell', 'all-zones-nonfinite'])
        case['degenerate'] = kind
        if kind in ('1x1', '2x2'):
            n = 1 if kind == '1x1' else 2
            case['zones'] = [row[:n] for row in (case['zones'] * 2)[:n]]
            case['values'] = [row[:n] for row in (case['values'] * 2)[:n]]
            if len(case['zones'][0]) < n:
                case['zones'] = [[1.0] * n for _ in range(n)]
                case['values'] = [[float(rng.randint(0, 5)) for _ in range(n)] for _ in range(n)]
        fl = case['vdtype'].startswith('float')
        rows, cols = len(case['zones']), len(case['zones'][0])
        if kind == 'all-nan-values':
            case['vdtype'] = 'float64'
            case['values'] = [[NAN] * cols for _ in range(rows)]
        elif kind == 'all-equal':
            v0 = case['values'][0][0] if isfin(case['values'][0][0]) else 3.0
            case['values'] = [[v0] * cols for _ in range(rows)]
            z0 = case['zones'][0][0] if isfin(case['zones'][0][0]) else 1.0
            case['zones'] = [[z0] * cols for _ in range(rows)]
        elif kind == 'single-valid-cell':
            case['vdtype'] = 'float32'
            case['values'] = [[NAN] * cols for _ in range(rows)]
            case['values'][rng.randrange(rows)][rng.randrange(cols)] = float(rng.randint(-5, 5))
            case['nodata'] = None
        elif kind == 'all-zones-nonfinite' and backend != 'dask':
            case['zdtype'] = 'float32'
            case['zones'] = [[rng.choice([NAN, INF, -INF]) for _ in range(cols)] for _ in range(rows)]
        if backend == 'dask':
            case['zchunks'] = [composition(rng, rows, 2), composition(rng, cols, 2)]
            case['vchunks'] = case['zchunks']
    if backend == 'dask':
        present = finite_zone_ids(case['zones'])
        if not present:
            case['zones'][0][0] = 1.0
        elif case['zone_ids'] is not None and not any(exact(z) in present for z in case['zone_ids']):
            case['zone_ids'] = None
            case.pop('ids_as', None)
    return case


def oracle_loose(ctx, case, out):
    """non-integer values (0.1, 2**-120, 1e100, ...): count/min/max exact, sum/mean to rounding relative to sum(|x|)"""
    nd = case['nodata']
    exp_rows = requested_rows(case['zones'], case['zone_ids'])
    if [r['zone'] for r in out] != exp_rows:
        ctx.violation('oracle', 'stats: rows are zones %r, expected %r' % ([r['zone'] for r in out], exp_rows), case)
        return False
    tol = 1e-5 if case['vdtype'] == 'float32' else 1e-12
    for r in out:
        xs = zone_valid_values(case['zones'], case['values'], r['zone'], nd)
        for st in case['stats']:
            g = r[st]
            if not xs:
                ok = math.isnan(g)
            elif st in ('count', 'min', 'max'):
                ok = not math.isnan(g) and Fraction(g) == exact_stat(st, xs)
            else:
                scale = float(sum(abs(x) for x in xs)) / (len(xs) if st == 'mean' else 1)
                ok = not math.isnan(g) and abs(g - float(exact_stat(st, xs))) <= tol * scale + 1e-300
            if not ok:
                ctx.violation('oracle', 'stats: zone %r %s = %r but its valid cells are %r (nodata %r as %s)' % (
                    r['zone'], st, g, [float(x) for x in xs], nd, case.get('nodata_as')), dict(case, zone=r['zone'], stat=st, got=g))
                return False
    return True


def _nan_equal(a, b):
    a, b = np.asarray(a), np.asarray(b)
    return a.shape == b.shape and a.dtype == b.dtype and bool(np.all((a == b) | ((a != a) & (b != b))))


def run_sequence(ctx, case):
    """call sequences: the same call twice, inputs (data, coords, attrs) unchanged, then the call on rasters DERIVED from
    the processed ones at the xarray level (isel, astype, copy, assign_coords) - all against the same oracle"""
    from xrspatial.zonal import stats
    rows, cols = len(case['zones']), len(case['zones'][0])
    ys = [10.5 - 0.25 * r for r in range(rows)]             # descending, fractional, non-zero origin
    xs = [-3.0e6 + 1.0e6 * c for c in range(cols)]          # negative, large spacing, x != y spacing
    attrs = {'res': (1.0e6, 0.25), 'crs': 'EPSG:4326', 'nodata': -1}
    z = xr.DataArray(layout_array(case['zones'], case['zdtype'], case.get('zlayout', 'C')), dims=['lat', 'lon'],
                     coords={'lat': ys, 'lon': xs}, attrs=dict(attrs), name='zones')
    v = xr.DataArray(layout_array(case['values'], case['vdtype'], case.get('vlayout', 'C')), dims=['lat', 'lon'],
                     coords={'lat': ys, 'lon': xs}, attrs=dict(attrs), name='values')
    snap = [(a.data.copy(), {k: c.values.copy() for k, c in a.coords.items()}, dict(a.attrs), a.dtype, a.dims) for a in (z, v)]

    def call(zz, vv, sub):
        res = stats(zones=zz, values=vv, zone_ids=sub['zone_ids'], stats_funcs=stats_arg(sub), nodata_values=sub['nodata'],
                    return_type=sub['return_type'])
        if sub['return_type'] == 'pandas.DataFrame':
            return [dict((c, num(res[c].iloc[i]) if c == 'zone' else float(res[c].iloc[i])) for c in res.columns) for i in range(len(res))]
        return [[float(x) for x in res.data[k].ravel().tolist()] for k in range(len(sub['stats']))]

    def unchanged(step):
        for a, (d, cs, at, dt, dm) in zip((z, v), snap):
            if not (_nan_equal(a.data, d) and dict(a.attrs) == at and a.dtype == dt and a.dims == dm and
                    all(np.array_equal(a.coords[k].values, cs[k]) for k in cs) and set(a.coords) == set(cs)):
                ctx.violation('oracle', 'stats modified its input %s (data / coords / attrs) during %s' % (a.name, step),
                              dict(case, step=step))
                return False
        return True

    try:
        out1 = call(z, v, case)
        if not unchanged('the first call'):
            return
        out2 = call(z, v, case)
        if not unchanged('the repeated call'):
            return
        if json_key(out1) != json_key(out2):
            ctx.violation('oracle', 'stats: the same call repeated gives a different table', dict(case, first=out1, second=out2))
            return
        if not oracle(ctx, case, out1):
            return
        # derived rasters
        r0, c0 = (1 if rows > 1 else 0), (1 if cols > 1 else 0)
        derived = [
            ('isel', z.isel(lat=slice(r0, None), lon=slice(c0, None)), v.isel(lat=slice(r0, None), lon=slice(c0, None)), r0, c0),
            ('copy+assign_coords', z.copy().assign_coords(lat=ys[::-1]), v.copy(deep=True).assign_coords(lon=[x + 7 for x in xs]), 0, 0),
            ('astype(float64)', z.astype('float64'), v.astype('float64'), 0, 0),
            ('reversed isel', z.isel(lat=slice(None, None, -1)), v.isel(lat=slice(None, None, -1)), -1, 0),
        ]
        for name, zz, vv, rr, cc in derived:
            if rr == -1:
                sub = dict(case, zones=case['zones'][::-1], values=case['values'][::-1])
            else:
                sub = dict(case, zones=[row[cc:] for row in case['zones'][rr:]], values=[row[cc:] for row in case['values'][rr:]])
            if name.startswith('astype'):
                sub = dict(sub, zdtype='float64', vdtype='float64')
            n0 = len(ctx.violations)
            oracle(ctx, sub, call(zz, vv, sub))
            for vio in ctx.violations[n0:]:
                vio['what'] = '[call on rasters derived by %s from already-processed ones] %s' % (name, vio['what'])
                vio['replay'] = dict(case, derived=name)
            if not unchanged('the call on the %s rasters' % name):
                return
    except Exception as e:      # noqa
        ctx.violation('oracle', 'stats raised %s: %s in a call sequence' % (type(e).__name__, e), case)


def json_key(o):
    import json
    return json.dumps(o, sort_keys=True, default=str)


def _eval_dask(case):
    import warnings
    warnings.filterwarnings('ignore')
    try:
        return run_impl(case)
    except Exception as e:      # noqa
        return ('raised', '%s: %s' % (type(e).__name__, str(e)[:200]))


def run(ctx, n=None, n_dask=None):
    rng = ctx.rng
    n = n or (2500 if ctx.quick() else 25000)
    pending = []
    nbig = max(20, n // 25)
    for i in range(n + nbig):
        case = gen_case(rng, ctx.quick(), i) if i < n else gen_big_case(rng, i)
        if case.get('bigids'):
            ctx.count('hard/zone-ids-above-2^24-or-2^53/%s' % case['zdtype'])
        if case['return_type'] == 'xarray.DataArray' and not case.get('funcs') and not set(case['stats']) & {'sum', 'max', 'mean'}:
            case['stats'] = case['stats'] + ['sum'] if all(s in ALL_STATS for s in case['stats']) else case['stats']
        ctx.case(case, nontrivial=nontrivial(case))
        ctx.count('%s/z=%s/v=%s/%s/%s' % ('df' if case['return_type'] == 'pandas.DataFrame' else 'raster', case['zdtype'],
                                           case['vdtype'], 'ids' if case['zone_ids'] is not None else 'all',
                                           'dict-colliding-keys' if any(c in ALL_STATS and f != c for c, f in (case.get('funcs') or {}).items())
                                           else ('dict' if (case.get('funcs') or case['stats'][0] in CUSTOM) else 'list')))
        ctx.count('layout/zones=%s/values=%s' % (case['zlayout'], case['vlayout']))
        if has_neg_inf_zone(case):
            ctx.count('hard/-inf-zone-cell')
        try:
            out = run_impl(case)
        except Exception as e:
            ctx.violation('oracle', 'stats raised %s: %s' % (type(e).__name__, e), case,
                          key='neg-inf-zone-shifts-slices' if has_neg_inf_zone(case) else None)
            continue
        oracle(ctx, case, out)
        line, s = model_line(case)
        pending.append((line, s, case, out))
    # ---- Dask-backed stream: same oracle, same model (evaluated in a small worker pool) ----
    nd = n_dask if n_dask is not None else (96 if ctx.quick() else 900)
    dcases = [gen_dask_case(rng, i) for i in range(nd)] + [gen_big_case(rng, i, 'dask') for i in range(max(8, nd // 8))]
    dcases += [gen_chunk_case(rng, i) for i in range(max(16, nd // 5))]       # appended: irregular zones/values chunk pairs
    if dcases:
        with mp.get_context('fork').Pool(min(6, int(os.environ.get('VERIF_POOL', '6')))) as pool:
            douts = pool.map(_eval_dask, dcases, chunksize=2)
        for case, out in zip(dcases, douts):
            ctx.case(case, nontrivial=nontrivial(case))
            nd_ = None if case['nodata'] is None else float(case['nodata'])
            empty = any(not zone_valid_values(case['zones'], case['values'], z, nd_)
                        for z in requested_rows(case['zones'], case['zone_ids']))
            if case.get('chunkmode'):
                ctx.count('dask/irregular-chunk-pairs/%s' % case['chunkmode'])
            ctx.count('dask/blocks=%d/%s%s' % (len(case['zchunks'][0]) * len(case['zchunks'][1]),
                                               'same-chunks' if case['zchunks'] == case['vchunks'] else 'values-chunked-differently',
                                               '/selected-zone-without-valid-cell' if empty else ''))
            if isinstance(out, tuple):
                ctx.violation('oracle', 'stats (dask, chunks %r) raised %s' % (case['zchunks'], out[1]), case,
                              key='neg-inf-zone-shifts-slices' if has_neg_inf_zone(case) else None)
                continue
            oracle(ctx, case, out)
            line, s = model_line(case)
            pending.append((line, s, case, out))
    # ---- appended theme streams (layouts R/W, id containers / numpy-scalar nodata, no statistics, float16 values,
    #      non-integer values with nodata one ulp around a cell, degenerate rasters, call sequences) ----
    if n_dask is None:
        nt, ntd, nseq = (150, 18, 36) if ctx.quick() else (3000, 240, 600)
        tcases = [gen_theme_case(rng, i) for i in range(nt)]
        tdask = [gen_theme_case(rng, i, 'dask') for i in range(ntd)]
        with mp.get_context('fork').Pool(min(6, int(os.environ.get('VERIF_POOL', '6')))) as pool:
            tdouts = pool.map(_eval_dask, tdask, chunksize=2)
        for case, out in list(zip(tcases, [None] * len(tcases))) + list(zip(tdask, tdouts)):
            ctx.case(case, nontrivial=nontrivial(case))
            ctx.count('theme/%s/%s%s' % (case['backend'], case['theme'], '/' + case['degenerate'] if case.get('degenerate') else ''))
            if out is None:
                out = _eval_dask(case)
            if isinstance(out, tuple):
                ctx.violation('oracle', 'stats (%s, theme %s) raised %s' % (case['backend'], case['theme'], out[1]), case)
                continue
            if case.get('oracle_only'):
                oracle_loose(ctx, case, out)
                continue
            oracle(ctx, case, out)
            line, s = model_line(case)
            pending.append((line, s, case, out))
        for i in range(nseq):
            case = gen_case(rng, True, i)
            case['theme'] = 'sequence'
            ctx.case(case, nontrivial=nontrivial(case))
            ctx.count('theme/numpy/sequence(repeat, inputs unchanged, derived rasters, coords+attrs)')
            run_sequence(ctx, case)
    if ctx.model is not None and pending:
        outs = ctx.model.run([p[0] for p in pending])
        for (line, s, case, out), mo in zip(pending, outs):
            ctx.traces += 1
            compare_model(ctx, case, out, mo, s)
    ctx.exhaustive = False


def search(ctx):
    old, model = ctx.tier, ctx.model
    ctx.tier, ctx.model = 'thorough', None
    try:
        run(ctx, n=6000, n_dask=200)
    finally:
        ctx.tier, ctx.model = old, model


def replay_case(ctx, case):
    case = dict(case)
    for k in ('zones', 'values', 'zone_ids', 'nodata'):
        case[k] = unjson(case.get(k))
    ctx.case(case)
    for k in ('derived', 'step', 'first', 'second'):
        case.pop(k, None)
    if case.get('theme') == 'sequence':
        run_sequence(ctx, case)
        return
    try:
        out = run_impl(case)
    except Exception as e:
        ctx.violation('oracle', 'stats raised %s: %s' % (type(e).__name__, e), case,
                      key='neg-inf-zone-shifts-slices' if has_neg_inf_zone(case) else None)
        return
    (oracle_loose if case.get('oracle_only') else oracle)(ctx, case, out)
