"""C18 — trim and crop return the minimal window, cells and coordinates intact.
Correspondence: xrspatial.zonal._trim/trim/_crop/crop vs the extracted Coq model coq/C18/Model.v (bounds, sliced cells,
sliced coordinate vectors); oracle: the property text evaluated by brute force on the implementation's return value."""
import itertools
import math

import numpy as np
import xarray as xr

from harness import xvio

ID = 'C18'
RULE = ('trim: for every subset of the four borders a raster (1..7 x 1..7, incl. 1xN / Nx1; float64/float32/int64/int32/uint8) '
        'whose kept cells span a window touching exactly those borders, exclusion sets {default (nan,), (0,), (0.0,nan), '
        '(nan,inf), two/three numbers, lists}, plus fully random rasters and all-excluded rasters (outside the premise: '
        'correspondence only); crop: the same layouts for the listed zone ids on a zones raster, values raster of the same '
        'shape (and a few smaller ones: positional clamped slice), id lists with several ids up to 20, unsorted / repeated / far apart '
        '([1,8], (8,1), [8,1,8], (17,8,1), ...); index coordinates are random increasing/decreasing dyadic numbers and most rasters '
        'also carry non-index coordinates (scalar spatial_ref/band, 2-D lon(y,x), 1-D auxiliary coords along y and x) — ALL coordinates '
        'of the result are compared with the original restricted to the window; attrs a small dict. Also: cells NEAR a listed number '
        '(3e-9 vs 0.0, 100001 vs 100000, -9999.01 vs -9999, 2.000002 vs 2.0) as the only kept cells (trim) / as neighbouring zones (crop), '
        'ids > 2**24, the empty exclusion list, tuple / list / ndarray arguments, int8..uint64 and bool rasters, 15..40-wide rasters, four '
        'dimension namings, rasters without coordinate labels, repeated / descending labels, the name argument. Memory layouts: the same '
        'logical raster C-/F-contiguous, as a transposed view, as a strided+reversed view (read-only, byte-swapped), for every border subset. Thorough tier adds every raster over {0,1,NaN} up to 3x3 for three exclusion sets. '
        'A case is non-trivial when at least one cell is kept and at least one is excluded.')
TRUSTED = [
    'finite cell values / exclusion values / coordinates of one case are embedded into Z by a common power-of-two scale '
    '(exact, order- and equality-preserving); the model only tests equality and NaN-ness',
    'xarray positional slicing raster[top:bottom+1, left:right+1] is modelled as firstn/skipn on the cell rows and on both '
    'coordinate vectors (attrs/dims/name are checked by the Python oracle only)',
    'Numba typing of `e == val` between the exclusion tuple and the raster dtype (promotion to float64/int64) is taken to be '
    'exact value equality — true for the generated magnitudes (< 2^53)',
]
ASSUMPTIONS = ['native byte order (Numba rejects byte-swapped arrays with a TypingError in every kernel: counted, not a violation); NumPy backend; homogeneous exclusion / id tuples (Numba rejects mixed int/float tuples); 2-D rasters',
               'the theorems\' premise: at least one cell is kept (trim) / selected (crop); for crop the values raster has '
               'the zones raster\'s shape']
PARTIAL = [
    'attrs / dims / name preservation by the xarray wrappers: Python oracle only (not a Coq statement)',
    'crop with a values raster of a different shape than zones: correspondence + oracle only (the Coq theorem assumes equal shapes)',
    'no kept cell at all (outside the property\'s premise): C18_nothing_kept_bounds records the bounds; the resulting '
    '(usually empty) slice is compared by correspondence only',
]
LEVEL_TEXT = ('Proved for all raster shapes and all inputs (induction over the scan loops, axiom-free): each of the four directional '
              'scans of _trim/_crop returns the first/last row/column holding a kept cell; the window contains every kept cell, each '
              'of its four border lines holds a kept cell, and it is the least such window; the fixed NaN-aware membership keeps '
              'a cell iff its value is not listed (NaN excluded when listed); the slice has shape (b-t+1, r-l+1) and preserves '
              'cells and both coordinate vectors by position, for trim and for crop w.r.t. the zones raster. '
              'The unfixed `e == val` membership is refuted universally (any all-NaN raster is returned whole) and on the §7 witness. '
              'attrs/dims/name and unequal-shape crop are covered by correspondence and the oracle only.')
LEVEL_NOTE = ('Trusted: the Coq kernel, extraction, the OCaml driver, the value embedding into Z, the list model of xarray slicing, '
              'and that Numba compiles the loops of _trim/_crop as written.')

KEY_NAN = 'trim-nan-never-excluded'
KEY_EMPTY = 'trim-empty-values-typing-error'
DTYPES = ['float64', 'float32', 'int64', 'int32', 'uint8']
MORE_DTYPES = ['int8', 'int16', 'uint16', 'uint32', 'uint64', 'bool']
DIMS = [('y', 'x'), ('y', 'x'), ('lat', 'lon'), ('row', 'col'), ('x', 'y')]
NAN = float('nan')


def _impl():
    from xrspatial import zonal
    return zonal


# --------------------------------------------------------------------------- helpers
def isnan(v):
    return isinstance(v, float) and math.isnan(v)


def same_val(a, b):
    return (isnan(a) and isnan(b)) or a == b


def to_floats(a):
    return [[float(v) for v in row] for row in np.asarray(a).tolist()]


def build_values(vals, as_int, kind, vdt=None):
    """the `values` / `zones_ids` argument as the caller would write it"""
    vs = [int(v) for v in vals] if as_int else [float(v) for v in vals]
    if kind == 'ndarray':
        return np.array(vs, dtype=vdt or ('int64' if as_int else 'float64'))
    return tuple(vs) if kind == 'tuple' else list(vs)


def values_arg(case):
    return build_values(case['values'], case['as_int'], case['kind'], case.get('vals_dtype'))


def to_vals(a, exact=False):
    """cells as python numbers: floats, or (exact=True, integer rasters) python ints so that ids above 2**53 stay exact"""
    if exact and np.asarray(a).dtype.kind in 'iu':
        return [[int(v) for v in row] for row in np.asarray(a).tolist()]
    return to_floats(a)


def num_list(vals, exact):
    return [int(v) for v in vals] if exact else [float(v) for v in vals]


def name_kw(case):
    return {'name': case['name']} if case.get('name') is not None else {}


def snapshot(da):
    return (np.array(da.data, copy=True), {str(k): np.array(v.values, copy=True) for k, v in da.coords.items()},
            dict(da.attrs), da.name, tuple(da.dims), da.dtype)


def unchanged(da, snap):
    data, coords, attrs, name, dims, dtype = snap
    same = da.dtype == dtype and np.array_equal(np.asarray(da.data), data, equal_nan=(dtype.kind == 'f')) and \
        dict(da.attrs) == attrs and da.name == name and tuple(da.dims) == dims and set(map(str, da.coords)) == set(coords)
    return same and all(np.array_equal(np.asarray(da.coords[k].values), v) for k, v in coords.items())


LAYOUTS = ['C', 'F', 'T', 'strided', 'readonly', 'nonnative', 'reversed']


def apply_layout(a, layout):
    """the same logical 2-D array in another memory layout"""
    if layout == 'F':                       # column-major, owning
        return np.asfortranarray(a)
    if layout == 'T':                       # transposed view of a C-contiguous (cols, rows) array
        return np.ascontiguousarray(a.T).T
    if layout == 'strided':                 # every second row, columns reversed, of a larger array: neither C nor F contiguous
        base = np.full((2 * a.shape[0] + 1, a.shape[1] + 2), 3, dtype=a.dtype)
        view = base[1:2 * a.shape[0]:2, a.shape[1]:0:-1]
        view[...] = a
        return view
    if layout == 'reversed':                # a[::-1, ::-1] view (negative strides on both axes)
        return np.ascontiguousarray(a[::-1, ::-1])[::-1, ::-1]
    if layout == 'readonly':
        a = a.copy()
        a.setflags(write=False)
        return a
    if layout == 'nonnative':               # byte-swapped dtype (Numba refuses these loudly: see ASSUMPTIONS)
        return a.astype(a.dtype.newbyteorder()) if a.dtype.itemsize > 1 else a
    return a


def build_raster(data, dtype, ys, xs, attrs=None, aux=True, dims=('y', 'x'), layout='C', exact=False):
    """2-D raster with index coordinates along both dims and (aux=True) the non-index coordinates real rasters carry:
    scalar spatial_ref / band, a 2-D lon, and 1-D auxiliary coordinates along each dim; aux='nocoords': no coordinates at all."""
    a = np.array(data, dtype=dtype) if exact else np.array(data, dtype='float64')
    if a.ndim != 2:
        a = a.reshape(len(data), len(xs))
    a = apply_layout(a.astype(dtype), layout)
    rows, cols = a.shape
    dy, dx = dims
    if aux == 'nocoords':
        coords = {}
    else:
        coords = {dy: np.array(ys, dtype='float64'), dx: np.array(xs, dtype='float64')}
    if aux is True:
        coords['spatial_ref'] = 32633
        coords['band'] = 1
        coords['geo_lon'] = ((dy, dx), np.arange(rows * cols, dtype='float64').reshape(rows, cols) / 4.0 - 3.0)
        coords['row_id'] = ((dy,), 1000 + np.arange(rows))
        coords['col_w'] = ((dx,), 0.5 * np.arange(cols) + 7.0)
    return xr.DataArray(a, dims=list(dims), coords=coords, attrs=dict(attrs or {'res': 1, 'unit': 'm'}), name='src')


def raster_args(case):
    return dict(aux=case.get('aux', True), dims=tuple(case.get('dims', ('y', 'x'))), layout=case.get('layout', 'C'), exact=bool(case.get('exact')))


def listed(v, vals, nan_aware):
    """membership of a cell value in a list of numbers; NaN is a member iff listed and nan_aware"""
    for e in vals:
        if e == v or (nan_aware and isnan(e) and isnan(v)):
            return True
    return False


def span(mask):
    """(top, bottom, left, right) of the True cells of a boolean grid, by brute force; None if there are none"""
    pts = [(y, x) for y, row in enumerate(mask) for x, m in enumerate(row) if m]
    if not pts:
        return None
    return (min(p[0] for p in pts), max(p[0] for p in pts), min(p[1] for p in pts), max(p[1] for p in pts))


def coords_of(res, dim):
    return [float(v) for v in np.asarray(res[dim].values).tolist()]


def check_window_oracle(ctx, what, case, res, src, win, key=None):
    """property text: `res` must be the contiguous slice src[win] — shape, cells, coordinates, attrs, dims."""
    t, b, l, r = win
    sdata = to_vals(src.data, case.get('exact'))
    exp = [row[l:r + 1] for row in sdata[t:b + 1]]
    got = to_vals(res.data, case.get('exact')) if res.ndim == 2 else None
    exp_shape = (max(0, b - t + 1), max(0, r - l + 1))

    def bad(msg, **kw):
        ctx.violation('oracle', '%s: %s' % (what, msg), dict(case, expected_window=list(win), **kw), key=key)
        return False
    if got is None or tuple(res.shape) != exp_shape:
        return bad('result shape %r, but the minimal window rows %d..%d cols %d..%d has shape %r' % (
            tuple(res.shape), t, b, l, r, exp_shape), got_shape=list(res.shape))
    for i, (rg, re_) in enumerate(zip(got, exp)):
        for j, (g, e) in enumerate(zip(rg, re_)):
            if not same_val(g, e):
                return bad('cell (%d,%d) of the result is %r, the original at (%d,%d) is %r' % (i, j, g, t + i, l + j, e))
    # every coordinate of the original (index, scalar, auxiliary 1-D, 2-D), restricted to the window by position
    win_slice = {src.dims[0]: slice(t, b + 1), src.dims[1]: slice(l, r + 1)}
    missing = sorted(set(map(str, src.coords)) - set(map(str, res.coords)))
    extra = sorted(set(map(str, res.coords)) - set(map(str, src.coords)))
    if missing or extra:
        return bad('coordinates of the original are not carried by the result: missing %r, unexpected %r' % (missing, extra),
                   missing=missing, unexpected=extra)
    for cname in src.coords:
        c = src.coords[cname]
        expc = np.asarray(c.values)[tuple(win_slice[d] for d in c.dims)]
        gotc = res.coords[cname]
        same = tuple(gotc.dims) == tuple(c.dims) and np.asarray(gotc.values).shape == expc.shape and \
            bool(np.all((np.asarray(gotc.values) == expc) | ((expc != expc) & (np.asarray(gotc.values) != np.asarray(gotc.values)))))
        if not same:
            return bad('coordinate %r of the result %r (dims %r) is not the original restricted to the window: %r' % (
                str(cname), np.asarray(gotc.values).tolist(), tuple(gotc.dims), expc.tolist()), coordinate=str(cname))
    if dict(res.attrs) != dict(src.attrs) or tuple(res.dims) != tuple(src.dims) or res.dtype != src.dtype:
        return bad('attrs/dims/dtype changed: %r %r %r' % (dict(res.attrs), res.dims, res.dtype))
    return True


# --------------------------------------------------------------------------- running one case
def run_trim(ctx, zonal, case):
    """returns (model_line, expectation tuple for the correspondence) or None"""
    vals = case['values']
    src = build_raster(case['data'], case['dtype'], case['ys'], case['xs'], **raster_args(case))
    data = to_vals(src.data, case.get('exact'))
    snap = snapshot(src) if case.get('sequence') else None
    try:
        kw = name_kw(case)
        if vals is None:
            excl = [NAN]
            res = zonal.trim(src, **kw)
        else:
            excl = num_list(vals, case.get('exact'))
            res = zonal.trim(src, values=values_arg(case), **kw)
    except Exception as e:
        if case.get('layout') == 'nonnative' and type(e).__name__ == 'TypingError':
            ctx.count('layout/nonnative-rejected-by-numba')       # loud refusal of a byte-swapped array: outside the domain
            return None
        ctx.violation('oracle', 'trim(values=%r) raised %s: %s' % (vals, type(e).__name__, str(e)[:200]), case,
                      key=KEY_EMPTY if (vals is not None and len(vals) == 0 and case['kind'] in ('tuple', 'list')) else None)
        return None
    if res.name != (case['name'] if case.get('name') is not None else 'trim'):
        ctx.violation('oracle', 'trim(name=%r): result is named %r' % (case.get('name'), res.name), case)
    if snap is not None:
        # call sequences: the input is untouched, the same call again gives the same raster, and trimming the
        # already trimmed raster (a raster derived by slicing) changes nothing
        kwv = {} if vals is None else {'values': values_arg(case)}
        if not unchanged(src, snap):
            ctx.violation('oracle', 'trim(values=%r) modified its input raster (data/coords/attrs/name)' % (vals,), case)
        again = zonal.trim(src, **kwv, **kw)
        twice = zonal.trim(res, **kwv, **kw) if res.size else res
        if not again.identical(res):
            ctx.violation('oracle', 'trim(values=%r): the same call repeated gives a different raster' % (vals,), case)
        if not twice.identical(res):
            ctx.violation('oracle', 'trim(values=%r) of the already trimmed raster is not that raster: shape %r vs %r' % (
                vals, tuple(twice.shape), tuple(res.shape)), case)
    # oracle: the smallest window containing every cell whose value is not in the excluded set (NaN excluded when listed)
    keep = [[not listed(v, excl, True) for v in row] for row in data]
    win = span(keep)
    if win is not None:
        key = None
        if any(isnan(e) for e in excl):
            w2 = span([[not listed(v, excl, False) for v in row] for row in data])
            if w2 is not None and w2 != win and tuple(res.shape) == (w2[1] - w2[0] + 1, w2[3] - w2[2] + 1):
                key = KEY_NAN       # exactly the window obtained when NaN can never be excluded
        check_window_oracle(ctx, 'trim(values=%r, %s)' % (vals, case['dtype']), case, res, src, win, key=key)
    bounds = None
    try:
        arg = (NAN,) if vals is None else values_arg(case)
        bounds = [int(v) for v in zonal._trim(src.data, arg)]
    except Exception:
        bounds = None
    s = xvio.scale_for([v for row in data for v in row] + excl)
    cs = xvio.scale_for(case['ys'] + case['xs'])
    line = 'trim %s %s %s %s' % (xvio.lst(excl, s), xvio.grid(data, s) if data and data[0] else '%d %d' % (
        len(data), len(case['xs'])), xvio.lst(case['ys'], cs), xvio.lst(case['xs'], cs))
    return line, (s, cs, bounds, res, win)


def run_crop(ctx, zonal, case):
    ids = case['values']
    zones = build_raster(case['data'], case['dtype'], case['ys'], case['xs'], **raster_args(case))
    vshape = case.get('vshape') or [len(case['data']), len(case['xs'])]
    vy, vx = case['ys'][:vshape[0]], case['xs'][:vshape[1]]
    vdata = [row[:vshape[1]] for row in case['vdata'][:vshape[0]]]
    values = build_raster(vdata, case['vdtype'], vy, vx, attrs={'layer': 'values', 'k': 3},
                          **dict(raster_args(case), layout=case.get('vlayout', 'C')))
    zdata = to_vals(zones.data, case.get('exact'))
    fids = num_list(ids, case.get('exact'))
    snaps = (snapshot(zones), snapshot(values)) if case.get('sequence') else None
    try:
        kw = name_kw(case)
        res = zonal.crop(zones, values, values_arg(case), **kw)
        if res.name != (case['name'] if case.get('name') is not None else 'crop'):
            ctx.violation('oracle', 'crop(name=%r): result is named %r' % (case.get('name'), res.name), case)
        if snaps is not None:
            if not unchanged(zones, snaps[0]) or not unchanged(values, snaps[1]):
                ctx.violation('oracle', 'crop(zones_ids=%r) modified one of its input rasters' % (ids,), case)
            if not zonal.crop(zones, values, values_arg(case), **kw).identical(res):
                ctx.violation('oracle', 'crop(zones_ids=%r): the same call repeated gives a different raster' % (ids,), case)
            if tuple(zones.shape) == tuple(values.shape) and res.size:
                # rasters derived by slicing both inputs to the returned window: cropping them again changes nothing
                b = [int(v) for v in zonal._crop(zones.data, values_arg(case))]
                zw = zones[b[0]:b[1] + 1, b[2]:b[3] + 1]
                if not zonal.crop(zw, res, values_arg(case), **kw).identical(res):
                    ctx.violation('oracle', 'crop(zones_ids=%r) of the already cropped rasters is not the cropped raster' % (ids,), case)
    except Exception as e:
        if case.get('layout') == 'nonnative' and type(e).__name__ == 'TypingError':
            ctx.count('layout/nonnative-rejected-by-numba')
            return None
        ctx.violation('oracle', 'crop raised %s: %s' % (type(e).__name__, str(e)[:200]), case)
        return None
    sel = [[listed(v, fids, False) for v in row] for row in zdata]
    win = span(sel)
    if win is not None:
        # positional window of `values` (clamped to its own shape when it is smaller than zones)
        t, b, l, r = win
        cw = (min(t, vshape[0]), min(b, vshape[0] - 1), min(l, vshape[1]), min(r, vshape[1] - 1))
        check_window_oracle(ctx, 'crop(zones_ids=%r, %s)' % (ids, case['dtype']), case, res, values, cw)
    bounds = None
    try:
        bounds = [int(v) for v in zonal._crop(zones.data, values_arg(case))]
    except Exception:
        bounds = None
    vd = to_floats(values.data)
    s = xvio.scale_for([v for row in zdata for v in row] + fids + [v for row in vd for v in row])
    cs = xvio.scale_for(vy + vx)
    line = 'crop %s %s %s %s %s' % (xvio.lst(fids, s), xvio.grid(zdata, s), xvio.grid(vd, s) if vd and vd[0] else '%d %d' % (
        vshape[0], vshape[1]), xvio.lst(vy, cs), xvio.lst(vx, cs))
    return line, (s, cs, bounds, res, win)


def parse_model(mo, s, cs):
    tk = mo.split()
    it = iter(tk)
    bounds = [int(next(it), 0) for _ in range(4)]
    nr = int(next(it))
    rows = []
    for _ in range(nr):
        n = int(next(it))
        rows.append([xvio.parse(next(it), s) for _ in range(n)])
    ny = int(next(it))
    ys = [xvio.parse(next(it), cs) for _ in range(ny)]
    nx = int(next(it))
    xs = [xvio.parse(next(it), cs) for _ in range(nx)]
    return bounds, rows, ys, xs


def compare_with_model(ctx, pending):
    if ctx.model is None or not pending:
        return
    outs = ctx.model.run([p[0] for p in pending])
    for (line, (s, cs, bounds, res, win), case), mo in zip(pending, outs):
        ctx.traces += 1
        what = case['fn']
        if mo.startswith('ERR'):
            ctx.violation('correspondence', '%s: model returned %s' % (what, mo[:100]), case)
            continue
        mb, mrows, mys, mxs = parse_model(mo, s, cs)
        if bounds is not None and mb != bounds:
            ctx.violation('correspondence', '%s: bounds (top,bottom,left,right): implementation %r vs model %r' % (what, bounds, mb),
                          dict(case, impl_bounds=bounds, model_bounds=mb))
            continue
        got = to_vals(res.data, case.get('exact')) if res.ndim == 2 else []
        gy, gx = coords_of(res, res.dims[0]), coords_of(res, res.dims[1])
        if case.get('aux') == 'nocoords':      # no labels: xarray reports positions 0..n-1; compare the lengths only
            mys, mxs, gy, gx = [0] * len(mys), [0] * len(mxs), [0] * len(gy), [0] * len(gx)
        ok = len(got) == len(mrows) and len(gy) == len(mys) and len(gx) == len(mxs) and \
            all(len(a) == len(b) and all(xvio.same(u, v) for u, v in zip(a, b)) for a, b in zip(got, mrows)) and \
            all(xvio.same(u, v) for u, v in zip(gy, mys)) and all(xvio.same(u, v) for u, v in zip(gx, mxs))
        if not ok:
            ctx.violation('correspondence', '%s: sliced cells/coordinates differ: implementation shape %r y=%r x=%r vs model %s' % (
                what, tuple(res.shape), gy, gx, mo[:120]), dict(case, impl_shape=list(res.shape), model=mo[:400]))


# --------------------------------------------------------------------------- generators
EXCL_SETS = [
    # (values, as_int, kind)   None = the default (nan,)
    (None, False, 'tuple'),
    ([0], True, 'tuple'),
    ([0.0, NAN], False, 'tuple'),
    ([NAN], False, 'tuple'),
    ([0, 1], True, 'tuple'),
    ([NAN, float('inf')], False, 'tuple'),
    ([0], True, 'list'),
    ([2.0, NAN, 0.0], False, 'tuple'),
    ([1.5], False, 'tuple'),
    ([0.0, NAN], False, 'list'),
    # values NEAR an excluded one must be kept (3e-9 vs 0.0, 100001 vs 100000, -9999.01 vs -9999, 2.000002 vs 2.0)
    ([0.0], False, 'tuple'), ([100000], True, 'tuple'), ([-9999.0], False, 'tuple'), ([2.0, NAN], False, 'ndarray'),
    ([0], True, 'ndarray'), ([16777217], True, 'tuple'),
    ([], False, 'tuple'),        # nothing excluded: the whole raster
]
ID_SETS = [
    ([1], True, 'tuple'), ([1, 3], True, 'tuple'), ([2.0], False, 'tuple'), ([0], True, 'list'),
    ([1, 2, 3], True, 'tuple'), ([1.0, NAN], False, 'tuple'), ([2.5, 1.0], False, 'tuple'),
    # several ids, unsorted / repeated / far apart (order or multiplicity of the list must not matter)
    ([1, 8], True, 'list'), ([8, 1], True, 'tuple'), ([8, 1, 8], True, 'list'), ([1, 17], True, 'tuple'),
    ([17, 8], True, 'tuple'), ([1, 8, 17], True, 'tuple'), ([17, 8, 1], True, 'list'), ([0, 1, 8, 17], True, 'tuple'),
    ([12.0, 3.0], False, 'tuple'), ([20, 5, 11], True, 'tuple'), ([9, 16], True, 'tuple'),
    # zone ids NEAR a listed id are other zones; ids above 2**24; ndarray lists
    ([100000], True, 'tuple'), ([100000, 7], True, 'list'), ([2.0, 0.0], False, 'tuple'), ([16777217, 3], True, 'tuple'),
    ([1, 3], True, 'ndarray'), ([5.0], False, 'ndarray'), ([-9999.0, 4.0], False, 'tuple'),
]


def rand_coords(rng, n):
    step = rng.choice([1.0, 0.5, 2.0, 10.0, 0.25])
    start = float(rng.randint(-20, 20))
    c = [start + i * step for i in range(n)]
    if rng.random() < 0.4:
        c.reverse()
    if rng.random() < 0.15:      # repeated / non-monotone labels: slicing is positional, labels are just carried
        c = [rng.choice(c) for _ in range(n)]
    return c


def representable(v, dtype):
    if isnan(v) or math.isinf(v):
        return dtype.startswith('float')
    if dtype.startswith('float'):
        return dtype == 'float64' or float(np.float32(v)) == v or v != int(v)
    if v != int(v):
        return False
    if dtype == 'bool':
        return v in (0.0, 1.0)
    info = np.iinfo(dtype)
    return info.min <= v <= info.max


def near_values(vals, dtype):
    """numbers close to (within 1e-8 + 1e-5*|v| of) but different from a listed number, representable in dtype"""
    out = []
    for v in vals:
        if isnan(v) or math.isinf(v):
            continue
        if dtype.startswith('float'):
            out += [3e-9, -2e-9] if v == 0 else [v * (1 + 1e-6), v - abs(v) * 2e-6]
        elif abs(v) >= 1e5:
            out += [v + 1, v - 1]
    res = []
    for w in out:
        w = float(np.array(w, dtype='float64').astype(dtype)) if dtype != 'bool' and representable(w, dtype) else None
        if w is not None and not listed(w, vals, False) and w not in res:
            res.append(w)
    return res


def cell_pools(vals, dtype, want_listed_nan_aware):
    """values a cell may take: (excluded/listed pool, other pool) representable in dtype"""
    isf = dtype.startswith('float')
    cands = [0.0, 1.0, 2.0, 3.0, 4.0, 7.0]
    if isf:
        cands += [NAN, float('inf'), 1.5, 2.5, -1.0, -0.0]
    else:
        cands += [-1.0]
    for v in vals:      # every listed number the dtype can hold is a possible cell value
        if not any(v == c for c in cands) and not isnan(v):
            cands.append(float(v))
    cands = [v for v in cands if representable(v, dtype)] + near_values(vals, dtype)
    inn = [v for v in cands if listed(v, vals, want_listed_nan_aware)]
    out = [v for v in cands if not listed(v, vals, want_listed_nan_aware)]
    return inn, out


def layout_raster(rng, rows, cols, borders, inside_pool, outside_pool):
    """cells from `inside_pool` span a window touching exactly the borders in `borders` (when the shape allows);
    every other cell is drawn from outside_pool.  Returns data or None."""
    def pick(lo_fixed, hi_fixed, n):
        lo = 0 if lo_fixed else (rng.randint(1, n - 1) if n >= 2 else None)
        if lo is None:
            return None
        hi = n - 1 if hi_fixed else (rng.randint(lo, n - 2) if n - 2 >= lo else None)
        if hi is None or hi < lo:
            return None
        return lo, hi
    ry = pick('top' in borders, 'bottom' in borders, rows)
    rx = pick('left' in borders, 'right' in borders, cols)
    if ry is None or rx is None:
        return None
    t, b = ry
    l, r = rx
    data = [[rng.choice(outside_pool) for _ in range(cols)] for _ in range(rows)]
    for y in range(t, b + 1):
        for x in range(l, r + 1):
            if rng.random() < 0.45:
                data[y][x] = rng.choice(inside_pool)
    # each border line of the window gets one inside cell
    data[t][rng.randint(l, r)] = rng.choice(inside_pool)
    data[b][rng.randint(l, r)] = rng.choice(inside_pool)
    data[rng.randint(t, b)][l] = rng.choice(inside_pool)
    data[rng.randint(t, b)][r] = rng.choice(inside_pool)
    return data


BORDER_SUBSETS = [tuple(b for b, on in zip(('top', 'bottom', 'left', 'right'), bits) if on)
                  for bits in itertools.product([0, 1], repeat=4)]


# each (container, int/float, length) signature of the values argument is paired with a few raster dtypes: every pair is a
# separate Numba compilation of _trim/_crop (~0.4 s), so the quick tier cannot afford the full cross product
HOME = {
    ('tuple', True, 1): ['int64', 'float64', 'uint8'], ('tuple', True, 2): ['int32', 'float32'],
    ('tuple', True, 3): ['int64', 'uint8'], ('tuple', True, 4): ['int32', 'float64'],
    ('tuple', False, 1): ['float64', 'float32', 'int32'], ('tuple', False, 2): ['float64', 'float32', 'int64'],
    ('tuple', False, 3): ['float32', 'int32'], ('tuple', False, 0): ['float64', 'int64'],
    ('list', True): ['int64', 'float32'], ('list', False): ['float64', 'uint8'],
    ('ndarray', True): ['int32', 'float64'], ('ndarray', False): ['float64', 'int64'],
}


def pick_set_and_dtype(i, sets, thorough=False):
    if i % 6 == 5:      # the other integer widths / unsigned / bool, with one canonical single-number list
        vals, as_int, kind = ([0], True, 'tuple') if sets is EXCL_SETS else ([1], True, 'tuple')
        dtype = MORE_DTYPES[(i // 6) % len(MORE_DTYPES)]
    else:
        vals, as_int, kind = sets[i % len(sets)]
        n = 1 if vals is None else len(vals)
        home = HOME[(kind, as_int and vals is not None, n) if kind == 'tuple' else (kind, as_int)]
        dtype = DTYPES[(i // 2) % len(DTYPES)] if thorough else home[(i // len(sets)) % len(home)]
    fvals = [NAN] if vals is None else [float(v) for v in vals]
    fin = [v for v in fvals if not isnan(v) and not math.isinf(v)]
    if any(v == int(v) and not representable(v, dtype) for v in fin):
        dtype = 'float64' if dtype.startswith('float') else 'int64'      # a listed number the dtype cannot hold
    return vals, as_int, kind, fvals, dtype


def decorate(i, case):
    """dimension names, coordinate flavour and the `name` argument"""
    case['aux'] = 'nocoords' if i % 9 == 0 else (i % 4 != 0)
    case['dims'] = list(DIMS[i % len(DIMS)])
    if i % 5 == 0:
        case['name'] = 'window%d' % (i % 3)
    return case


def one_case(rng, fn, i, borders, rows, cols, sets, thorough=False, forced=None):
    if forced is not None:
        vals, as_int, kind, dtype = forced
        fvals = [NAN] if vals is None else [float(v) for v in vals]
    else:
        vals, as_int, kind, fvals, dtype = pick_set_and_dtype(i, sets, thorough)
    inn, out = cell_pools(fvals, dtype, fn == 'trim')
    if fn == 'trim':
        inside, outside = out, inn      # kept cells = not listed
    else:
        inside, outside = inn, out      # selected cells = listed ids
    near = near_values(fvals, dtype)
    fam_near = ''
    if near and inside and outside and rng.random() < 0.6:
        fam_near = '/near-equal'
        if fn == 'trim':
            inside = near                   # every kept cell is close to (but not) an excluded value
        else:
            outside = near + outside[:1]    # the zones around the selected ones have ids close to a listed id
    if not inside or not outside:
        # e.g. int raster with only NaN excluded, or nothing excluded: every cell is kept (nothing to trim)
        pool = inside or outside
        data = [[rng.choice(pool) for _ in range(cols)] for _ in range(rows)]
        fam = 'one-pool'
    else:
        data = layout_raster(rng, rows, cols, borders, inside, outside)
        fam = 'borders=' + ('+'.join(borders) or 'none') + fam_near
        if data is None:
            data = [[rng.choice(inside + outside) for _ in range(cols)] for _ in range(rows)]
            fam = 'random'
    case = decorate(i, dict(fn=fn, dtype=dtype, data=data, values=vals, as_int=as_int, kind=kind,
                            ys=rand_coords(rng, rows), xs=rand_coords(rng, cols)))
    if fn == 'crop':
        case['vdtype'] = rng.choice(['float64', 'int32', 'float32'])
        case['vdata'] = [[float(rng.randint(0, 99)) for _ in range(cols)] for _ in range(rows)]
        if rng.random() < 0.12 and rows >= 2 and cols >= 2 and max(rows, cols) <= 8:
            case['vshape'] = [rng.randint(1, rows), rng.randint(1, cols)]
            fam += '/smaller-values'
    return fam, case


def gen_cases(ctx, fn, n_per_subset):
    rng = ctx.rng
    sets = EXCL_SETS if fn == 'trim' else ID_SETS
    i = 0
    for borders in BORDER_SUBSETS:
        for _ in range(n_per_subset):
            i += 1
            # smallest extent along an axis that lets the window touch exactly the requested borders
            minr = 3 - ('top' in borders) - ('bottom' in borders)
            minc = 3 - ('left' in borders) - ('right' in borders)
            shape_kind = rng.random()
            if shape_kind < 0.15 and minr == 1:
                rows, cols = 1, rng.randint(minc, 7)
            elif shape_kind < 0.3 and minc == 1:
                rows, cols = rng.randint(minr, 7), 1
            else:
                rows, cols = rng.randint(minr, 7), rng.randint(minc, 7)
            yield one_case(rng, fn, i, borders, rows, cols, sets, not ctx.quick())
    # larger rasters
    for k in range(4 if ctx.quick() else 40):
        i += 1
        fam, case = one_case(rng, fn, i, rng.choice(BORDER_SUBSETS), rng.randint(15, 40), rng.randint(15, 40), sets, not ctx.quick())
        yield 'large/' + fam, case
    # fully random and all-excluded / none-selected rasters
    for j in range(n_per_subset * 6):
        vals, as_int, kind, fvals, dtype = pick_set_and_dtype(j, sets, not ctx.quick())
        rows, cols = rng.randint(1, 6), rng.randint(1, 6)
        inn, out = cell_pools(fvals, dtype, fn == 'trim')
        empty = j % 4 == 3
        if fn == 'trim':
            pool = (inn if empty and inn else inn + out)
        else:
            pool = (out if empty and out else inn + out)
        data = [[rng.choice(pool) for _ in range(cols)] for _ in range(rows)]
        case = decorate(j, dict(fn=fn, dtype=dtype, data=data, values=vals, as_int=as_int, kind=kind,
                                ys=rand_coords(rng, rows), xs=rand_coords(rng, cols)))
        if fn == 'crop':
            case['vdtype'] = 'float64'
            case['vdata'] = [[float(rng.randint(0, 99)) for _ in range(cols)] for _ in range(rows)]
        yield ('nothing-kept' if empty else 'random'), case


def gen_layouts(ctx, fn, count):
    """the same logical raster C-/F-contiguous, as a transposed view, as a strided+reversed view (read-only and byte-swapped in
    the thorough tier), kept cells touching every subset of the borders; the expected window does not depend on the layout.
    Few (values signature, dtype) pairs: every new (layout, signature, dtype) is one more Numba compilation."""
    rng = ctx.rng
    if fn == 'trim':
        combos = [(([0], True, 'tuple'), 'int64'), ((None, False, 'tuple'), 'float64')]
    else:
        combos = [(([1, 3], True, 'tuple'), 'int64'), (([2.0], False, 'tuple'), 'float64')]
    if not ctx.quick():
        combos += [((c[0]), d) for c in combos[:2] for d in ('float32', 'int32', 'uint8')]
    lays = LAYOUTS[1:4] + ['reversed', 'readonly'] if ctx.quick() else LAYOUTS[1:]
    for i in range(count):
        (vals, as_int, kind), dtype = combos[i % len(combos)]
        layout = lays[(i // len(combos)) % len(lays)]
        if ctx.quick() and i == count - 1:
            layout = 'nonnative'
        borders = BORDER_SUBSETS[(i * 7) % len(BORDER_SUBSETS)]
        minr = 3 - ('top' in borders) - ('bottom' in borders)
        minc = 3 - ('left' in borders) - ('right' in borders)
        rows, cols = rng.randint(minr, 8), rng.randint(minc, 8)
        fam, case = one_case(rng, fn, 6 * i + 1, borders, rows, cols, None, forced=(vals, as_int, kind, dtype))
        case['layout'] = layout
        if fn == 'crop':
            case['vlayout'] = rng.choice(['C', 'F', 'strided'])
        yield 'layout/%s/%s' % (layout, fam), case


def ulp_neighbours(v, dtype):
    """v rounded to dtype and its two neighbours in that dtype, as python floats"""
    t = np.dtype(dtype).type
    c = t(v)
    return float(c), float(np.nextafter(c, t(np.inf))), float(np.nextafter(c, t(-np.inf)))


def themed_case(rng, fn, i, vals, as_int, kind, dtype, inside, outside, rows=None, cols=None, **extra):
    borders = BORDER_SUBSETS[(i * 5 + 3) % len(BORDER_SUBSETS)]
    minr = 3 - ('top' in borders) - ('bottom' in borders)
    minc = 3 - ('left' in borders) - ('right' in borders)
    rows = rows or rng.randint(minr, 7)
    cols = cols or rng.randint(minc, 7)
    data = layout_raster(rng, rows, cols, borders, inside, outside) if inside and outside else None
    if data is None:
        pool = (inside or []) + (outside or [])
        data = [[rng.choice(pool) for _ in range(cols)] for _ in range(rows)]
    case = dict(fn=fn, dtype=dtype, data=data, values=vals, as_int=as_int, kind=kind, aux=(i % 3 != 0),
                ys=rand_coords(rng, rows), xs=rand_coords(rng, cols), dims=list(DIMS[i % len(DIMS)]))
    case.update(extra)
    if fn == 'crop':
        case.setdefault('vdtype', 'float64')
        case['vdata'] = [[float(rng.randint(0, 99)) for _ in range(cols)] for _ in range(rows)]
    return case


def gen_themes(ctx, fn, reps):
    """appended audit streams: one-ulp neighbours of a listed number in the raster's own dtype, tiny / huge magnitudes, numbers the
    raster dtype cannot hold (no wrap-around), ids beyond 2**31 / 2**53 kept exact, value lists as arrays of another dtype, absent
    ids, name='', far / large / negative coordinates, degenerate rasters, and call sequences (input untouched, repeated call,
    the call on the already-processed raster)."""
    rng = ctx.rng
    trim = fn == 'trim'

    def io(listed_pool, other_pool):        # (inside, outside) pools of layout_raster
        return (other_pool, listed_pool) if trim else (listed_pool, other_pool)
    i = 0
    for _ in range(reps):
        # -- one ulp around a listed number, in the cells' own dtype; tiny and huge magnitudes
        for dtype in ('float32', 'float64'):
            for v0 in (1.0, 0.1, 16777216.0, -9999.0, 2.0 ** -100, 2.0 ** 100, 3.4028234663852886e38, 2.0 ** -30):
                i += 1
                v, up, dn = ulp_neighbours(v0, dtype)
                ins, outs = io([v], [up, dn])
                yield 'ulp/%s' % dtype, themed_case(rng, fn, i, [v], False, 'tuple', dtype, ins, outs, sequence=(i % 4 == 0))
        # -- listed numbers the raster dtype cannot hold must match nothing (no wrap-around), limits of the dtype
        for dtype, cells, lists in (('uint8', [0.0, 255.0, 1.0], ([256], [-1], [255, 256], [511])),
                                    ('int8', [-128.0, 127.0, 0.0, -1.0], ([128], [-129], [127, 256], [-128]))):
            for vals in lists:
                i += 1
                inn = [c for c in cells if listed(c, [float(x) for x in vals], False)]
                out = [c for c in cells if c not in inn]
                ins, outs = io(inn, out)
                yield 'dtype-limits/%s' % dtype, themed_case(rng, fn, i, vals, True, 'tuple', dtype, ins, outs)
        # -- ids beyond 2**31 and 2**53 in int64 rasters (exact python ints end to end)
        big = [2 ** 31, 2 ** 31 + 1, 2 ** 40, 2 ** 53, 2 ** 53 + 1, 2 ** 62, -2 ** 53 - 1, 7]
        for vals in ([2 ** 53], [2 ** 31 + 1, 2 ** 53 + 1], [2 ** 62, 7]):
            i += 1
            inn = [c for c in big if c in vals]
            out = [c for c in big if c not in vals]
            ins, outs = io(inn, out)
            yield 'big-ids/int64', themed_case(rng, fn, i, vals, True, 'tuple', 'int64', ins, outs, exact=True,
                                               sequence=True, **({'vdtype': 'int64'} if not trim else {}))
        # -- the list given as an array of another dtype; absent ids; name=''
        for vdt, vals, dtype in (('int32', [0, 3], 'int64'), ('float32', [0.0, 2.5], 'float64'), ('uint8', [1, 200], 'int32')):
            i += 1
            cells = [0.0, 1.0, 2.5 if dtype == 'float64' else 2.0, 3.0, 7.0]
            inn = [c for c in cells if listed(c, [float(x) for x in vals], False)]
            ins, outs = io(inn, [c for c in cells if c not in inn])
            yield 'list-dtype/%s' % vdt, themed_case(rng, fn, i, vals, vdt != 'float32', 'ndarray', dtype, ins, outs,
                                                      vals_dtype=vdt, name='' if i % 2 else 'w')
        i += 1
        ins, outs = io([1.0], [0.0, 2.0, 4.0])
        yield 'absent-ids', themed_case(rng, fn, i, [99, 1, -5], True, 'list', 'int32', ins, outs, name='', sequence=True)
        # -- coordinates: huge spacing far from the origin, negative, tiny spacing, different on both axes
        for (y0, dy, x0, dx) in ((5e6, -1e6, -3e6, 2.5e5), (-0.001, 0.0001220703125, 1e9, 1.0), (-80.0, 0.5, 179.5, 0.25)):
            i += 1
            rows, cols = rng.randint(2, 6), rng.randint(2, 6)
            ins, outs = io([0.0], [1.0, 2.0])
            c = themed_case(rng, fn, i, [0], True, 'tuple', 'float64', ins, outs, rows=rows, cols=cols, sequence=(i % 2 == 0))
            c['ys'] = [y0 + k * dy for k in range(rows)]
            c['xs'] = [x0 + k * dx for k in range(cols)]
            yield 'coords/far-large-negative', c
        # -- degenerate rasters: 1x1, 1xN, Nx1, 2x2, a single kept/selected cell, all cells equal
        for rows, cols, single in ((1, 1, True), (1, 6, False), (6, 1, False), (2, 2, False), (5, 6, True), (4, 4, None)):
            i += 1
            ins, outs = io([0.0], [1.0])
            c = themed_case(rng, fn, i, [0], True, 'tuple', 'int64' if i % 2 else 'float64', ins, outs, rows=rows, cols=cols,
                            sequence=True)
            if single is not None:
                keepv, fill = (1.0, 0.0) if trim else (0.0, 1.0)
                c['data'] = [[fill] * cols for _ in range(rows)]
                if single:
                    c['data'][rng.randrange(rows)][rng.randrange(cols)] = keepv
                else:
                    for row in c['data']:
                        row[rng.randrange(cols)] = keepv
            else:
                c['data'] = [[(1.0 if trim else 0.0)] * cols for _ in range(rows)]      # all equal, everything kept/selected
            yield 'degenerate/%dx%d' % (rows, cols), c


def gen_exhaustive(ctx, max_cells=9):
    """every raster over {0, 1, NaN} of every shape with <= max_cells cells, rows, cols <= 3"""
    for rows in (1, 2, 3):
        for cols in (1, 2, 3):
            if rows * cols > max_cells:
                continue
            for cells in itertools.product([0.0, 1.0, NAN], repeat=rows * cols):
                data = [list(cells[r * cols:(r + 1) * cols]) for r in range(rows)]
                for vals, as_int, kind in ((None, False, 'tuple'), ([0.0], False, 'tuple'), ([0.0, NAN], False, 'tuple')):
                    yield 'exhaustive-3x3', dict(fn='trim', dtype='float64', data=data, values=vals, as_int=as_int, kind=kind,
                                                 ys=[float(i) for i in range(rows)], xs=[float(i) for i in range(cols)])


def nontrivial(case):
    fvals = [NAN] if case['values'] is None else [float(v) for v in case['values']]
    flags = [listed(v, fvals, case['fn'] == 'trim') for row in case['data'] for v in row]
    return any(flags) and not all(flags)


def run_cases(ctx, gen):
    zonal = _impl()
    pending = []
    for fam, case in gen:
        ctx.case(case, nontrivial=nontrivial(case))
        ctx.count('%s/%s' % (case['fn'], fam))
        ctx.count('dtype/%s' % case['dtype'])
        r = run_trim(ctx, zonal, case) if case['fn'] == 'trim' else run_crop(ctx, zonal, case)
        if r is not None:
            pending.append((r[0], r[1], case))
        if len(pending) >= 4000:
            compare_with_model(ctx, pending)
            pending = []
    compare_with_model(ctx, pending)


def run(ctx):
    n = 14 if ctx.quick() else 80
    run_cases(ctx, gen_cases(ctx, 'trim', n))
    run_cases(ctx, gen_cases(ctx, 'crop', n if ctx.quick() else n // 2))
    if not ctx.quick():
        run_cases(ctx, gen_exhaustive(ctx))
    # appended after the older streams so that their rng draws do not shift
    run_cases(ctx, gen_layouts(ctx, 'trim', 97 if ctx.quick() else 1500))
    run_cases(ctx, gen_layouts(ctx, 'crop', 97 if ctx.quick() else 1500))
    run_cases(ctx, gen_themes(ctx, 'trim', 1 if ctx.quick() else 12))
    run_cases(ctx, gen_themes(ctx, 'crop', 1 if ctx.quick() else 12))
    ctx.exhaustive = False


def search(ctx):
    """An obligation or the correspondence broke and the normal run showed no failing input: widen the oracle run."""
    old, model = ctx.tier, ctx.model
    ctx.tier, ctx.model = 'thorough', None
    try:
        run_cases(ctx, gen_cases(ctx, 'trim', 30))
        run_cases(ctx, gen_cases(ctx, 'crop', 15))
        run_cases(ctx, gen_exhaustive(ctx, max_cells=6))
    finally:
        ctx.tier, ctx.model = old, model


def replay_case(ctx, case):
    zonal = _impl()
    case = {k: v for k, v in case.items() if k in ('fn', 'dtype', 'data', 'values', 'as_int', 'kind', 'ys', 'xs',
                                                   'vdtype', 'vdata', 'vshape', 'aux', 'dims', 'name', 'layout', 'vlayout',
                                                   'exact', 'sequence', 'vals_dtype')}

    def unjson(v):
        return {'nan': NAN, 'inf': float('inf'), '-inf': float('-inf')}.get(v, v) if isinstance(v, str) else v
    case['data'] = [[unjson(v) for v in row] for row in case['data']]
    if case.get('values') is not None:
        case['values'] = [unjson(v) for v in case['values']]
    ctx.case(case)
    if case['fn'] == 'trim':
        run_trim(ctx, zonal, case)
    else:
        run_crop(ctx, zonal, case)
