"""C08 — slope, aspect, curvature, hillshade are local 3x3 formulas with NaN borders.
Correspondence: xrspatial.slope/aspect/curvature/hillshade/summarize_terrain vs the extracted float instance of
coq/C08/Model.v (slope/aspect/curvature bit-exact, hillshade within 8 float32 ulps of 1.0); oracle: the documented
finite-difference formulas in exact rational arithmetic + the property's metamorphic checks on the implementation."""
import ast
import importlib
import inspect
import math
from fractions import Fraction

import numpy as np
import xarray as xr

ID = 'C08'
OCAML_UTILS = ['zio.ml']
OCAML_PACKAGES = ['coq-core.kernel']
OCAML_FLAGS = '-rectypes -thread'
HS_TOL = 8 * 2.0 ** -23          # hillshade: 8 ulp(1.0f) absolute

RULE = ('elevation rasters 1x1 .. 7x7 (plus large-ish ones up to 24x24 quick / 60x60 thorough, Fortran-ordered / strided / '
        'negative-stride layouts, dimension names y,x / lat,lon / row,col / x,y) of every dtype uint8..uint64/int8..int64/float16/float32/float64 from the classes flat, ramps, '
        'small integers with ties, random floats, values >= 2^24, NaN/+-inf cells; cell size from res = scalar / (x,y) tuple / '
        'list / ndarray / unusable / absent with ascending or descending, integer or fractional coordinates, cx != cy; '
        'an exhaustive family of 3x3 windows with a single NaN at each of the 9 positions on flat / pure N-S ramp / pure E-W ramp / '
        'E-W symmetric / N-S symmetric / random surfaces (exactly zero gradients), NumPy and Dask; call sequences (NumPy and Dask): a raster with coordinates and no res attribute is analysed, then rasters derived from that object '
        '(strided / reversed slices, assign_coords with rescaled coordinates, copy) — each must follow its OWN coordinates, equal a freshly '
        'built raster, and leave its input\'s attrs unchanged; hillshade azimuth/altitude grids incl. negative, > 360, random reals and the defaults left unset, name= given; cell sizes 1e-6 .. 1e5, '
        'uneven coordinates (mean spacing); the same stream Dask-backed (every dtype x single chunk / 1-cell chunks / uneven '
        'chunks, results computed and compared exactly like the NumPy ones; groups of 12 lazy results — four functions x '
        '(raster, same raster with another cell size / other angles, poked raster) — evaluated in ONE dask.compute); plus, on the implementation, the property\'s metamorphic checks: constant offset, '
        'single-cell poke (to NaN or another value), quarter turn with square cells. A case is non-trivial when the raster has '
        'at least one interior cell; distinct by JSON encoding.')
TRUSTED = [
    'float instance of the model: binary32 = Coq SpecFloat operations at (24,128), binary64 = Coq primitive floats; Numba / NumPy '
    'promotion (2*f widens to float64, float32+float32 stays float32 in curvature, NEP 50 in hillshade) written by hand in '
    'Model.v and validated only by the correspondence',
    'libm atan, atan2, sin, cos are Section variables supplied by the OCaml driver (Stdlib); `(...) ** .5` in slope is modelled as '
    'the correctly rounded sqrt (LLVM folds pow(x, 0.5) to sqrt)',
    'hillshade: NumPy\'s own vectorised float32 arctan/arctan2/sin/cos are modelled as the libm double function rounded to '
    'float32; compared within 8 ulp(1.0f) = 9.5e-7 absolute, times max(1, |azimuthrad|/4) because the shading angle '
    '(azimuthrad - pi/2) - aspect is a float32 whose ulp grows with |azimuth|; range [0,1] checked up to the same 8 ulp',
    'the literals 57.29578 (slope) and RADIAN = 180/pi (aspect) are read from the source / module at run time and passed to the model',
    'xarray default integer index when a dimension has no coordinate; coordinate min/max modelled as folds',
    'exact instance premises (Section hypotheses, not discharged): qsqrt 0 = 0 and qsqrt x >= 0; atan 0 = 0; 0 <= atan x and '
    'atan x * k57 <= 90 for x >= 0; -180 <= atan2 y x * RADIAN <= 180; sin^2 + cos^2 = 1 for the hillshade sin/cos pairs; '
    '-1 <= cos <= 1',
    'quarter-turn premises (Section hypotheses): sqrt, atan, atan2 respect == on Q; -180 <= atan2 y x * RADIAN <= 180; '
    'atan2 x (-y) * RADIAN = atan2 y x * RADIAN + 90 or - 270 for (x,y) != (0,0); shown satisfiable by the Example '
    'C08_quarter_premises_satisfiable (quadrant base angle)',
    'exact instance (option Q, None = NaN, x/0 = NaN) has no infinities and no rounding',
]
ASSUMPTIONS = [
    'NumPy and Dask(NumPy) backends; the model is the NumPy kernel, a Dask result must equal it (CuPy not available here)',
    'a Dask-backed hillshade of a raster with < 2 cells along an axis returns all NaN (padded blocks) where NumPy raises; oracle only',
    'cell sizes are positive Python ints/floats (a zero cell size raises ZeroDivisionError in the Numba kernels; a NEGATIVE res '
    'such as (30, -30) — common in geotransforms — makes curvature divide by (cx+cy)/2 = 0 or use a meaningless mean: outside the domain)',
    'for unevenly spaced coordinates "the cell size" is the mean spacing (max-min)/(n-1), which is what utils.calc_res computes',
    'rasters without a usable res attribute have >= 2 cells per dimension (calc_res divides by n-1)',
    'hillshade rasters have >= 2 cells per dimension (np.gradient requirement; smaller rasters raise ValueError, modelled as error)',
    'hillshade and aspect ignore the cell size by design (documented formulas)',
    'rasters have at least one cell (empty 0xN rasters give empty slope/aspect/curvature and a ValueError from hillshade: not explored)',
]
PARTIAL = [
    'aspect / slope / curvature under np.rot90 are proved in the exact instance only (C08_aspect_quarter_turn, C08_rot90_raster, '
    'for cells whose 3x3 window is finite, under the stated atan2 premises); the float-level statement is checked on the '
    'implementation by the oracle (bit-exact for curvature and for slope on integer data, 2e-3 degrees for aspect)',
    'float-level offset invariance is false in general and not claimed; it is proved in the exact instance and checked bit-exactly '
    'on integer-valued data by the oracle',
    'hillshade trigonometric tail: within tolerance only (NumPy float32 loops are not libm)',
    'range theorems are relative to the stated libm premises (Section hypotheses)',
]
LEVEL_TEXT = ('Proved in Coq for all raster sizes and for EVERY arithmetic instance (so also for the float32/float64 instance that is '
              'executed): each of slope/aspect/curvature/hillshade is NaN on the border and at an interior cell equals a fixed '
              'function of that cell\'s 3x3 window and the cell size; changing one input cell changes the output only inside its 3x3 '
              'neighbourhood. Proved in the exact instance (option Q): adding a constant changes no gradient/curvature, a flat window '
              'gives slope 0 / aspect -1 / curvature 0, a quarter turn maps (dz_dx, dz_dy) to (dz_dy, -dz_dx) with slope magnitude '
              'and curvature unchanged; for np.rot90 of a whole raster of any size (square cells) every interior cell maps to the '
              'turned position, slope and curvature keep their values there and, through the compass-conversion branches, the '
              'aspect becomes aspect - 90 mod 360 (flat stays -1) under an explicit atan2 quadrant premise; and under explicit libm premises slope in [0,90], aspect in {-1} or [0,360], hillshade in '
              '[0,1]. Correspondence (bit-exact for the Numba kernels, 8 float32 ulps for hillshade) and oracle only: float rounding, '
              'cell-size resolution against xarray objects, aspect +90 under rotation.')
LEVEL_NOTE = ('kernels are written once over an arithmetic record; locality theorems are structural and hold for the executed float '
              'instance; algebraic theorems are about the exact instance; libm functions are Section variables / hypotheses')

INT_DT = ['uint8', 'uint16', 'uint32', 'uint64', 'int8', 'int16', 'int32', 'int64']
ALL_DT = INT_DT + ['float32', 'float64', 'float64', 'float32', 'float16']


def mods():
    return dict(slope=importlib.import_module('xrspatial.slope'), aspect=importlib.import_module('xrspatial.aspect'),
                curvature=importlib.import_module('xrspatial.curvature'), hillshade=importlib.import_module('xrspatial.hillshade'),
                analytics=importlib.import_module('xrspatial.analytics'))


def source_constants(m):
    """57.29578 from slope._cpu (fail closed), RADIAN from the aspect module"""
    src = inspect.getsource(m['slope']._cpu.py_func)
    consts = sorted({n.value for n in ast.walk(ast.parse(src)) if isinstance(n, ast.Constant) and isinstance(n.value, float)})
    big = [c for c in consts if c > 1.0]
    if len(big) != 1:
        raise RuntimeError('slope._cpu: expected one float literal > 1 (the degrees factor), found %r' % (consts,))
    return big[0], float(m['aspect'].RADIAN)


# ---------------------------------------------------------------- exact helpers
def rn32(fr):
    if fr == 0:
        return Fraction(0)
    s = -1 if fr < 0 else 1
    a = abs(fr)
    e = a.numerator.bit_length() - a.denominator.bit_length()
    if Fraction(2) ** e > a:
        e -= 1
    q = max(e - 23, -149)
    m = a / Fraction(2) ** q
    fl = m.numerator // m.denominator
    rem = m - fl
    if rem > Fraction(1, 2) or (rem == Fraction(1, 2) and fl % 2 == 1):
        fl += 1
    r = fl * Fraction(2) ** q
    if r >= Fraction(2) ** 128:
        return s * math.inf
    return s * r


def cast32(v):
    if isinstance(v, float) and (math.isnan(v) or math.isinf(v)):
        return v
    return rn32(Fraction(v))


def isnanx(x):
    return isinstance(x, float) and math.isnan(x)


def isinfx(x):
    return isinstance(x, float) and math.isinf(x)


def cell_sizes_oracle(case):
    """the raster's cell size per the property text: res attr if usable, else coordinate spacing"""
    r = case['res']
    if r['kind'] == 'pair':
        return Fraction(r['v'][0]), Fraction(r['v'][1])
    if r['kind'] == 'scalar':
        return Fraction(r['v']), Fraction(r['v'])
    # (for evenly spaced coordinates this is the spacing; for uneven ones the mean spacing)
    xs, ys = [Fraction(v) for v in case['xs']], [Fraction(v) for v in case['ys']]
    return (max(xs) - min(xs)) / (len(xs) - 1), (max(ys) - min(ys)) / (len(ys) - 1)


def window(data32, y, x):
    return [[data32[y + dy][x + dx] for dx in (-1, 0, 1)] for dy in (-1, 0, 1)]


def expect_interior(fn, w, cx, cy, params):
    """documented formula on the exact window w (3x3, row 0 = north). -> ('nan',) | ('skip',) | ('val', float, tol) |
    ('flat',) | ('angle', deg, tol)"""
    (a, b, c), (d, e, f), (g, h, i) = w
    if fn in ('slope', 'aspect'):
        used = [a, b, c, d, f, g, h, i]
    elif fn == 'curvature':
        used = [b, d, e, f, h]
    else:
        used = [b, d, f, h]
    if any(isnanx(v) for v in used):
        return ('nan',)
    if any(isinfx(v) for v in used):
        return ('skip',)
    scale = max([abs(v) for v in used] + [Fraction(1, 2 ** 100)])
    if fn == 'slope':
        dzdx = ((c + 2 * f + i) - (a + 2 * d + g)) / (8 * cx)
        dzdy = ((g + 2 * h + i) - (a + 2 * b + c)) / (8 * cy)
        rr = dzdx * dzdx + dzdy * dzdy
        p = math.sqrt(rr) if rr < Fraction(10) ** 300 else math.inf
        # the float64 sums of the float32 cells lose up to ~2^-50 of the largest cell (absorption): a window whose
        # gradient is that small relative to its elevations is not decidable by the formula -> skip
        err = Fraction(1, 2 ** 48) * (sum(abs(v) for v in used)) * (1 / (8 * cx) + 1 / (8 * cy))
        if err * 58 > Fraction(1, 10 ** 5):
            return ('skip',)
        return ('val', math.degrees(math.atan(p)), 6e-5)
    if fn == 'aspect':
        dzdx = ((c + 2 * f + i) - (a + 2 * d + g)) / 8
        dzdy = ((g + 2 * h + i) - (a + 2 * b + c)) / 8
        if dzdx == 0 and dzdy == 0:
            return ('flat',)
        m = max(abs(dzdx), abs(dzdy))
        if m < scale * Fraction(1, 10 ** 9):
            return ('skip',)
        asp = math.degrees(math.atan2(float(dzdy / m), float(-dzdx / m)))
        if asp < 0:
            out = 90.0 - asp
        elif asp > 90.0:
            out = 360.0 - asp + 90.0
        else:
            out = 90.0 - asp
        return ('angle', out, 2e-4)
    if fn == 'curvature':
        cs = (cx + cy) / 2
        dd = (h + b) / 2 - e
        ee = (f + d) / 2 - e
        val = -2 * (dd + ee) * 100 / (cs * cs)
        tol = Fraction(8, 2 ** 24) * 200 * (abs(h) + abs(b) + abs(f) + abs(d) + 2 * abs(e)) / (cs * cs) + abs(val) * Fraction(4, 2 ** 24)
        if abs(val) > 2 ** 120 or tol > 2 ** 120 or scale > 2 ** 120:
            return ('skip',)          # float32 overflow of data[y+1,x] + data[y-1,x] (values near the float32 maximum)
        return ('val', float(val), float(tol) + 1e-300)
    # hillshade (GeoExamples formula the docstring cites), unit spacing
    az, alt = params['azimuth'], params['altitude']
    gx = float((h - b) / 2)
    gy = float((f - d) / 2)
    if not (abs(gx) < 1e150 and abs(gy) < 1e150):
        return ('skip',)
    slope = math.pi / 2 - math.atan(math.sqrt(gx * gx + gy * gy))
    aspect = math.atan2(-gx, gy)
    azr = (360.0 - az) * math.pi / 180.0
    altr = alt * math.pi / 180.0
    shaded = math.sin(altr) * math.sin(slope) + math.cos(altr) * math.cos(slope) * math.cos((azr - math.pi / 2) - aspect)
    # the float32 aspect / slope of the implementation move the value by a few float32 ulps of the angle
    return ('val', (shaded + 1) / 2, 4e-6 * angle_factor(az))


def angle_factor(az):
    """hillshade evaluates cos((azimuthrad - pi/2) - aspect) on a FLOAT32 angle: its rounding error is half an ulp of the
    angle, so the tolerance grows with |azimuthrad| (1 for the usual 0..360 degrees)"""
    return max(1.0, abs((360.0 - az) * math.pi / 180.0) / 4.0)


def ang_close(a, b, tol):
    d = abs(a - b) % 360.0
    return min(d, 360.0 - d) <= tol


def oracle_raster(ctx, case, fn, out, params=None):
    data = case['data']
    rows = len(data)
    cols = len(data[0]) if rows else 0
    if len(out) != rows or any(len(r) != cols for r in out):
        ctx.violation('oracle', '%s: output shape differs from the input shape' % fn, dict(case, fn=fn))
        return False
    d32 = [[cast32(v) for v in r] for r in data]
    cx, cy = cell_sizes_oracle(case) if fn in ('slope', 'curvature') else (None, None)
    for y in range(rows):
        for x in range(cols):
            o = out[y][x]
            rep = dict(case, fn=fn, cell=[y, x], got=o, params=params)
            if y in (0, rows - 1) or x in (0, cols - 1):
                if not math.isnan(o):
                    ctx.violation('oracle', '%s: border cell (%d,%d) is %r, expected NaN' % (fn, y, x, o), rep)
                    return False
                continue
            exp = expect_interior(fn, window(d32, y, x), cx, cy, params)
            if exp[0] == 'skip':
                continue
            if exp[0] == 'nan':
                if not math.isnan(o):
                    ctx.violation('oracle', '%s: cell (%d,%d) has a NaN neighbour but is %r' % (fn, y, x, o), rep)
                    return False
                continue
            if math.isnan(o):
                ctx.violation('oracle', '%s: interior cell (%d,%d) with finite window is NaN, formula gives %r' % (fn, y, x, exp[1:]), rep)
                return False
            if exp[0] == 'flat':
                if case.get('exact') and o != -1.0:
                    ctx.violation('oracle', 'aspect: flat window at (%d,%d) gave %r, expected -1' % (y, x, o), rep)
                    return False
            elif exp[0] == 'angle':
                if not ang_close(o, exp[1], exp[2]) or not (0.0 <= o <= 360.0):
                    ctx.violation('oracle', 'aspect: cell (%d,%d) is %r, documented formula gives %.6f' % (y, x, o, exp[1]), rep)
                    return False
            else:
                if abs(o - exp[1]) > exp[2] + abs(exp[1]) * 2e-7:
                    ctx.violation('oracle', '%s: cell (%d,%d) is %r, documented formula gives %r (cell size %s,%s)' % (
                        fn, y, x, o, exp[1], cx, cy), rep)
                    return False
            # range facts of the property
            if fn == 'slope' and not (0.0 <= o <= 90.0):
                ctx.violation('oracle', 'slope: %r outside [0,90]' % o, rep)
                return False
            if fn == 'aspect' and not (o == -1.0 or 0.0 <= o <= 360.0):
                ctx.violation('oracle', 'aspect: %r outside {-1} u [0,360]' % o, rep)
                return False
            if fn == 'hillshade' and not (-HS_TOL <= o <= 1.0 + HS_TOL):      # sin^2 + cos^2 of float32 values is 1 up to rounding
                ctx.violation('oracle', 'hillshade: %r outside [0,1]' % o, rep)
                return False
    return True


# ---------------------------------------------------------------- generators
def gen_value(rng, dt, kind):
    if not dt.startswith('float'):
        lo, hi = int(np.iinfo(dt).min), int(np.iinfo(dt).max)
        if kind == 'flat':
            v = 7
        elif kind in ('small', 'ties'):
            v = rng.randint(0, 5 if kind == 'ties' else 60)
        elif kind == 'signed':
            v = rng.randint(-30, 30)
        elif kind == 'big':
            v = rng.choice([hi - rng.randint(0, 5), (1 << rng.choice([24, 25, 31, 40, 53, 62])) + rng.randint(-3, 3), rng.randint(lo, hi)])
        else:
            v = rng.randint(0, 1000)
        return max(lo, min(hi, v))
    if kind == 'flat':
        v = 7.5
    elif kind == 'ties':
        v = float(rng.randint(0, 5))
    elif kind == 'small':
        v = float(rng.randint(0, 60))
    elif kind == 'signed':
        v = float(rng.randint(-30, 30))
    elif kind == 'big':
        v = float((1 << rng.choice([24, 25, 31, 40])) + rng.randint(-3, 3))
    elif kind == 'frac':
        v = rng.randint(-200, 400) / 16.0
    elif kind == 'special':
        c = rng.random()
        v = float('nan') if c < 0.15 else float('inf') if c < 0.2 else float('-inf') if c < 0.24 else \
            rng.choice([1e30, -1e30, 1e-30, 3e38]) if c < 0.3 else float(rng.randint(0, 40))
    else:
        v = rng.random() * rng.choice([1.0, 100.0, 3000.0])
    if dt == 'float32':
        with np.errstate(all='ignore'):
            v = float(np.float32(v))
    if dt == 'float16':
        with np.errstate(all='ignore'):
            v = float(np.float16(v))
    return v


KINDS_INT = ['small', 'ties', 'signed', 'big', 'wide', 'flat', 'ramp']
KINDS_FLT = ['small', 'ties', 'signed', 'big', 'frac', 'special', 'rand', 'flat', 'ramp', 'special']


def gen_raster(rng, dt=None, shape=None, kind=None):
    dt = dt or rng.choice(ALL_DT)
    if shape is None:
        u = rng.random()
        if u < 0.1:
            shape = rng.choice([(1, 1), (1, 4), (3, 1), (2, 2), (2, 5), (3, 2)])
        else:
            shape = (rng.randint(3, 6), rng.randint(3, 7))
    rows, cols = shape
    kind = kind or rng.choice(KINDS_FLT if dt.startswith('float') else KINDS_INT)
    if kind == 'ramp':
        ay, ax, c0 = rng.randint(-3, 3), rng.randint(-3, 3), rng.randint(0, 20)
        data = [[ay * y + ax * x + c0 for x in range(cols)] for y in range(rows)]
        if dt.startswith('u') or dt.startswith('int'):
            lo, hi = int(np.iinfo(dt).min), int(np.iinfo(dt).max)
            m = min(v for r in data for v in r)
            data = [[max(lo, min(hi, v - min(m, 0))) for v in r] for r in data]
        else:
            data = [[float(v) for v in r] for r in data]
    else:
        data = [[gen_value(rng, dt, kind) for _ in range(cols)] for _ in range(rows)]
    return dt, kind, data


INT_CS_DT = ('uint8', 'int32', 'float32', 'float64')      # raster dtypes that also get integer cell sizes (Numba specialisations)


def gen_geometry(rng, rows, cols, allow_mixed=True, allow_int=True):
    """res attribute + coordinates.  An (int, float) cell-size pair is a separate Numba specialisation of slope._cpu per
    raster dtype (~0.5 s each), so mixed pairs are drawn only where [allow_mixed] (float64 rasters)"""
    u = rng.random()
    ints = [1, 2, 3, 10, 30]
    flts = [1.0, 0.5, 2.0, 0.25, 30.0, 3.7, 0.1, 12.5, 1e-3, 1e-6, 1e5, 2.0 ** -20, 1234.5678]
    if not allow_int:
        ints = [1.0, 2.0, 3.0, 10.0, 30.0]
    res = dict(kind='absent')
    if u < 0.18:
        res = dict(kind='scalar', v=rng.choice(ints + flts), form='scalar')
    elif u < 0.6:
        a, b = rng.choice(ints + flts), rng.choice(ints + flts)
        if not allow_mixed and isinstance(a, int) != isinstance(b, int):
            b = rng.choice(ints) if isinstance(a, int) else rng.choice(flts)
        if rng.random() < 0.2:
            b = a
        form = rng.choice(['tuple', 'tuple', 'list', 'ndarray', 'npfloat'])
        if form in ('ndarray', 'npfloat'):
            a, b = float(a), float(b)
        res = dict(kind='pair', v=[a, b], form=form)
    elif u < 0.68:
        res = dict(kind='absent', form=rng.choice(['string', 'triple', 'npint', 'none']))
    coords = rng.random() < 0.75 or (res['kind'] == 'absent')
    xs = ys = None
    if coords and rows >= 2 and cols >= 2:
        dx, dy = rng.choice(ints + flts), rng.choice(ints + flts)
        x0, y0 = rng.choice([0, 5, -3, 100.5, 0.25]), rng.choice([0, 7, -2, 10.75])
        if isinstance(dx, int) and isinstance(x0, int) and rng.random() < 0.5:
            xs = [x0 + i * dx for i in range(cols)]
        else:
            xs = [float(x0) + i * float(dx) for i in range(cols)]
        if isinstance(dy, int) and isinstance(y0, int) and rng.random() < 0.5:
            ys = [y0 + i * dy for i in range(rows)]
        else:
            ys = [float(y0) + i * float(dy) for i in range(rows)]
        if rng.random() < 0.12:            # unevenly spaced coordinates: the code (and the oracle) use the mean spacing
            xs = [v + (rng.random() - 0.5) * 0.4 * float(dx) * (0 < i < cols - 1) for i, v in enumerate(xs)]
            ys = [v + (rng.random() - 0.5) * 0.4 * float(dy) * (0 < i < rows - 1) for i, v in enumerate(ys)]
        if rng.random() < 0.5:
            ys = ys[::-1]
        if rng.random() < 0.25:
            xs = xs[::-1]
    elif res['kind'] == 'absent':
        if rows >= 2 and cols >= 2:
            xs, ys = list(range(cols)), list(range(rows))     # xarray's default index
            coords = False
        else:
            res = dict(kind='scalar', v=rng.choice(ints + flts), form='scalar')
    if xs is None:
        xs, ys = list(range(cols)), list(range(rows))
        coords = False
    return res, xs, ys, coords


def is_exact_class(case):
    for r in case['data']:
        for v in r:
            if isinstance(v, float) and (math.isnan(v) or math.isinf(v)):
                return False
            f = Fraction(v)
            if f.denominator != 1 or abs(f) > 2 ** 15:
                return False
    return True


def make_agg(case, data=None):
    data = case['data'] if data is None else data
    rows = len(data)
    cols = len(data[0]) if rows else 0
    a = np.empty((rows, cols), dtype=case['dtype'])
    for y in range(rows):
        for x in range(cols):
            a[y, x] = data[y][x]
    attrs = {}
    r = case['res']
    form = r.get('form')
    if r['kind'] == 'scalar':
        attrs['res'] = r['v']
    elif r['kind'] == 'pair':
        v = r['v']
        attrs['res'] = tuple(v) if form == 'tuple' else list(v) if form == 'list' else np.array(v)
    elif form == 'string':
        attrs['res'] = '10'
    elif form == 'triple':
        attrs['res'] = (1, 2, 3)
    elif form == 'npint':
        attrs['res'] = (np.int64(2), np.int64(3))
    if r['kind'] == 'pair' and form == 'npfloat':
        attrs['res'] = (np.float64(r['v'][0]), np.float64(r['v'][1]))
    ydim, xdim = case.get('dims') or ['y', 'x']
    coords = {}
    if case['coords']:
        coords = {ydim: np.array(case['ys']), xdim: np.array(case['xs'])}
    lay = case.get('layout')
    if lay == 'F':
        a = np.asfortranarray(a)
    elif lay == 'view' and rows and cols:          # a strided, non-contiguous view
        big = np.zeros((2 * rows, 2 * cols), dtype=a.dtype)
        big[::2, ::2] = a
        a = big[::2, ::2]
    elif lay == 'neg' and rows and cols:           # negative strides
        a = a[::-1, ::-1].copy()[::-1, ::-1]
    elif lay == 'T':                               # transposed view of the transposed data
        a = np.ascontiguousarray(a.T).T
    elif lay == 'strided23' and rows and cols:     # a[::2, ::3] of a larger array
        big = np.zeros((2 * rows, 3 * cols), dtype=a.dtype)
        big[::2, ::3] = a
        a = big[::2, ::3]
    elif lay == 'ro':                              # non-writeable
        a.setflags(write=False)
    if case.get('chunks') is not None:
        a = wrap_dask(a, case['chunks'])
    return xr.DataArray(a, dims=[ydim, xdim], coords=coords, attrs=attrs, name='terrain')


def wrap_dask(a, chunks):
    import dask.array as da
    ch = tuple(tuple(c) if isinstance(c, (list, tuple)) else c for c in chunks)
    return da.from_array(a, chunks=ch)


def split_sizes(rng, n):
    """a random composition of n (uneven chunk sizes along one axis)"""
    out = []
    left = n
    while left > 0:
        k = rng.randint(1, max(1, min(3, left)))
        out.append(k)
        left -= k
    return out


def gen_chunks(rng, rows, cols, style):
    if style == 'single':
        return [rows, cols]
    if style == 'cells':
        return [1, 1]
    return [split_sizes(rng, rows), split_sizes(rng, cols)]


def to_lists(a):
    a = np.asarray(a)
    return [[float(v) for v in row] for row in a.tolist()]


# ---------------------------------------------------------------- model side
def tok(v):
    if isinstance(v, bool):
        v = int(v)
    if isinstance(v, int):
        if abs(v) < (1 << 60):
            return '#%d' % v
        return '#-0x%x' % -v if v < 0 else '#0x%x' % v
    if math.isnan(v):
        return 'nan'
    if math.isinf(v):
        return 'inf' if v > 0 else '-inf'
    return v.hex()


def ftok(v):
    return tok(float(v))


def grid_tok(data):
    rows = len(data)
    cols = len(data[0]) if rows else 0
    return '%d %d %s' % (rows, cols, ' '.join(tok(v) for r in data for v in r))


def res_tok(case):
    r = case['res']
    if r['kind'] == 'scalar':
        return 'scalar %s' % ftok(r['v'])
    if r['kind'] == 'pair':
        return 'pair %s %s' % (ftok(r['v'][0]), ftok(r['v'][1]))
    return 'absent'


def geom_tok(case):
    return '%s %d %s %d %s' % (res_tok(case), len(case['xs']), ' '.join(ftok(v) for v in case['xs']),
                               len(case['ys']), ' '.join(ftok(v) for v in case['ys']))


def model_line(case, fn, consts, params=None, data=None):
    data = case['data'] if data is None else data
    if fn == 'slope':
        return 'slope %s %s %s' % (ftok(consts[0]), geom_tok(case), grid_tok(data))
    if fn == 'aspect':
        return 'aspect %s %s' % (ftok(consts[1]), grid_tok(data))
    if fn == 'curvature':
        return 'curvature %s %s' % (geom_tok(case), grid_tok(data))
    return 'hillshade %s %s %s %s' % (ftok(math.pi), ftok(params['azimuth']), ftok(params['altitude']), grid_tok(data))


def same_bits(a, b):
    if math.isnan(a) or math.isnan(b):
        return math.isnan(a) and math.isnan(b)
    return a == b and math.copysign(1.0, a) == math.copysign(1.0, b)


def compare_model(ctx, pending):
    if ctx.model is None or not pending:
        return
    outs = ctx.model.run([p[0] for p in pending])
    for (line, impl, case, fn, params), mo in zip(pending, outs):
        ctx.traces += 1
        rep = dict(case, fn=fn, params=params)
        if isinstance(impl, str) or mo.startswith('ERR'):
            if impl != mo:
                ctx.violation('correspondence', '%s: implementation %s vs model %s' % (fn, impl if isinstance(impl, str) else 'a result', mo[:60]), rep)
            continue
        mv = [float.fromhex(t) if t not in ('nan', '-nan') else float('nan') for t in mo.split()]
        if len(mv) != len(impl):
            ctx.violation('correspondence', '%s: model returned %d cells for %d' % (fn, len(mv), len(impl)), rep)
            continue
        for i, (a, b) in enumerate(zip(impl, mv)):
            if fn == 'hillshade':
                ok = (math.isnan(a) and math.isnan(b)) or (not math.isnan(a) and not math.isnan(b) and
                                                           abs(a - b) <= HS_TOL * angle_factor(params['azimuth']))
            else:
                ok = same_bits(a, b)
            if not ok:
                ctx.violation('correspondence', '%s: implementation %r vs model %r at flat index %d' % (fn, a, b, i),
                              dict(rep, flat_index=i, impl=a, model=b))
                break


# ---------------------------------------------------------------- running the implementation
def run_fn(m, fn, agg, params=None):
    kw = {}
    if params and 'name' in params:
        kw['name'] = params['name']                # also the falsy names None and ''
    with np.errstate(all='ignore'):
        if fn == 'slope':
            res = m['slope'].slope(agg, **kw)
        elif fn == 'aspect':
            res = m['aspect'].aspect(agg, **kw)
        elif fn == 'curvature':
            res = m['curvature'].curvature(agg, **kw)
        elif params.get('defaults'):
            res = m['hillshade'].hillshade(agg, **kw)           # azimuth=225, angle_altitude=25 left at their defaults
        else:
            res = m['hillshade'].hillshade(agg, azimuth=params['azimuth'], angle_altitude=params['altitude'], **kw)
    if kw and res.name != kw['name'] and not (kw['name'] in (None, '') and res.name in (None, '')):
        raise AssertionError('%s: result is named %r, asked for %r' % (fn, res.name, kw['name']))
    return res


FNS = ['slope', 'aspect', 'curvature', 'hillshade']
AZ = [225, 0, 90, 180, 315, 360, 45.5, 270.0, 100, -45, -360, 405, 720.5, 1e-3, 359.999, -0.5, 3600]
ALT = [25, 0, 45, 90, 60.5, 10, 80.0, -10, 120, 180, -90, 1e-3, 89.999, 270.5]


def draw_angles(rng):
    u = rng.random()
    if u < 0.1:
        return dict(azimuth=225, altitude=25, defaults=True)        # optional arguments left at their defaults
    if u < 0.3:
        p = dict(azimuth=rng.uniform(-720, 720), altitude=rng.uniform(-180, 180))
    else:
        p = dict(azimuth=rng.choice(AZ), altitude=rng.choice(ALT))
    if rng.random() < 0.15:
        p['name'] = 'out_%d' % rng.randint(0, 9)
    return p


def theme_cases(rng, quick=True):
    """appended stream (theme audit): layouts, magnitudes, numpy-scalar / falsy parameters, extreme coordinates, degenerate content"""
    out = []

    def mk(dt, data, res=None, xs=None, ys=None, **kw):
        rows, cols = len(data), len(data[0])
        c = dict(dtype=dt, kind=kw.pop('kind', 'theme'), data=data, res=res or dict(kind='pair', v=[2.0, 0.5], form='tuple'),
                 xs=xs or list(range(cols)), ys=ys or list(range(rows)), coords=xs is not None, dims=['y', 'x'],
                 params=kw.pop('params', dict(azimuth=225, altitude=25)))
        c.update(kw)
        c['exact'] = is_exact_class(c)
        return c
    base = [[float(rng.randint(0, 50)) + rng.choice([0.0, 0.5, 0.25]) for _ in range(6)] for _ in range(5)]
    ibase = [[rng.randint(0, 200) for _ in range(6)] for _ in range(5)]
    # 1. memory layouts of the elevation array
    for lay in ['F', 'T', 'strided23', 'neg', 'view', 'ro']:
        out.append(mk('float64', base, layout=lay, kind='layout-' + lay))
    for lay in (['T', 'strided23'] if quick else ['F', 'T', 'strided23', 'neg', 'view', 'ro']):
        out.append(mk('int32', ibase, layout=lay, kind='layout-' + lay))
        out.append(mk('float32', base, layout=lay, kind='layout-' + lay, chunks=[[2, 3], [1, 5]]))
    # 2. magnitudes: elevations times 2^k; cell sizes likewise
    for k in ([-100, -30, 60, 100] if quick else [-120, -100, -60, -30, 30, 60, 100, 120]):
        dt = 'float64' if k % 40 else 'float32'
        out.append(mk(dt, [[v * 2.0 ** k for v in r] for r in base], kind='magnitude 2^%d' % k))
    out.append(mk('float64', base, res=dict(kind='pair', v=[2.0 ** -40, 2.0 ** 30], form='tuple'), kind='cellsize-extreme'))
    #    numpy scalars for the angles, falsy names
    out.append(mk('float64', base, params=dict(azimuth=np.int64(225), altitude=np.float64(25.0)), kind='numpy-scalar-angles'))
    out.append(mk('int16', ibase, params=dict(azimuth=0, altitude=0, name=None), kind='falsy'))
    out.append(mk('float32', base, params=dict(azimuth=0.0, altitude=0.0, name=''), kind='falsy'))
    # 6. coordinates: huge spacing, negative origin, descending, fractional, x != y
    out.append(mk('float64', base, res=dict(kind='absent'), xs=[-2e6 + i * 1e6 for i in range(6)], ys=[7.25 - i * 0.125 for i in range(5)],
                  kind='coords-extreme'))
    out.append(mk('int32', ibase, res=dict(kind='absent'), xs=[1e6 - i * 30.0 for i in range(6)], ys=[-1e6 + i * 1e6 for i in range(5)],
                  kind='coords-extreme', chunks=[[1, 4], [3, 3]]))
    # 7. degenerate content: all NaN, a single valid cell, all equal
    nan = float('nan')
    out.append(mk('float64', [[nan] * 4 for _ in range(4)], kind='all-nan'))
    one = [[nan] * 5 for _ in range(5)]
    one[2][2] = 7.0
    out.append(mk('float32', one, kind='single-valid'))
    out.append(mk('float64', [[nan] * 4 for _ in range(4)], kind='all-nan', chunks=[1, 1]))
    out.append(mk('uint8', [[9] * 4 for _ in range(3)], kind='all-equal'))
    return out


def nan_window_family(rng, dt, chunks=None):
    """one raster tiling 6 x 9 blocks of 3x3 cells: block (s, p) is surface s — flat, pure N-S ramp, pure E-W ramp, E-W symmetric,
    N-S symmetric, random: windows where one or both gradients are EXACTLY zero — with a single NaN at window position p
    (8 neighbours + centre).  The formula says NaN wherever an operand is NaN; the block centres (and every other interior cell)
    go through the oracle and the model"""
    nan = float('nan')
    surfaces = []
    surfaces.append([[7.0] * 3 for _ in range(3)])
    k = float(rng.randint(1, 5))
    surfaces.append([[k * r + 2.0] * 3 for r in range(3)])                      # N-S ramp: dz_dx == 0 exactly
    surfaces.append([[k * c + 1.0 for c in range(3)] for _ in range(3)])        # E-W ramp: dz_dy == 0 exactly
    a = [float(rng.randint(0, 30)) for _ in range(6)]
    surfaces.append([[a[2 * r], a[2 * r + 1], a[2 * r]] for r in range(3)])     # E-W symmetric: dz_dx == 0
    surfaces.append([[a[c], a[c + 1], a[c + 2]] if r != 1 else [a[3], a[4], a[5]] for r in range(3) for c in [0]])  # rows 0 and 2 equal
    surfaces.append([[float(rng.randint(0, 60)) for _ in range(3)] for _ in range(3)])
    data = [[0.0] * 27 for _ in range(18)]
    for si, surf in enumerate(surfaces):
        for p in range(9):
            for r in range(3):
                for c in range(3):
                    v = nan if (r * 3 + c) == p else surf[r][c]
                    data[3 * si + r][3 * p + c] = v
    if dt == 'float32':
        data = [[float(np.float32(v)) for v in r] for r in data]
    case = dict(dtype=dt, kind='nan-window-family', data=data, res=dict(kind='pair', v=[2.0, 0.5], form='tuple'),
                xs=list(range(27)), ys=list(range(18)), coords=False, dims=['y', 'x'], chunks=chunks,
                params=dict(azimuth=rng.choice([225, 90, 0]), altitude=rng.choice([25, 45])))
    case['exact'] = False
    return case


def run_lazy_after(ctx, m, consts, rng, pending):
    """lazy Dask results that are computed only AFTER other library calls (other rasters, other parameters, NumPy and Dask)"""
    c = new_case(rng, dt=rng.choice(['float32', 'int16', 'float64']), shape=(5, 6), kind='small')
    c.pop('layout', None)
    c['chunks'] = [[2, 3], [1, 2, 3]]
    c['params'] = dict(azimuth=100, altitude=45)
    agg = make_agg(c)
    lazies = [(fn, run_fn(m, fn, agg, c['params'])) for fn in FNS]
    other = new_case(rng, dt='float64', shape=(4, 4), kind='ramp')
    other.pop('layout', None)
    for ch in (None, [1, 1]):
        o = dict(other, chunks=ch, params=dict(azimuth=0, altitude=90))
        for fn in FNS:
            np.asarray(run_fn(m, fn, make_agg(o), o['params']).data)
    for fn, lz in lazies:
        out = to_lists(lz.data)
        n0 = len(ctx.violations)
        oracle_raster(ctx, c, fn, out, c['params'])
        for v in ctx.violations[n0:]:
            v['what'] = '[lazy Dask result computed after other library calls] ' + v['what']
        pending.append((model_line(c, fn, consts, c['params']), [x for r in out for x in r], dict(c, lazy_after=True), fn, c['params']))


def eq_out(a, b):
    return (math.isnan(a) and math.isnan(b)) or a == b


def metamorphic(ctx, m, case, outs, params):
    """offset / single-cell poke / quarter turn on the implementation (property text)"""
    rng = ctx.rng
    data = case['data']
    rows, cols = len(data), len(data[0])
    if rows < 3 or cols < 3:
        return
    which = rng.choice(['poke', 'poke', 'offset', 'turn'])
    isf = case['dtype'].startswith('float')
    if which == 'poke':
        py, px = rng.randrange(rows), rng.randrange(cols)
        nv = float('nan') if (isf and rng.random() < 0.5) else gen_value(rng, case['dtype'], 'wide' if not isf else 'rand')
        d2 = [list(r) for r in data]
        d2[py][px] = nv
        agg2 = make_agg(case, d2)
        for fn in FNS:
            if outs.get(fn) is None:
                continue
            try:
                o2 = to_lists(run_fn(m, fn, agg2, params).data)
            except Exception as e:
                ctx.violation('oracle', '%s raised %s after poking one cell' % (fn, type(e).__name__), dict(case, fn=fn, poke=[py, px, nv]))
                return
            for y in range(rows):
                for x in range(cols):
                    if (abs(y - py) > 1 or abs(x - px) > 1) and not eq_out(outs[fn][y][x], o2[y][x]):
                        ctx.violation('oracle', '%s: changing cell (%d,%d) to %r changed the output at (%d,%d) outside its 3x3 neighbourhood: %r -> %r' % (
                            fn, py, px, nv, y, x, outs[fn][y][x], o2[y][x]), dict(case, fn=fn, poke=[py, px, nv], params=params))
                        return
    elif which == 'offset' and case.get('exact'):
        k = rng.choice([1, 5, 100, 1000]) if not isf else rng.choice([1.0, 5.0, 100.0, -7.0, 1000.0])
        if not isf:
            hi = int(np.iinfo(case['dtype']).max)
            if max(v for r in data for v in r) + k > hi:
                return
        d2 = [[v + k for v in r] for r in data]
        agg2 = make_agg(case, d2)
        for fn in ['slope', 'aspect', 'curvature', 'hillshade']:
            if outs.get(fn) is None:
                continue
            o2 = to_lists(run_fn(m, fn, agg2, params).data)
            for y in range(rows):
                for x in range(cols):
                    if not eq_out(outs[fn][y][x], o2[y][x]):
                        ctx.violation('oracle', '%s: adding %r to every elevation changed cell (%d,%d): %r -> %r' % (
                            fn, k, y, x, outs[fn][y][x], o2[y][x]), dict(case, fn=fn, offset=k, params=params))
                        return
    elif which == 'turn':
        sq = dict(case, res=dict(kind='pair', v=[2.0, 2.0], form='tuple'), coords=False)
        a1 = make_agg(sq)
        d2 = np.rot90(np.asarray(a1.data)).copy()
        if case.get('chunks') is not None:
            d2 = wrap_dask(d2, [1, 1] if case['chunks'] == [1, 1] else list(d2.shape))
        a2 = xr.DataArray(d2, dims=['y', 'x'], attrs=dict(a1.attrs), name='terrain')
        for fn in ['slope', 'curvature', 'aspect']:
            o1 = np.asarray(run_fn(m, fn, a1).data)
            o2 = np.asarray(run_fn(m, fn, a2).data)
            t1 = np.rot90(o1)
            for y in range(t1.shape[0]):
                for x in range(t1.shape[1]):
                    u, v = float(t1[y, x]), float(o2[y, x])
                    if math.isnan(u) or math.isnan(v):
                        ok = math.isnan(u) and math.isnan(v)
                    elif math.isinf(u) or math.isinf(v):
                        ok = True
                    elif fn == 'aspect':
                        if u == -1.0 or v == -1.0:
                            ok = (u == v) or not case.get('exact')
                        else:
                            ok = ang_close(v, u - 90.0, 2e-3) or not _well_conditioned(sq, y, x, t1.shape)
                    elif fn == 'curvature':
                        ok = (u == v)
                    else:
                        ok = (u == v) if case.get('exact') else abs(u - v) <= 1e-3
                    if not ok:
                        ctx.violation('oracle', '%s: quarter turn (np.rot90, square cells) maps %r to %r at turned cell (%d,%d)%s' % (
                            fn, u, v, y, x, ' (expected aspect - 90 mod 360)' if fn == 'aspect' else ' (expected equal)'),
                            dict(case, fn=fn, turn=True, cell=[y, x]))
                        return


def _well_conditioned(case, y, x, shape):
    # aspect under rotation is compared only on integer-valued (exact) data, where the gradient is exact
    return bool(case.get('exact'))


def run_case(ctx, m, consts, case, pending, meta=True):
    rng = ctx.rng
    agg = make_agg(case)
    params = draw_angles(rng) if 'params' not in case else case['params']
    case['params'] = params
    rows = len(case['data'])
    cols = len(case['data'][0]) if rows else 0
    outs = {}
    for fn in FNS:
        try:
            res = run_fn(m, fn, agg, params)
            out = to_lists(res.data)
            outs[fn] = out
        except ValueError:
            outs[fn] = None
            if fn == 'hillshade' and (rows < 2 or cols < 2):
                pending.append((model_line(case, fn, consts, params), 'ERR value', case, fn, params))
                continue
            ctx.violation('oracle', '%s raised ValueError' % fn, dict(case, fn=fn))
            continue
        except Exception as e:
            outs[fn] = None
            key = None
            if isinstance(e, NotImplementedError) and case['dtype'] == 'float16' and case.get('chunks') is None \
                    and fn in ('slope', 'aspect'):
                key = 'float16-numpy-slope-aspect'
            ctx.violation('oracle', '%s raised %s: %s (dtype %s)' % (fn, type(e).__name__, e, case['dtype']), dict(case, fn=fn), key=key)
            continue
        oracle_raster(ctx, case, fn, out, params)
        if fn == 'hillshade' and case.get('chunks') is not None and (rows < 2 or cols < 2):
            continue                # Dask pads every block, np.gradient does not raise: all-NaN, checked by the oracle
        if rows and cols:
            pending.append((model_line(case, fn, consts, params), [v for r in out for v in r], case, fn, params))
    if rng.random() < 0.15 and rows >= 1 and cols >= 1:
        try:
            ds = m['analytics'].summarize_terrain(agg)
            for fn in ['slope', 'aspect', 'curvature']:
                o = to_lists(ds['terrain-%s' % fn].data)
                if outs.get(fn) is not None and any(not eq_out(a, b) for ra, rb in zip(o, outs[fn]) for a, b in zip(ra, rb)):
                    ctx.violation('oracle', 'summarize_terrain: %s differs from %s()' % (fn, fn), dict(case, fn='summarize_terrain'))
        except Exception as e:
            key = 'float16-numpy-slope-aspect' if (isinstance(e, NotImplementedError) and case['dtype'] == 'float16'
                                                  and case.get('chunks') is None) else None
            ctx.violation('oracle', 'summarize_terrain raised %s: %s' % (type(e).__name__, e), dict(case, fn='summarize_terrain'), key=key)
    if meta and all(outs.get(fn) is not None for fn in FNS):
        metamorphic(ctx, m, case, outs, params)


def run_together(ctx, m, consts, case, pending):
    """several lazy Dask results (all four functions x 2-3 variants: same raster with another cell size / other angles,
    and another raster) evaluated in ONE dask.compute; each compared with the oracle, its NumPy-backed result and the model"""
    import dask
    rng = ctx.rng
    v0 = dict(case, params=draw_angles(rng))
    r0 = case['res']
    if r0['kind'] == 'pair':
        res2 = dict(kind='pair', v=[r0['v'][1] * 2.0, r0['v'][0] * 0.5], form='tuple')
    else:
        res2 = dict(kind='pair', v=[4.0, 0.5], form='tuple')
    v1 = dict(case, res=res2, params=draw_angles(rng))
    variants = [v0, v1]
    rows, cols = len(case['data']), len(case['data'][0])
    d2 = [list(r) for r in case['data']]
    d2[rng.randrange(rows)][rng.randrange(cols)] = gen_value(rng, case['dtype'], 'small')
    variants.append(dict(case, data=d2, params=v0['params']))
    lazies = []
    try:
        for v in variants:
            agg = make_agg(v)
            for fn in FNS:
                lazies.append((v, fn, run_fn(m, fn, agg, v['params'])))
        with np.errstate(all='ignore'):
            outs = dask.compute(*[r.data for _, _, r in lazies])
    except Exception as e:
        ctx.violation('oracle', 'lazy results in one dask.compute raised %s: %s' % (type(e).__name__, e), dict(case, together=True))
        return
    for (v, fn, _), o in zip(lazies, outs):
        out = to_lists(o)
        n0 = len(ctx.violations)
        oracle_raster(ctx, v, fn, out, v['params'])
        alone = to_lists(run_fn(m, fn, make_agg(dict(v, chunks=None)), v['params']).data)
        if any(not eq_out(a, b) for ra, rb in zip(out, alone) for a, b in zip(ra, rb)):
            ctx.violation('oracle', '%s: differs from the NumPy-backed result' % fn, dict(v, fn=fn))
        for x in ctx.violations[n0:]:
            x['what'] = '[one of %d lazy results computed in ONE dask.compute] %s' % (len(lazies), x['what'])
            x['replay'] = dict(case, together=True, fn=fn)
        pending.append((model_line(v, fn, consts, v['params']), [c for r in out for c in r], dict(v, together=True), fn, v['params']))


def run_sequence(ctx, m, consts, base, pending):
    """call SEQUENCES: a raster with coordinates and no `res` attribute is analysed, then rasters DERIVED from that very object
    (strided / reversed slices, assign_coords with rescaled coordinates, .copy()) are analysed. Each derived result must be the
    documented formula with the cell size of ITS OWN coordinates, must equal the result on a freshly constructed raster with the
    same data and coordinates, and no call may change the attrs of its input"""
    ydim, xdim = base.get('dims') or ['y', 'x']
    params = dict(azimuth=225, altitude=25)
    full = make_agg(base)
    snap = dict(full.attrs)

    def sub(case, rs, cs, xs=None, ys=None):
        data = [list(r[cs]) for r in case['data'][rs]]
        return dict(case, data=data, xs=list(case['xs'][cs]) if xs is None else xs, ys=list(case['ys'][rs]) if ys is None else ys,
                    chunks=None if case.get('chunks') is None else [len(data), len(data[0])])

    def check(label, arr, case_d, fresh_too=True):
        case_d = dict(case_d, exact=is_exact_class(case_d))
        before = dict(arr.attrs)
        data0 = np.array(np.asarray(arr.data), copy=True)
        coords0 = {d: np.array(arr[d].values, copy=True) for d in arr.dims}
        for fn in FNS:
            rep = dict(base, sequence=True, step=label, fn=fn)
            try:
                out = to_lists(run_fn(m, fn, arr, params).data)
            except Exception as e:
                ctx.violation('oracle', '[call sequence, %s] %s raised %s: %s' % (label, fn, type(e).__name__, e), rep)
                return False
            if dict(arr.attrs) != before:
                ctx.violation('oracle', '[call sequence, %s] %s changed the attrs of its input raster: %r -> %r' % (
                    label, fn, before, dict(arr.attrs)), rep)
                return False
            if not np.array_equal(np.asarray(arr.data), data0, equal_nan=data0.dtype.kind == 'f') or \
                    any(not np.array_equal(np.asarray(arr[d].values), cv) for d, cv in coords0.items()):
                ctx.violation('oracle', '[call sequence, %s] %s changed the data / coordinates of its input raster' % (label, fn), rep)
                return False
            n0 = len(ctx.violations)
            oracle_raster(ctx, case_d, fn, out, params)
            if fresh_too:
                ref = to_lists(run_fn(m, fn, make_agg(case_d), params).data)
                bad = [(y, x) for y, (ra, rb) in enumerate(zip(out, ref)) for x, (a, b) in enumerate(zip(ra, rb)) if not eq_out(a, b)]
                if bad and len(ctx.violations) == n0:
                    y, x = bad[0]
                    ctx.violation('oracle', '%s: cell (%d,%d) is %r but the same call on a freshly built raster with the same data and '
                                  'coordinates gives %r' % (fn, y, x, out[y][x], ref[y][x]), rep)
            for v in ctx.violations[n0:]:
                if not v['what'].startswith('[call sequence'):
                    v['what'] = '[call sequence, %s, after the parent raster was analysed] %s' % (label, v['what'])
                v['replay'] = rep
            if len(ctx.violations) > n0:
                return False
            pending.append((model_line(case_d, fn, consts, params), [c for r in out for c in r], dict(case_d, sequence=label), fn, params))
        return True

    if not check('first call on the raster', full, base, fresh_too=False):
        return
    if dict(full.attrs) != snap:
        ctx.violation('oracle', '[call sequence] the raster\'s attrs changed from %r to %r' % (snap, dict(full.attrs)), dict(base, sequence=True))
        return
    rows, cols = len(base['data']), len(base['data'][0])
    steps = [
        ('full[::2, ::3]', lambda: full[::2, ::3], sub(base, slice(None, None, 2), slice(None, None, 3))),
        ('full[::-1, ::-1]', lambda: full[::-1, ::-1], sub(base, slice(None, None, -1), slice(None, None, -1))),
        ('full[1:, :-1][::2, ::2]', lambda: full[1:, :-1][::2, ::2], sub(sub(base, slice(1, None), slice(None, -1)),
                                                                         slice(None, None, 2), slice(None, None, 2))),
        ('assign_coords(rescaled)', lambda: full.assign_coords({ydim: np.array(base['ys']) * 1000.0, xdim: np.array(base['xs']) * 0.5}),
         sub(base, slice(None), slice(None), xs=[float(v) * 0.5 for v in base['xs']], ys=[float(v) * 1000.0 for v in base['ys']])),
        ('copy()', lambda: full.copy(), sub(base, slice(None), slice(None))),
        ('astype(float32)[::2, ::2]', lambda: full.astype('float32')[::2, ::2],
         dict(sub(base, slice(None, None, 2), slice(None, None, 2)), dtype='float32')),
        ('copy()[::3, ::2]', lambda: full.copy()[::3, ::2], sub(base, slice(None, None, 3), slice(None, None, 2))),
    ]
    for label, mk, case_d in steps:
        if not check(label, mk(), case_d):
            return
    # the parent again, after its children were analysed
    check('the parent raster again', full, base)


def new_case(rng, **kw):
    dt, kind, data = gen_raster(rng, **kw)
    rows = len(data)
    cols = len(data[0]) if rows else 0
    res, xs, ys, coords = gen_geometry(rng, rows, cols, allow_mixed=(dt == 'float64'), allow_int=(dt in INT_CS_DT))
    case = dict(dtype=dt, kind=kind, data=data, res=res, xs=xs, ys=ys, coords=coords)
    case['dims'] = rng.choice([['y', 'x'], ['y', 'x'], ['lat', 'lon'], ['row', 'col'], ['x', 'y'], ['northing', 'easting']])
    if dt in ('float64', 'int32') and rng.random() < 0.25:
        case['layout'] = rng.choice(['F', 'view', 'neg'])        # memory layouts (extra Numba specialisations: few dtypes)
    case['exact'] = is_exact_class(case)
    return case


def run(ctx, model=True):
    m = mods()
    consts = source_constants(m)
    rng = ctx.rng
    pending = []
    n = 90 if ctx.quick() else 12000
    cases = []
    # named hard cases: every dtype on a ramp and on ties, cx != cy
    for dt in INT_DT + ['float32', 'float64']:
        for kind in ['ramp', 'ties']:
            c = new_case(rng, dt=dt, shape=(4, 5), kind=kind)
            c['res'] = dict(kind='pair', v=[2.0, 0.5] if kind == 'ramp' else ([3, 1] if dt in INT_CS_DT else [3.0, 1.0]), form='tuple')
            cases.append(c)
    for _ in range(n):
        cases.append(new_case(rng))
    for kind in (['ramp', 'frac'] if ctx.quick() else ['ramp', 'frac', 'ties', 'special', 'small', 'signed']):
        cases.append(new_case(rng, dt='float16', shape=(4, 4), kind=kind))
    for _ in range(1 if ctx.quick() else 40):           # large-ish rasters
        big = (rng.randint(15, 20), rng.randint(15, 24)) if ctx.quick() else (rng.randint(20, 60), rng.randint(20, 60))
        cases.append(new_case(rng, dt=rng.choice(['float64', 'float32', 'int32']), shape=big))
    # Dask-backed stream: every dtype (all integer dtypes included) x {single chunk, 1-cell chunks, uneven chunks}
    styles = ['single', 'cells', 'uneven']
    kinds_i = ['ramp', 'ties', 'small', 'big', 'signed']
    k = 0
    for dt in INT_DT + ['float32', 'float64']:
        for st in styles:
            kind = kinds_i[k % len(kinds_i)] if not dt.startswith('float') else ['ramp', 'special', 'rand', 'frac', 'ties'][k % 5]
            if dt.startswith('u') and kind == 'signed':
                kind = 'small'
            k += 1
            c = new_case(rng, dt=dt, shape=(rng.randint(3, 4), rng.randint(3, 5)), kind=kind)
            c['chunks'] = gen_chunks(rng, len(c['data']), len(c['data'][0]), st)
            cases.append(c)
    for _ in range(6 if ctx.quick() else 800):
        c = new_case(rng)
        rows_ = len(c['data'])
        c['chunks'] = gen_chunks(rng, rows_, len(c['data'][0]) if rows_ else 0, rng.choice(styles))
        cases.append(c)
    for case in cases:
        rows = len(case['data'])
        cols = len(case['data'][0]) if rows else 0
        ctx.case(case, nontrivial=rows >= 3 and cols >= 3)
        ctx.count('%s%s/%s/res=%s%s' % ('dask:' if case.get('chunks') is not None else '', case['dtype'], case['kind'],
                                        case['res'].get('form', case['res']['kind']), '+coords' if case['coords'] else ''))
        run_case(ctx, m, consts, case, pending)
    # lazy results of several functions / parameters / rasters evaluated in one graph
    for _ in range(4 if ctx.quick() else 300):
        c = new_case(rng, shape=(rng.randint(3, 5), rng.randint(3, 5)))
        c['chunks'] = gen_chunks(rng, len(c['data']), len(c['data'][0]), rng.choice(styles))
        ctx.case(dict(c, together=True))
        ctx.count('dask-together:%s/%s' % (c['dtype'], c['kind']))
        run_together(ctx, m, consts, c, pending)
    # ---- appended stream: call sequences on derived rasters (rng draws of the streams above are unchanged) ----
    seq = [('float64', None), ('int32', None), ('float32', 'dask')]
    if not ctx.quick():
        seq = seq * 15 + [(dt, b) for dt in INT_DT for b in (None, 'dask')]
    for dt, backend in seq:
        rows_, cols_ = rng.randint(7, 9), rng.randint(7, 10)
        c = new_case(rng, dt=dt, shape=(rows_, cols_), kind=rng.choice(['small', 'ramp', 'ties'] + ([] if dt.startswith('int') else ['frac', 'rand'])))
        dx, dy = rng.choice([1.0, 0.5, 2.0, 30.0, 0.25, 3.0]), rng.choice([1.0, 0.5, 2.0, 30.0, 0.25, 10.0])
        c['res'] = dict(kind='absent')
        c['coords'] = True
        c['xs'] = [rng.choice([0.0, 5.0, -3.0]) + i * dx for i in range(cols_)]
        c['ys'] = [rng.choice([0.0, 7.0, 100.0]) + i * dy for i in range(rows_)][::rng.choice([1, -1])]
        c.pop('layout', None)
        c['chunks'] = gen_chunks(rng, rows_, cols_, rng.choice(styles)) if backend == 'dask' else None
        c['exact'] = is_exact_class(c)
        ctx.case(dict(c, sequence=True))
        ctx.count('call-sequence:%s%s' % ('dask:' if backend else '', dt))
        run_sequence(ctx, m, consts, c, pending)
    # ---- appended stream: theme audit (layouts, magnitudes, parameters, coordinates, degenerate content, lazy-after) ----
    for c in theme_cases(rng, ctx.quick()):
        ctx.case(c)
        ctx.count('theme:%s%s/%s' % ('dask:' if c.get('chunks') is not None else '', c['dtype'], c['kind']))
        run_case(ctx, m, consts, c, pending, meta=False)
    for _ in range(1 if ctx.quick() else 40):
        ctx.count('theme:lazy-after-other-calls')
        run_lazy_after(ctx, m, consts, rng, pending)
    # ---- appended stream: a single NaN at each window position x surfaces with exactly zero gradients (54 windows per raster) ----
    fam = [('float64', None), ('float32', None), ('float64', [[4, 5, 9], [7, 20]]), ('float32', [1, 1] if not ctx.quick() else [[9, 9], [13, 14]])]
    if not ctx.quick():
        fam = fam * 10
    for dt, ch in fam:
        c = nan_window_family(rng, dt, ch)
        ctx.case(c)
        ctx.count('nan-window-family:%s%s' % ('dask:' if ch is not None else '', dt))
        run_case(ctx, m, consts, c, pending, meta=False)
    if model:
        compare_model(ctx, pending)
    ctx.exhaustive = False


def search(ctx):
    old, mdl = ctx.tier, ctx.model
    ctx.tier, ctx.model = 'thorough', None
    try:
        run(ctx, model=False)
    finally:
        ctx.tier, ctx.model = old, mdl


def _fix(v):
    if isinstance(v, str) and v in ('nan', 'inf', '-inf'):
        return float(v)
    if isinstance(v, list):
        return [_fix(x) for x in v]
    return v


def replay_case(ctx, case):
    m = mods()
    consts = source_constants(m)
    case = dict(case)
    case['data'] = _fix(case['data'])
    for k in ('fn', 'cell', 'got', 'poke', 'offset', 'turn', 'flat_index', 'impl', 'model'):
        case.pop(k, None)
    if case.get('params') is None:
        case.pop('params', None)
    ctx.case(case)
    pending = []
    if case.pop('sequence', None):
        case.pop('step', None)
        run_sequence(ctx, m, consts, case, pending)
        compare_model(ctx, pending[:40])
        return
    if case.pop('together', None):
        for _ in range(6):
            run_together(ctx, m, consts, dict(case), pending)
            if ctx.violations:
                break
        compare_model(ctx, pending[:12])
        return
    for _ in range(12):          # the metamorphic step draws its kind / position from the rng
        run_case(ctx, m, consts, case, pending, meta=True)
        if ctx.violations:
            break
    compare_model(ctx, pending[:4])
