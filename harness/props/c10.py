"""C10 — analysis functions never modify their inputs and keep the raster's identity.

Static part: `facts(repo)` re-translates, on every run, every function of xrspatial/*.py reachable from a
public function into the effect IR of coq/C10/Model.v (fail closed: unknown library calls are given the worst
effect — write every argument, alias every argument — so an unrecognised call on an argument-derived value
breaks an obligation).  coq/C10/Props.v proves the checker sound for all programs / traces / heaps and
discharges `noninterfering (prog f) (roots f) = true` (or the exact documented exception) per public function.

Dynamic part (oracle + correspondence): every public raster function x backend x dtype x memory layout:
deep snapshot of every argument before/after, np.shares_memory(output, input), write-to-output probe, output
identity; compared with the model's prediction for that function (extracted checker run on the regenerated IR).
"""
import ast
import os
import sys

ID = 'C10'

# =====================================================================================================
#  Part 1.  Source -> effect IR translator
# =====================================================================================================

MODULES = ['utils', 'analytics', 'aspect', 'bump', 'classify', 'convolution', 'curvature', 'focal', 'hillshade',
           'local', 'multispectral', 'pathfinding', 'perlin', 'proximity', 'slope', 'terrain', 'viewshed',
           'zonal', 'experimental/polygonize']

# CuPy / CUDA / RTX paths cannot run in this sandbox (no CUDA): out of scope for every check.
GPU_TESTS = {'has_cuda_and_cupy', 'is_cupy_array', 'has_rtx', 'is_cupy_backed', 'is_dask_cupy', '_has_cupy',
             '_has_cuda'}
GPU_NAME_PARTS = ('cupy', 'gpu', 'cuda', 'rtx')
MAPPER_LIVE_KW = ('numpy_func', 'dask_func')

# ---- effect table of the library primitives the wrappers use (TRUSTED: NumPy/xarray/Dask semantics) -------
# result kinds: 'fresh' new object+buffer; 'copy' fresh copy of arg0; 'view' new object over arg0's buffer;
# 'alias' may be arg0 itself (object and buffer); 'elems' new container holding the same elements as the args;
# 'wrap' new object whose buffer is arg0's buffer (xr.DataArray(data));
EXT_FRESH = set('''
numpy.zeros numpy.ones numpy.empty numpy.full numpy.zeros_like numpy.ones_like numpy.empty_like numpy.full_like
numpy.arange numpy.linspace numpy.meshgrid numpy.tile numpy.repeat numpy.where numpy.unique numpy.sort numpy.argsort
numpy.isfinite numpy.isnan numpy.isinf numpy.isclose numpy.any numpy.all numpy.sum numpy.prod numpy.min numpy.max numpy.mean numpy.std
numpy.median numpy.nanmin numpy.nanmax numpy.nanmean numpy.nanstd numpy.nanvar numpy.nansum numpy.ptp numpy.abs numpy.sqrt
numpy.exp numpy.log numpy.sin numpy.cos numpy.tan numpy.arctan numpy.arctan2 numpy.arcsin numpy.radians numpy.mod numpy.float32
numpy.float64 numpy.int64 numpy.int32 numpy.uint8 numpy.bool_ numpy.gradient numpy.logical_or numpy.logical_and numpy.append
numpy.hstack numpy.vstack numpy.stack numpy.concatenate numpy.pad numpy.lexsort numpy.argwhere numpy.percentile numpy.ma.count
numpy.random.seed numpy.random.permutation numpy.random.choice numpy.random.RandomState numpy.issubdtype numpy.result_type
numpy.amin numpy.amax numpy.power numpy.square numpy.floor numpy.ceil numpy.sign numpy.cumsum numpy.diff numpy.count_nonzero
numpy.nanpercentile numpy.digitize numpy.histogram numpy.deg2rad numpy.rad2deg numpy.maximum numpy.minimum numpy.clip numpy.round
dask.array.zeros dask.array.ones dask.array.empty dask.array.full dask.array.arange dask.array.linspace dask.array.meshgrid
dask.array.where dask.array.unique dask.array.isfinite dask.array.isnan dask.array.nanmin dask.array.nanmax dask.array.nanmean
dask.array.nanstd dask.array.min dask.array.max dask.array.ptp dask.array.percentile dask.array.stack dask.array.concatenate
dask.array.logical_or dask.array.from_delayed dask.array.ma.getmaskarray dask.array.isinf
dask.dataframe.concat dask.dataframe.from_dask_array dask.dataframe.from_delayed
xarray.concat pandas.DataFrame pandas.Index pandas.concat
math.sqrt math.atan math.atan2 math.isnan math.ceil math.sin math.cos math.floor math.exp
re.split warnings.warn warnings.catch_warnings warnings.simplefilter collections.Counter
datashader.Canvas datashader.colors.rgb numba.prange math.fabs numpy.iinfo numpy.finfo
len range int float str bool isinstance issubclass type abs print callable hasattr id repr round divmod ord chr format
ValueError TypeError NotImplementedError RuntimeError NameError ZeroDivisionError IndexError KeyError Warning Exception
AttributeError ImportError
'''.split())
# builtins whose result holds the same elements as the arguments
EXT_ELEMS = set('tuple list set frozenset dict zip enumerate sorted reversed iter next min max sum any all filter dask.compute'.split())
EXT_COPY = set('numpy.array numpy.copy copy.deepcopy copy.copy'.split())
EXT_VIEW = set('''numpy.reshape numpy.ravel numpy.transpose numpy.squeeze numpy.expand_dims numpy.broadcast_to numpy.atleast_1d
numpy.atleast_2d numpy.swapaxes numpy.moveaxis numpy.nditer numpy.ma.masked_array numpy.flip numpy.rot90 numpy.diagonal
dask.array.from_array dask.array.reshape dask.array.ravel dask.array.transpose dask.array.rechunk'''.split())
EXT_ALIAS = set('numpy.asarray numpy.asanyarray numpy.ascontiguousarray numpy.asfortranarray numpy.require'.split())
EXT_WRAP = set('''xarray.DataArray xarray.Dataset xarray.Variable datashader.transfer_functions.Image
datashader.transfer_functions.Image.fromarray awkward.Array shapely.geometry.Polygon geopandas.GeoDataFrame
spatialpandas.GeoDataFrame spatialpandas.geometry.PolygonArray'''.split())
EXT_WRITE0 = set('numpy.copyto numpy.put numpy.place numpy.putmask numpy.fill_diagonal numpy.random.shuffle numpy.put_along_axis'.split())
# function-transformers: the result is (a wrapper of) the callable passed first
EXT_FUNC_PASS = set('''dask.delayed numpy.vectorize numba.jit numba.njit numba.vectorize numba.cuda.jit functools.wraps
functools.lru_cache numba.extending.overload'''.split())

METH_FRESH = set('''issubset issuperset union intersection difference min max sum mean std var any all argsort argmin argmax nonzero cumsum item tolist tobytes
format lower upper replace strip split join startswith endswith index count keys isin
nanmin nanmax ptp dot round clip prod conj
iterrows to_numpy isnull notnull get_level_values
seed permutation choice warn
'''.split())
METH_COPY = set('flatten astype copy'.split())
METH_VIEW = set('''ravel reshape transpose view squeeze swapaxes rechunk to_delayed persist compute sel isel rename
to_dataset get items values setdefault pop popitem loc iloc raster points to_dataframe'''.split())
METH_WRITE = set('sort fill resize put itemset setflags partition shuffle'.split())
METH_CONT_WRITE = set('append extend insert remove clear update add discard'.split())
METH_MAP = set('map_overlap map_blocks'.split())
FUNC_MAP = set('dask.array.map_blocks dask.array.map_overlap dask.array.overlap.map_overlap'.split())

WIDEST_DTYPES = {'np.float64', 'numpy.float64', 'float', "'float64'", "'f8'", 'np.double'}
ATTR_FRESH = set('''shape dtype ndim size dims name chunks chunksize nbytes itemsize type kind flags real imag
__name__ __class__ columns index ndarray max min'''.split())
ATTR_DATA = set('data values'.split())           # the array buffer of a raster (ndarray: the memoryview of itself)
ATTR_META = set('attrs'.split())                 # mutable metadata owned by the object
ATTR_SUB = set('coords indexes variable mask T x y loc iloc data_vars encoding'.split())  # sub-objects / views


class Unsupported(Exception):
    pass


class AV(object):
    """abstract value: IR variables whose OBJECT (o) / BUFFER (b) the value may be, callables (f), container flag"""
    __slots__ = ('o', 'b', 'f', 'cont', 'elts')

    def __init__(self, o=(), b=(), f=(), cont=False, elts=None):
        self.o = frozenset(o)
        self.b = frozenset(b)
        self.f = frozenset(f)
        self.cont = cont
        self.elts = elts                  # positional structure of a tuple of known length (precision only)

    def join(self, other):
        return AV(self.o | other.o, self.b | other.b, self.f | other.f, self.cont or other.cont)


FRESH = AV()


def joins(avs):
    avs = list(avs)
    if len(avs) == 1:
        return avs[0]                     # keeps the positional structure
    r = FRESH
    for a in avs:
        r = r.join(a)
    return r


def contents(x):
    """everything reachable through a value used as a collection"""
    return x.b if x.cont else (x.o | x.b)


def extract(c):
    """an element of a collection / the target of iteration or unpacking"""
    if isinstance(c, _Iter):
        return c.elem
    if c.cont:
        return AV(c.b, c.b, c.f, False)
    return AV(c.o, c.b, c.f, False)


class _Iter(AV):
    """an iterable whose every element is the given (structured) value"""
    __slots__ = ('elem',)

    def __init__(self, elem):
        AV.__init__(self, (), elem.b, elem.f, True)
        self.elem = elem


def collection(avs):
    """a new python container holding the given values (its own identity is fresh)"""
    b = set()
    f = set()
    for a in avs:
        b |= a.o | a.b
        f |= a.f
    return AV((), b, f, True)


class FuncInfo(object):
    def __init__(self, tr, node, module, qual, parent):
        self.tr = tr
        self.node = node
        self.module = module
        self.qual = qual
        self.parent = parent              # enclosing FuncInfo (closures) or None
        self.key = '%s:%s:%d' % (module, qual, getattr(node, 'lineno', 0))
        a = node.args if not isinstance(node, ast.Module) else None
        self.params = []
        self.vararg = None
        self.kwarg = None
        self.kwonly = []
        if a is not None:
            self.params = [x.arg for x in getattr(a, 'posonlyargs', [])] + [x.arg for x in a.args]
            self.vararg = a.vararg.arg if a.vararg else None
            self.kwarg = a.kwarg.arg if a.kwarg else None
            self.kwonly = [x.arg for x in a.kwonlyargs]
        self.decorators = []
        if isinstance(node, ast.FunctionDef):
            self.decorators = [ast.unparse(d) for d in node.decorator_list]
        self.gpu = any(('cuda' in d) for d in self.decorators) or \
            any(p in qual.split('.')[-1].lower() for p in GPU_NAME_PARTS)
        self.instrs = []
        self.instr_set = set()
        self.calls = set()                # FuncInfo keys called from this body
        self.all_versions = {}            # name -> set of var pairs ever bound here (for closures)
        self.translated = False
        self.ret_arities = set()
        self.env_at_def = None            # enclosing env snapshot for closures (names -> pairs)

    def all_param_names(self):
        return self.params + ([self.vararg] if self.vararg else []) + self.kwonly + ([self.kwarg] if self.kwarg else [])


class Translator(object):
    def __init__(self, repo):
        self.repo = repo
        self.var_ids = {}                 # key -> int
        self.var_desc = {}
        self.funcs = {}                   # key -> FuncInfo
        self.mod_tree = {}
        self.mod_init = {}                # module -> FuncInfo (module body)
        self.mod_globals = {}             # module -> {name: ('var', pair) | ('func', key) | ('ext', dotted) | ('extmod', dotted)}
        self.fvals = {}                   # var id (object var) -> set of callable descriptors
        self.contflag = set()             # object var ids known to be python containers
        self.changed = False
        self.sites = {}                   # site id -> description
        self.site_ids = {}
        self.unknown = {}                 # dotted/method name -> set(file:line)
        self.user_calls = set()
        self.pkg_exports = {}
        self.load()

    # ---- variables --------------------------------------------------------------------------------
    def var(self, key, desc):
        v = self.var_ids.get(key)
        if v is None:
            v = len(self.var_ids) + 1
            self.var_ids[key] = v
            self.var_desc[v] = desc
        return v

    def pair(self, fi, node_key, name):
        k = (fi.key, node_key, name)
        return (self.var(k + ('o',), '%s %s.o@%s' % (fi.key, name, node_key)),
                self.var(k + ('b',), '%s %s.b@%s' % (fi.key, name, node_key)))

    def site(self, fi, node, what):
        fn = fi.module + '.py'
        key = (fn, getattr(node, 'lineno', 0), getattr(node, 'col_offset', 0), what)
        s = self.site_ids.get(key)
        if s is None:
            s = len(self.site_ids) + 1
            self.site_ids[key] = s
            self.sites[s] = dict(file='xrspatial/' + fn, line=key[1], col=key[2], what=what, func=fi.qual)
        return s

    def emit(self, fi, ins):
        if ins not in fi.instr_set:
            fi.instr_set.add(ins)
            fi.instrs.append(ins)

    def add_fvals(self, ovar, fs):
        if not fs:
            return
        cur = self.fvals.setdefault(ovar, set())
        n = len(cur)
        cur |= fs
        if len(cur) != n:
            self.changed = True

    def flow(self, fi, av, pair):
        """value av is bound to the variable pair"""
        po, pb = pair
        if not av.o:
            self.emit(fi, ('fresh', po))
        for v in sorted(av.o):
            if v != po:
                self.emit(fi, ('view', po, v))
        if not av.b:
            self.emit(fi, ('fresh', pb))
        for v in sorted(av.b):
            if v != pb:
                self.emit(fi, ('view', pb, v))
        self.add_fvals(po, av.f)
        if av.cont and po not in self.contflag:
            self.contflag.add(po)
            self.changed = True

    def av_of_pairs(self, pairs):
        o = set()
        b = set()
        f = set()
        cont = False
        for (po, pb) in pairs:
            o.add(po)
            b.add(pb)
            f |= self.fvals.get(po, set())
            cont = cont or (po in self.contflag)
        return AV(o, b, f, cont)

    # ---- loading ------------------------------------------------------------------------------------
    def load(self):
        base = os.path.join(self.repo, 'xrspatial')
        for m in MODULES:
            p = os.path.join(base, m + '.py')
            src = open(p).read()
            self.mod_tree[m] = ast.parse(src, filename=p)
        # package-level re-exports (from xrspatial import slope)
        init = ast.parse(open(os.path.join(base, '__init__.py')).read())
        for n in init.body:
            if isinstance(n, ast.ImportFrom) and n.module and n.module.startswith('xrspatial.'):
                sub = n.module[len('xrspatial.'):]
                for a in n.names:
                    self.pkg_exports[a.asname or a.name] = (sub, a.name)
        for m, tree in self.mod_tree.items():
            fi = FuncInfo(self, tree, m, '<module>', None)
            self.mod_init[m] = fi
            self.funcs[fi.key] = fi
            self.mod_globals[m] = {}
        # pre-register top-level defs (forward references between functions / modules)
        for m, tree in self.mod_tree.items():
            for n in tree.body:
                self.predeclare(m, n)

    def predeclare(self, m, n):
        if isinstance(n, ast.FunctionDef):
            fi = FuncInfo(self, n, m, n.name, None)
            self.funcs[fi.key] = fi
            self.mod_globals[m][n.name] = ('func', fi.key)
        elif isinstance(n, (ast.If, ast.Try)):
            for sub in getattr(n, 'body', []) + getattr(n, 'orelse', []):
                self.predeclare(m, sub)
            for h in getattr(n, 'handlers', []):
                for sub in h.body:
                    self.predeclare(m, sub)

    def resolve_module(self, cur, modname, level):
        """internal module name for an import, or None if external"""
        if level > 0:
            parts = cur.split('/')[:-1]
            for _ in range(level - 1):
                parts = parts[:-1]
            name = '/'.join(parts + (modname.split('.') if modname else []))
            return name if name in self.mod_tree else ('<pkg>' if name == '' else ('<internal-other>:' + name))
        if modname == 'xrspatial':
            return '<pkg>'
        if modname and modname.startswith('xrspatial.'):
            name = modname[len('xrspatial.'):].replace('.', '/')
            return name if name in self.mod_tree else '<internal-other>:' + name
        return None

    EXT_CANON = {'np': 'numpy', 'da': 'dask.array', 'dd': 'dask.dataframe', 'xr': 'xarray', 'pd': 'pandas',
                 'nb': 'numba', 'ds': 'datashader', 'tf': 'datashader.transfer_functions'}

    def do_import(self, fi, n, scope):
        """scope: dict name -> binding descriptor"""
        m = fi.module
        if isinstance(n, ast.Import):
            for a in n.names:
                nm = a.asname or a.name.split('.')[0]
                scope[nm] = ('extmod', a.name if a.asname else a.name.split('.')[0])
        else:
            tgt = self.resolve_module(m, n.module, n.level)
            for a in n.names:
                nm = a.asname or a.name
                if tgt is None:
                    scope[nm] = ('ext', (n.module or '') + '.' + a.name)
                elif tgt == '<pkg>':
                    if a.name in self.pkg_exports:
                        sub, real = self.pkg_exports[a.name]
                        scope[nm] = ('import', sub, real)
                    elif a.name in self.mod_tree:
                        scope[nm] = ('intmod', a.name)
                    else:
                        scope[nm] = ('ext', 'xrspatial.' + a.name)
                elif tgt.startswith('<internal-other>'):
                    scope[nm] = ('ext', tgt + '.' + a.name)      # gpu_rtx etc: out of scope
                else:
                    scope[nm] = ('import', tgt, a.name)

    # ---- driver --------------------------------------------------------------------------------------
    def run(self):
        for rnd in range(12):
            self.changed = False
            self.unknown = {}
            self.user_calls = set()
            for fi in self.funcs.values():
                fi.instrs = []
                fi.instr_set = set()
                fi.calls = set()
                fi.translated = False
                fi.prev_arities = set(fi.ret_arities)
            for m in MODULES:
                self.translate_module(m)
            # translate every function (closures are translated when their def statement is met)
            for fi in list(self.funcs.values()):
                if not fi.translated and fi.parent is None and not isinstance(fi.node, ast.Module):
                    self.translate_function(fi)
            if not self.changed:
                return rnd + 1
        raise Unsupported('function-value flow did not stabilise')

    def translate_module(self, m):
        fi = self.mod_init[m]
        fi.translated = True
        st = FState(self, fi, {})
        st.block(self.mod_tree[m].body)
        # module globals bound by assignment
        g = self.mod_globals[m]
        for name, pairs in st.env.items():
            if name not in g or g[name][0] == 'var':
                g[name] = ('var', frozenset(pairs))
        for name, d in st.scope.items():
            g.setdefault(name, d)
            if g[name][0] not in ('func',) and d[0] != 'var':
                g[name] = d

    def translate_function(self, fi, closure_env=None):
        fi.translated = True
        if fi.gpu:
            return
        env = {}
        for p in fi.all_param_names():
            env[p] = {self.param_pair(fi, p)}
        st = FState(self, fi, env, closure_env)
        # parameters hold whatever is passed (edges are emitted at call sites); defaults
        a = fi.node.args
        pos = list(getattr(a, 'posonlyargs', [])) + list(a.args)
        for p, d in zip(pos[len(pos) - len(a.defaults):], a.defaults):
            self.flow(fi, st.expr(d), self.param_pair(fi, p.arg))
        for p, d in zip(a.kwonlyargs, a.kw_defaults):
            if d is not None:
                self.flow(fi, st.expr(d), self.param_pair(fi, p.arg))
        if isinstance(fi.node, ast.Lambda):
            self.flow(fi, st.expr(fi.node.body), self.ret_pair(fi))
        else:
            st.block(fi.node.body)

    def param_pair(self, fi, name):
        return self.pair(fi, 'param', name)

    def ret_pair(self, fi):
        return self.pair(fi, 'ret', '<return>')


class FState(object):
    """abstract interpretation of one function body (flow-sensitive reaching definitions for names)"""

    def __init__(self, tr, fi, env, closure_env=None):
        self.tr = tr
        self.fi = fi
        self.env = {k: set(v) for k, v in env.items()}
        self.scope = {}                   # non-variable bindings (imports, nested defs)
        self.closure_env = closure_env    # FState of the enclosing function
        self.loop_acc = []
        self.globals_declared = set()

    # ---- environment ----------------------------------------------------------------------------------
    def copy_env(self):
        return {k: set(v) for k, v in self.env.items()}

    def merge_env(self, a, b):
        r = {}
        for k in set(a) | set(b):
            r[k] = set(a.get(k, ())) | set(b.get(k, ()))
        return r

    def bind(self, name, av, node):
        pair = self.tr.pair(self.fi, '%d:%d' % (getattr(node, 'lineno', 0), getattr(node, 'col_offset', 0)), name)
        self.tr.flow(self.fi, av, pair)
        self.env[name] = {pair}
        self.fi.all_versions.setdefault(name, set()).add(pair)
        self.scope.pop(name, None)

    def lookup(self, name):
        """-> AV or binding descriptor"""
        if name in self.env and name not in self.globals_declared:
            return self.tr.av_of_pairs(self.env[name])
        if name in self.scope:
            return self.scope[name]
        st = self.closure_env
        while st is not None:
            vs = st.fi.all_versions.get(name)
            if name in st.env or vs:
                pairs = set(st.env.get(name, ())) | set(vs or ())
                return self.tr.av_of_pairs(pairs)
            if name in st.scope:
                return st.scope[name]
            st = st.closure_env
        g = self.tr.mod_globals[self.fi.module]
        if name in g:
            return g[name]
        init = self.tr.mod_init[self.fi.module]
        vs = init.all_versions.get(name)
        if vs:
            return ('var', frozenset(vs))
        return ('ext', name)              # builtin or unknown global

    def desc_to_av(self, d, depth=0):
        if isinstance(d, AV):
            return d
        kind = d[0]
        if kind == 'var':
            return self.tr.av_of_pairs(d[1])
        if kind == 'func':
            return AV(f=[('func', d[1])])
        if kind == 'import':
            g = self.tr.mod_globals.get(d[1], {})
            if d[2] in g and depth < 5:
                return self.desc_to_av(g[d[2]], depth + 1)
            init = self.tr.mod_init.get(d[1])
            if init is not None and d[2] in init.all_versions:
                return self.tr.av_of_pairs(init.all_versions[d[2]])
            return AV(f=[('ext', 'xrspatial.%s.%s' % (d[1], d[2]))])
        if kind in ('ext', 'extmod', 'intmod'):
            return AV(f=[d])
        raise Unsupported('descriptor %r' % (d,))

    # ---- statements -----------------------------------------------------------------------------------
    def block(self, stmts):
        for s in stmts:
            self.stmt(s)

    def is_gpu_test(self, t):
        if isinstance(t, ast.BoolOp) and isinstance(t.op, ast.And):
            return any(self.is_gpu_test(v) for v in t.values)
        if isinstance(t, ast.Call):
            f = t.func
            nm = f.id if isinstance(f, ast.Name) else (f.attr if isinstance(f, ast.Attribute) else None)
            return nm in GPU_TESTS
        if isinstance(t, ast.Compare) and len(t.ops) == 1 and isinstance(t.ops[0], ast.Eq):
            return any(isinstance(x, ast.Name) and x.id == 'cupy' for x in [t.left] + t.comparators)
        return False

    def stmt(self, s):
        tr = self.tr
        if isinstance(s, ast.Expr):
            self.expr(s.value)
        elif isinstance(s, ast.Assign):
            av = self.expr(s.value)
            for t in s.targets:
                self.assign(t, av, s)
        elif isinstance(s, ast.AnnAssign):
            if s.value is not None:
                self.assign(s.target, self.expr(s.value), s)
        elif isinstance(s, ast.AugAssign):
            rhs = self.expr(s.value)
            t = s.target
            if isinstance(t, ast.Name):
                cur = self.expr(ast.Name(id=t.id, ctx=ast.Load(), lineno=t.lineno, col_offset=t.col_offset))
                # x op= v  mutates x in place when x is an array (and rebinds the same object)
                if cur.cont:
                    self.write(cur, 'contobj', s, 'augassign %s (container)' % t.id, objects=True)
                    self.store_into(cur, AV((), contents(rhs), rhs.f))
                else:
                    self.write(cur, 'buf', s, 'augassign %s' % t.id, objects=False)
            elif isinstance(t, ast.Subscript):
                base = self.expr(t.value)
                self.expr(t.slice)
                if base.cont:
                    # d[k] op= v : the member is updated in place (array) or replaced (scalar)
                    self.write(extract(base), 'buf', s, 'augassign subscript (member)', objects=False)
                    self.write(base, 'contobj', s, 'augassign subscript (container)', objects=True)
                    self.store_into(base, rhs)
                else:
                    self.write(base, 'buf', s, 'augassign subscript', objects=False)
            elif isinstance(t, ast.Attribute):
                base = self.expr(t.value)
                self.write(base, 'attr', s, 'augassign .%s' % t.attr, objects=True)
            else:
                raise Unsupported('augassign target %s' % ast.dump(t))
        elif isinstance(s, ast.Return):
            if s.value is not None:
                av = self.expr(s.value)
                tr.flow(self.fi, av, tr.ret_pair(self.fi))
                n = len(av.elts) if av.elts is not None else -1
                self.fi.ret_arities.add(n)
                if n > 0:
                    for i, a in enumerate(av.elts):
                        tr.flow(self.fi, a, tr.pair(self.fi, 'ret%d' % i, '<return[%d]>' % i))
        elif isinstance(s, ast.If):
            if self.is_gpu_test(s.test):
                self.block(s.orelse)
                return
            self.expr(s.test)
            e0 = self.copy_env()
            self.block(s.body)
            e1 = self.env
            self.env = e0
            self.block(s.orelse)
            self.env = self.merge_env(e1, self.env)
        elif isinstance(s, (ast.For, ast.While)):
            if isinstance(s, ast.For):
                it = self.iter_value(s.iter)
            before = self.copy_env()
            self.loop_acc.append([])
            for _ in range(6):
                start = self.copy_env()
                if isinstance(s, ast.For):
                    self.assign(s.target, extract(it), s.target)
                else:
                    self.expr(s.test)
                self.block(s.body)
                merged = self.merge_env(start, self.env)
                for e in self.loop_acc[-1]:
                    merged = self.merge_env(merged, e)
                stable = (merged == start)
                self.env = merged
                if stable:
                    break
            self.loop_acc.pop()
            self.env = self.merge_env(before, self.env)
            self.block(s.orelse)
        elif isinstance(s, (ast.Break, ast.Continue)):
            if self.loop_acc:
                self.loop_acc[-1].append(self.copy_env())
        elif isinstance(s, ast.With):
            for it in s.items:
                av = self.expr(it.context_expr)
                if it.optional_vars is not None:
                    self.assign(it.optional_vars, av, s)
            self.block(s.body)
        elif isinstance(s, ast.Try):
            e0 = self.copy_env()
            self.block(s.body)
            e_body = self.copy_env()
            outs = []
            for h in s.handlers:
                self.env = self.merge_env(e0, e_body)
                if h.name:
                    self.bind(h.name, FRESH, h)
                self.block(h.body)
                outs.append(self.copy_env())
            self.env = e_body
            self.block(s.orelse)
            for o in outs:
                self.env = self.merge_env(self.env, o)
            self.block(s.finalbody)
        elif isinstance(s, ast.FunctionDef):
            fi = self.nested_func(s, s.name)
            self.scope[s.name] = ('func', fi.key)
            self.env.pop(s.name, None)
            if self.fi.parent is None and isinstance(self.fi.node, ast.Module):
                return
        elif isinstance(s, (ast.Import, ast.ImportFrom)):
            self.tr.do_import(self.fi, s, self.scope)
            for a in s.names:
                self.env.pop(a.asname or a.name.split('.')[0], None)
        elif isinstance(s, (ast.Raise,)):
            if s.exc is not None:
                self.expr(s.exc)
        elif isinstance(s, ast.Assert):
            self.expr(s.test)
        elif isinstance(s, (ast.Pass,)):
            pass
        elif isinstance(s, ast.Global):
            self.globals_declared |= set(s.names)
        elif isinstance(s, ast.Nonlocal):
            raise Unsupported('nonlocal at %s:%d' % (self.fi.module, s.lineno))
        elif isinstance(s, ast.Delete):
            for t in s.targets:
                if isinstance(t, ast.Subscript):
                    base = self.expr(t.value)
                    self.write(base, 'buf', s, 'del subscript', objects=True)
        elif isinstance(s, ast.ClassDef):
            if any(isinstance(x, ast.FunctionDef) for x in s.body) and s.name not in ('ArrayTypeFunctionMapping', 'cupy'):
                raise Unsupported('class %s with methods at %s:%d' % (s.name, self.fi.module, s.lineno))
            self.scope[s.name] = ('ext', 'class.' + s.name)
        else:
            raise Unsupported('statement %s at %s:%d' % (type(s).__name__, self.fi.module, s.lineno))

    def iter_value(self, node):
        """the iterable of a for loop; zip / enumerate keep the position of their arguments"""
        if isinstance(node, ast.Call) and isinstance(node.func, ast.Name) and not node.keywords and \
                not any(isinstance(a, ast.Starred) for a in node.args) and node.func.id in ('zip', 'enumerate') and \
                not isinstance(self.lookup(node.func.id), AV):
            parts = [extract(self.iter_value(a)) for a in node.args]
            if node.func.id == 'enumerate':
                parts = [FRESH] + parts[:1]
            r = collection(parts)
            # one level deeper: the loop target is an element of this collection
            elem = collection(parts)
            elem.elts = parts
            return AV((), r.b, r.f, True, elts=None) if False else _Iter(elem)
        return self.expr(node)

    def nested_func(self, node, name):
        tr = self.tr
        if self.fi.parent is None and isinstance(self.fi.node, ast.Module) and isinstance(node, ast.FunctionDef):
            d = tr.mod_globals[self.fi.module].get(name)
            if d and d[0] == 'func':
                fi = tr.funcs[d[1]]
                if not isinstance(fi.node, ast.Module) and fi.node is node:
                    # decorators are evaluated at module level (function-valued flow, e.g. custom jit wrappers)
                    for dec in node.decorator_list:
                        self.expr(dec)
                    return fi
        qual = (self.fi.qual + '.' if not isinstance(self.fi.node, ast.Module) else '') + name
        key = '%s:%s:%d' % (self.fi.module, qual, node.lineno) + (':%d' % node.col_offset if isinstance(node, ast.Lambda) else '')
        fi = tr.funcs.get(key)
        if fi is None:
            fi = FuncInfo(tr, node, self.fi.module, qual, self.fi)
            fi.key = key
            tr.funcs[key] = fi
        fi.parent = self.fi
        tr.translate_function(fi, closure_env=self)
        self.fi.calls.add(fi.key)         # a closure's body belongs to the program of its definer
        return fi

    def assign(self, t, av, node):
        if isinstance(t, ast.Name):
            if t.id in self.globals_declared:
                # assignment to a module global from inside a function (C11 territory): weak update
                init = self.tr.mod_init[self.fi.module]
                for pair in init.all_versions.get(t.id, ()):
                    self.tr.flow(self.fi, av, pair)
                return
            self.bind(t.id, av, t)
        elif isinstance(t, (ast.Tuple, ast.List)):
            if av.elts is not None and len(av.elts) == len(t.elts) and \
                    not any(isinstance(x, ast.Starred) for x in t.elts):
                for e, a in zip(t.elts, av.elts):
                    self.assign(e, a, node)
            else:
                for e in t.elts:
                    self.assign(e, extract(av), node)
        elif isinstance(t, ast.Starred):
            self.assign(t.value, av, node)
        elif isinstance(t, ast.Subscript):
            base = self.expr(t.value)
            self.expr(t.slice)
            if base.cont:
                # a python container now holds a reference to the stored value; its slots change, not its members
                self.write(base, 'contobj', node, 'subscript store (container)', objects=True)
                self.store_into(base, av)
            else:
                self.write(base, 'buf', node, 'subscript store', objects=False)
        elif isinstance(t, ast.Attribute):
            base = self.expr(t.value)
            kind = 'attr'
            what = 'attribute store .%s' % t.attr
            if t.attr in ATTR_DATA:
                kind = 'setdata'
                v = node.value if isinstance(node, ast.Assign) else None
                # X.data = X.data.rechunk(...)  /  X.values = X.values.astype(...)
                if isinstance(v, ast.Call) and isinstance(v.func, ast.Attribute) and \
                        isinstance(v.func.value, ast.Attribute) and v.func.value.attr in ATTR_DATA and \
                        ast.dump(v.func.value.value) == ast.dump(t.value):
                    if v.func.attr == 'rechunk':
                        kind = 'rechunk'
                    elif v.func.attr == 'astype' and not any(k.arg == 'copy' for k in v.keywords) and \
                            len(v.args) == 1 and ast.unparse(v.args[0]) in WIDEST_DTYPES:
                        # every supported raster dtype except 64-bit integers above 2**53 is exactly representable in
                        # float64; a cast to anything narrower (or computed) may change values: an ordinary data write
                        kind = 'widen'
            self.write(base, kind, node, what, objects=True)
        else:
            raise Unsupported('assignment target %s' % ast.dump(t))

    def store_into(self, base, av):
        for v in base.b:
            for w in av.o | av.b:
                if v != w:
                    self.tr.emit(self.fi, ('view', v, w))
        for v in base.o:
            self.tr.add_fvals(v, av.f)

    def write(self, av, kind, node, what, objects):
        """record an in-place modification through value av.  kind 'buf': the array memory (plus the object
        itself when `objects`: python containers / unknown callee); 'attr' | 'setdata' | 'rechunk' | 'widen':
        the object (DataArray metadata / data pointer)"""
        s = self.tr.site(self.fi, node, what)
        if kind == 'buf':
            vs = set(av.b) | (set(av.o) if objects else set())
        elif kind == 'contobj':
            vs = set(av.o)
            kind = 'buf'
        else:
            vs = set(av.o)
        for v in sorted(vs):
            if kind in ('rechunk', 'widen'):
                self.tr.emit(self.fi, ('touch', v, kind, s))
            else:
                self.tr.emit(self.fi, ('write', v, kind, s))

    # ---- expressions ------------------------------------------------------------------------------------
    def expr(self, e):
        tr = self.tr
        if e is None:
            return FRESH
        if isinstance(e, ast.Name):
            return self.desc_to_av(self.lookup(e.id))
        if isinstance(e, ast.Constant):
            return FRESH
        if isinstance(e, ast.Attribute):
            base = self.expr(e.value)
            # module attribute
            mods = []
            for d in sorted(base.f, key=repr):
                if d[0] == 'extmod':
                    mods.append(AV(f=[('ext', self.canon(d[1]) + '.' + e.attr)]))
                elif d[0] == 'ext' and not base.o and not base.b:
                    mods.append(AV(f=[('ext', d[1] + '.' + e.attr)]))
                elif d[0] == 'intmod':
                    g = tr.mod_globals[d[1]]
                    if e.attr in g:
                        mods.append(self.desc_to_av(g[e.attr]))
            if mods:
                return joins(mods)
            a = e.attr
            if a in ATTR_FRESH:
                return FRESH
            if a in ATTR_DATA:
                return AV(base.b, base.b)
            if a in ATTR_META:
                return AV(base.o, base.o, base.f, True)
            if a in ATTR_SUB:
                return AV(base.o, base.b | base.o, base.f)
            self.note_unknown('attr .' + a, e)
            return AV(base.o | base.b, base.o | base.b, base.f)
        if isinstance(e, ast.Subscript):
            base = self.expr(e.value)
            self.expr(e.slice)
            sl = e.slice
            is_slicing = isinstance(sl, ast.Slice) or (isinstance(sl, ast.Tuple) and any(isinstance(x, ast.Slice) for x in sl.elts))
            if is_slicing:
                # basic slicing: a new object over the same buffer / a new list with the same members
                return AV((), base.b, base.f, base.cont)
            return extract(base)                   # element / coordinate / container member
        if isinstance(e, ast.Call):
            return self.call(e)
        if isinstance(e, (ast.BinOp, ast.UnaryOp, ast.Compare)):
            for c in ast.iter_child_nodes(e):
                if isinstance(c, ast.expr):
                    self.expr(c)
            return FRESH
        if isinstance(e, ast.BoolOp):
            return joins([self.expr(v) for v in e.values])
        if isinstance(e, ast.IfExp):
            self.expr(e.test)
            return self.expr(e.body).join(self.expr(e.orelse))
        if isinstance(e, (ast.Tuple, ast.List, ast.Set)):
            parts = [self.expr(x) for x in e.elts]
            r = collection(parts)
            if isinstance(e, ast.Tuple) and not any(isinstance(x, ast.Starred) for x in e.elts):
                r.elts = parts
            return r
        if isinstance(e, ast.Dict):
            for k in e.keys:
                self.expr(k)
            return collection([self.expr(x) if k is not None else AV((), contents(self.expr(x)))
                               for k, x in zip(e.keys, e.values)])
        if isinstance(e, ast.Starred):
            return self.expr(e.value)
        if isinstance(e, (ast.ListComp, ast.SetComp, ast.GeneratorExp, ast.DictComp)):
            saved = self.copy_env()
            for g in e.generators:
                it = self.iter_value(g.iter)
                self.assign(g.target, extract(it), g.target)
                for c in g.ifs:
                    self.expr(c)
            if isinstance(e, ast.DictComp):
                r = self.expr(e.key).join(self.expr(e.value))
            else:
                r = self.expr(e.elt)
            self.env = saved
            return collection([r])
        if isinstance(e, ast.Lambda):
            a = e.args
            b = e.body
            if a.vararg and not a.args and not a.kwonlyargs and not a.kwarg and isinstance(b, ast.Call) and \
                    len(b.args) == 1 and isinstance(b.args[0], ast.Starred) and \
                    isinstance(b.args[0].value, ast.Name) and b.args[0].value.id == a.vararg.arg and \
                    all(k.arg is not None and a.vararg.arg not in [n.id for n in ast.walk(k.value) if isinstance(n, ast.Name)]
                        for k in b.keywords):
                # lambda *args: f(*args, kw=...)  ==  partial(f, kw=...)   (keeps argument positions apart)
                fav = self.expr(b.func)
                kws = {k.arg: self.expr(k.value) for k in b.keywords}
                res = set()
                for d in sorted(fav.f, key=repr):
                    if d[0] in ('func', 'partial'):
                        off = d[2] if d[0] == 'partial' else 0
                        self.bind_call(tr.funcs[d[1]], off, [], kws, None, None)
                        res.add(('partial', d[1], off))
                    else:
                        res.add(d)
                if res:
                    return AV(f=res)
            fi = self.nested_func(e, '<lambda>')
            return AV(f=[('func', fi.key)])
        if isinstance(e, (ast.JoinedStr, ast.FormattedValue)):
            for c in ast.iter_child_nodes(e):
                if isinstance(c, ast.expr):
                    self.expr(c)
            return FRESH
        if isinstance(e, ast.Slice):
            for c in (e.lower, e.upper, e.step):
                self.expr(c)
            return FRESH
        if isinstance(e, ast.NamedExpr):
            av = self.expr(e.value)
            self.assign(e.target, av, e)
            return av
        if isinstance(e, (ast.Yield, ast.YieldFrom)):
            # generator function: what is yielded flows into the value the call returns (the generator's
            # elements may alias it) - an over-approximation, like a return of unknown arity
            av = self.expr(e.value) if e.value is not None else FRESH
            tr.flow(self.fi, av, tr.ret_pair(self.fi))
            self.fi.ret_arities.add(-1)
            return FRESH
        raise Unsupported('expression %s at %s:%d' % (type(e).__name__, self.fi.module, getattr(e, 'lineno', 0)))

    def canon(self, mod):
        parts = mod.split('.')
        return '.'.join([Translator.EXT_CANON.get(parts[0], parts[0])] + parts[1:])

    def note_unknown(self, what, node):
        self.tr.unknown.setdefault(what, set()).add('%s.py:%d' % (self.fi.module, getattr(node, 'lineno', 0)))

    # ---- calls -------------------------------------------------------------------------------------------
    def call(self, e):
        tr = self.tr
        pos = []
        star = None
        for a in e.args:
            if isinstance(a, ast.Starred):
                star = self.expr(a.value) if star is None else star.join(self.expr(a.value))
            else:
                pos.append(self.expr(a))
        kws = {}
        dstar = None
        for k in e.keywords:
            if k.arg is None:
                dstar = self.expr(k.value)
            else:
                kws[k.arg] = self.expr(k.value)
        f = e.func
        # out= keyword: in-place write into that array
        if 'out' in kws:
            self.write(kws['out'], 'buf', e, 'out= keyword', objects=False)
        if isinstance(f, ast.Attribute):
            base = self.expr(f.value)
            extmods = [d for d in base.f if d[0] in ('extmod', 'intmod')] + \
                      [d for d in base.f if d[0] == 'ext' and not base.o and not base.b]
            if not extmods:
                return self.method_call(e, base, f.attr, pos, kws, star, dstar)
        fav = self.expr(f)
        return self.apply(e, fav, pos, kws, star, dstar)

    def apply(self, e, fav, pos, kws, star, dstar):
        tr = self.tr
        results = []
        if not fav.f:
            # a callable we know nothing about (user-supplied reducer / callback): assumed pure, fresh result
            tr.user_calls.add('%s.py:%d %s' % (self.fi.module, e.lineno, ast.unparse(e.func)[:40]))
            return FRESH
        for d in sorted(fav.f, key=repr):
            results.append(self.apply_one(e, d, pos, kws, star, dstar))
        return joins(results)

    def all_args(self, pos, kws, star, dstar):
        return joins(list(pos) + list(kws.values()) + ([star] if star else []) + ([dstar] if dstar else []))

    def apply_one(self, e, d, pos, kws, star, dstar):
        tr = self.tr
        kind = d[0]
        if kind == 'func':
            return self.bind_call(tr.funcs[d[1]], 0, pos, kws, star, dstar)
        if kind == 'partial':
            return self.bind_call(tr.funcs[d[1]], d[2], pos, kws, star, dstar)
        if kind == 'mapper':
            # ArrayTypeFunctionMapping.__call__(arr) -> one of the registered backend functions
            return AV(f=d[1])
        if kind == 'wrapped':
            # callable produced by a function transformer around inner callables (vectorize / delayed / jit)
            return self.apply(e, AV(f=d[1]), pos, kws, star, dstar)
        if kind in ('extmod', 'intmod'):
            return FRESH
        if kind == 'ext':
            return self.ext_call(e, d[1], pos, kws, star, dstar)
        raise Unsupported('callable %r' % (d,))

    def bind_call(self, fi, offset, pos, kws, star, dstar):
        tr = self.tr
        if fi.gpu:
            return FRESH
        self.fi.calls.add(fi.key)
        names = fi.params
        for i, av in enumerate(pos):
            j = i + offset
            if j < len(names):
                tr.flow_arg(self.fi, av, tr.param_pair(fi, names[j]))
            elif fi.vararg:
                tr.flow_arg(self.fi, collection([av]), tr.param_pair(fi, fi.vararg))
        if star is not None:
            for j in range(len(pos) + offset, len(names)):
                tr.flow_arg(self.fi, extract(star), tr.param_pair(fi, names[j]))
            if fi.vararg:
                tr.flow_arg(self.fi, AV((), contents(star), star.f, True), tr.param_pair(fi, fi.vararg))
        for k, av in kws.items():
            if k in names or k in fi.kwonly:
                tr.flow_arg(self.fi, av, tr.param_pair(fi, k))
            elif fi.kwarg:
                tr.flow_arg(self.fi, collection([av]), tr.param_pair(fi, fi.kwarg))
        if dstar is not None:
            for n in fi.all_param_names():
                tr.flow_arg(self.fi, extract(dstar), tr.param_pair(fi, n))
        ro, rb = tr.ret_pair(fi)
        r = AV([ro], [rb], tr.fvals.get(ro, set()), ro in tr.contflag)
        if len(fi.ret_arities) == 1 and min(fi.ret_arities) > 0:
            r.elts = [tr.av_of_pairs([tr.pair(fi, 'ret%d' % i, '<return[%d]>' % i)]) for i in range(min(fi.ret_arities))]
        return r

    def method_call(self, e, base, m, pos, kws, star, dstar):
        tr = self.tr
        args = self.all_args(pos, kws, star, dstar)
        if m in METH_MAP:
            # dask: x.map_overlap(f, ...) applies f to (views of) the blocks of x
            if pos:
                return self.apply(e, pos[0], [base] + pos[1:], {k: v for k, v in kws.items()
                                                              if k not in ('depth', 'boundary', 'meta', 'dtype', 'chunks', 'trim')},
                                  star, dstar)
            return FRESH
        if m == '__call__':
            return self.apply(e, base, pos, kws, star, dstar)
        # a container of callables: d.get(k) / d[k] handled by METH_VIEW('get')
        if m == 'astype':
            cp = e.keywords and [k for k in e.keywords if k.arg == 'copy']
            if cp and not (isinstance(cp[0].value, ast.Constant) and cp[0].value.value is True):
                return AV((), base.b)              # astype(copy=False): may return the same buffer
            return self.copy_of(base, e)
        if m == 'copy' and base.cont:
            return AV((), base.b, base.f, True)            # shallow copy of a python container
        if m in METH_COPY:
            return self.copy_of(base, e)
        if m in METH_FRESH:
            return FRESH
        if m in METH_VIEW:
            if m in ('items', 'values'):
                return AV((), contents(base), base.f, True)
            if m in ('get', 'setdefault', 'pop', 'popitem'):
                r = extract(base)
                if m == 'setdefault':
                    self.write(base, 'contobj' if base.cont else 'buf', e, 'mutating method .setdefault()', objects=True)
                    self.store_into(base, args)
                if m in ('pop', 'popitem'):
                    self.write(base, 'contobj' if base.cont else 'buf', e, 'mutating method .%s()' % m, objects=True)
                return r.join(AV(contents(args), contents(args), args.f)) if m in ('get', 'setdefault', 'pop') else r
            if m == 'to_dataset':
                return AV((), base.b | base.o, base.f, True)      # a new Dataset holding (shallow copies of) the variables
            return AV((), base.b, base.f, base.cont)
        if m in METH_WRITE:
            self.write(base, 'buf', e, 'mutating method .%s()' % m, objects=False)
            return FRESH
        if m in METH_CONT_WRITE:
            if base.cont:
                self.write(base, 'contobj', e, 'mutating method .%s() (container)' % m, objects=True)
            else:
                self.write(base, 'buf', e, 'mutating method .%s()' % m, objects=True)
            self.store_into(base, AV((), contents(args), args.f))
            return FRESH
        # bound method of a callable-holding value (e.g. jitted dispatcher attributes) or unknown method
        self.note_unknown('method .%s()' % m, e)
        self.write(base, 'buf', e, 'unknown method .%s()' % m, objects=True)
        self.write(args, 'buf', e, 'unknown method .%s() argument' % m, objects=True)
        allv = base.join(args)
        return AV(allv.o | allv.b, allv.o | allv.b, allv.f)

    def copy_of(self, base, node):
        # a fresh copy (reads the source); the read is recorded as ICopy for the o/b pair of a temp
        t = self.tr.pair(self.fi, 'copy@%d:%d' % (node.lineno, node.col_offset), '<copy>')
        for v in sorted(base.b):
            self.tr.emit(self.fi, ('copy', t[1], v))
        if not base.b:
            self.tr.emit(self.fi, ('fresh', t[1]))
        self.tr.emit(self.fi, ('fresh', t[0]))
        return AV([t[0]], [t[1]])

    def ext_call(self, e, name, pos, kws, star, dstar):
        tr = self.tr
        args = self.all_args(pos, kws, star, dstar)
        a0 = pos[0] if pos else (star if star is not None else (list(kws.values())[0] if kws else FRESH))
        short = name
        if name in ('functools.partial', 'partial'):
            res = set()
            for d in a0.f:
                if d[0] == 'func':
                    fi = tr.funcs[d[1]]
                    self.bind_call(fi, 0, pos[1:], kws, star, dstar)
                    res.add(('partial', d[1], len(pos) - 1))
                elif d[0] == 'partial':
                    fi = tr.funcs[d[1]]
                    self.bind_call(fi, d[2], pos[1:], kws, star, dstar)
                    res.add(('partial', d[1], d[2] + len(pos) - 1))
                else:
                    res.add(d)
            if not a0.f:
                tr.user_calls.add('%s.py:%d partial(%s)' % (self.fi.module, e.lineno, ast.unparse(e.args[0])[:30]))
            return AV(f=res)
        if name.endswith('ArrayTypeFunctionMapping'):
            fs = set()
            for k in MAPPER_LIVE_KW:
                if k in kws:
                    fs |= kws[k].f
            for i, av in enumerate(pos):
                if i in (0, 2):
                    fs |= av.f
            return AV(f=[('mapper', frozenset(fs))])
        if name in EXT_FUNC_PASS or name in ('xrspatial.utils.ngjit',):
            if a0.f and pos:
                return AV(f=[('wrapped', frozenset(a0.f))])
            return AV(f=[('ext', name + '()')])      # decorator factory: jit(nopython=True) -> decorator
        if name.endswith('()') and name[:-2] in EXT_FUNC_PASS:
            return AV(f=[('wrapped', frozenset(a0.f))]) if a0.f else FRESH
        if name == 'map':
            r = self.apply(e, a0, [extract(x) for x in pos[1:]], {}, None, None) if pos else FRESH
            return collection([r])
        if name in FUNC_MAP:
            live = {k: v for k, v in kws.items() if k not in ('depth', 'boundary', 'meta', 'dtype', 'chunks', 'trim')}
            return self.apply(e, a0, pos[1:], live, star, dstar)
        if name in EXT_FRESH:
            return FRESH
        if name in EXT_ELEMS:
            b = set()
            for a in list(pos) + list(kws.values()) + ([star] if star else []) + ([dstar] if dstar else []):
                b |= contents(a)
            return AV((), b, args.f, True)
        if name in EXT_COPY:
            if name == 'numpy.array' and any(k.arg == 'copy' for k in e.keywords):
                return AV((), a0.b | a0.o)
            return self.copy_of(AV(a0.o, a0.b | a0.o), e)
        if name in EXT_VIEW:
            return AV((), a0.b | a0.o, a0.f)
        if name in EXT_ALIAS:
            return AV(a0.o | a0.b, a0.b | a0.o, a0.f)
        if name in EXT_WRAP:
            d0 = a0 if pos else kws.get('data', FRESH)
            return AV((), d0.b | d0.o)
        if name in EXT_WRITE0:
            self.write(a0, 'buf', e, '%s writes its first argument' % name, objects=False)
            return FRESH
        if name.startswith('class.'):
            return FRESH
        if any(p in name.lower() for p in GPU_NAME_PARTS) or name.startswith('<internal-other>'):
            return FRESH
        self.note_unknown('function ' + name, e)
        self.write(args, 'buf', e, 'unknown function %s' % name, objects=True)
        return AV(args.o | args.b, args.o | args.b, args.f)


Translator.flow_arg = Translator.flow


# ---- program assembly, python-side taint (second implementation, cross-checked by Coq), Coq emission ---------

def public_functions(tr):
    """every public top-level function of the analysed modules, in a stable order"""
    out = []
    for m in MODULES:
        for n in tr.mod_tree[m].body:
            if isinstance(n, ast.FunctionDef) and not n.name.startswith('_'):
                fi = tr.funcs[tr.mod_globals[m][n.name][1]] if tr.mod_globals[m].get(n.name, ('',))[0] == 'func' else None
                if fi is not None and not fi.gpu and fi.all_param_names():
                    out.append(fi)
    return out


def reachable(tr, fi):
    seen = []
    seen_set = set()
    stack = [fi.key]
    while stack:
        k = stack.pop()
        if k in seen_set:
            continue
        seen_set.add(k)
        seen.append(k)
        f = tr.funcs[k]
        for c in sorted(f.calls):
            stack.append(c)
        init = tr.mod_init[f.module].key
        if init not in seen_set:
            stack.append(init)
    return seen


def closure_py(instrs, roots):
    S = set(roots)
    edges = {}
    for ins in instrs:
        if ins[0] == 'view':
            edges.setdefault(ins[2], []).append(ins[1])
    work = list(S)
    while work:
        v = work.pop()
        for x in edges.get(v, ()):
            if x not in S:
                S.add(x)
                work.append(x)
    return S


def analyse_py(instrs, roots):
    S = closure_py(instrs, roots)
    hits = set()
    for ins in instrs:
        if ins[0] in ('write', 'touch') and ins[1] in S:
            hits.add((ins[3], KIND_CODE[ins[2]]))
    ret = any(ins[0] == 'ret' and ins[1] in S for ins in instrs)
    return S, sorted(hits), ret


KIND_CODE = {'buf': 0, 'attr': 1, 'setdata': 2, 'rechunk': 10, 'widen': 11}
KIND_COQ = {'buf': 'KBuf', 'attr': 'KAttr', 'setdata': 'KSetData', 'rechunk': 'TRechunk', 'widen': 'TWiden'}


def _is_gpu_test(t):
    if isinstance(t, ast.BoolOp) and isinstance(t.op, ast.And):
        return any(_is_gpu_test(v) for v in t.values)
    if isinstance(t, ast.Call):
        f = t.func
        nm = f.id if isinstance(f, ast.Name) else (f.attr if isinstance(f, ast.Attribute) else None)
        return nm in GPU_TESTS
    return False


def ret_shape(tr, fi, depth=0, rename=None):
    """syntactic classification of the return sites of a public wrapper (identity facts); a return of a call to
    a function of the same module is followed once (viewshed -> _viewshed_cpu)"""
    node = fi.node
    assigns = {}
    for n in ast.walk(node):
        if isinstance(n, ast.Assign) and len(n.targets) == 1 and isinstance(n.targets[0], ast.Name):
            assigns.setdefault(n.targets[0].id, []).append(n.value)
    out = []
    rn = rename or {}

    def classify(v, lineno, d=0):
        if isinstance(v, ast.Name) and d < 3 and v.id in assigns and len(assigns[v.id]) == 1:
            return classify(assigns[v.id][0], lineno, d + 1)
        if isinstance(v, ast.Call):
            fn = ast.unparse(v.func)
            if fn in ('xr.DataArray', 'DataArray', 'xarray.DataArray'):
                src = {}
                for k in v.keywords:
                    if k.arg in ('coords', 'dims', 'attrs'):
                        val = k.value
                        if isinstance(val, ast.Attribute) and val.attr == k.arg and isinstance(val.value, ast.Name):
                            src[k.arg] = rn.get(val.value.id, val.value.id if rename is None else '?')
                        else:
                            src[k.arg] = '?'
                return [(lineno, ('wrap', src.get('coords', ''), src.get('dims', ''), src.get('attrs', '')))]
            g = tr.mod_globals[fi.module].get(fn) if isinstance(v.func, ast.Name) else None
            if g and g[0] == 'func' and depth == 0 and not tr.funcs[g[1]].gpu:
                callee = tr.funcs[g[1]]
                m = {}
                for p, a in zip(callee.params, v.args):
                    if isinstance(a, ast.Name):
                        m[p] = a.id
                for k in v.keywords:
                    if k.arg and isinstance(k.value, ast.Name):
                        m[k.arg] = k.value.id
                sub = ret_shape(tr, callee, depth + 1, m)
                if sub:
                    return [(lineno, x[1]) for x in sub]
            return [(lineno, ('call', fn))]
        if isinstance(v, ast.Subscript) and isinstance(v.value, ast.Name):
            return [(lineno, ('slice', rn.get(v.value.id, v.value.id)))]
        if v is None:
            return [(lineno, ('none',))]
        return [(lineno, ('other', type(v).__name__))]

    def visit(stmts):
        for s in stmts:
            if isinstance(s, ast.Return):
                out.extend(classify(s.value, s.lineno))
            elif isinstance(s, (ast.FunctionDef, ast.Lambda, ast.ClassDef)):
                continue
            elif isinstance(s, ast.If) and _is_gpu_test(s.test):
                visit(s.orelse)
            else:
                for f in ('body', 'orelse', 'finalbody'):
                    visit(getattr(s, f, []) or [])
                for h in getattr(s, 'handlers', []) or []:
                    visit(h.body)
    visit(node.body)
    return out


# source files deliberately outside the analysis (no raster functions / cannot run here)
EXCLUDED_FILES = {'__init__.py': 're-exports only', '__main__.py': 'CLI entry', '_version.py': 'version string',
                  'esri.py': 'network helpers (ArcGIS REST), no raster function'}
EXCLUDED_DIRS = {'tests', 'datasets', 'gpu_rtx', '__pycache__'}


def check_module_list(repo):
    """fail closed when a source file appears that the translator does not know about"""
    base = os.path.join(repo, 'xrspatial')
    known = set(m + '.py' for m in MODULES) | set(EXCLUDED_FILES) | {'experimental/__init__.py'}
    found = set()
    for root, dirs, files in os.walk(base):
        dirs[:] = [d for d in dirs if d not in EXCLUDED_DIRS]
        for f in files:
            if f.endswith('.py'):
                found.add(os.path.relpath(os.path.join(root, f), base))
    extra = sorted(found - known)
    if extra:
        raise Unsupported('source files not covered by the translator: %s (add them to MODULES or EXCLUDED_FILES)' % extra)
    missing = sorted(set(m + '.py' for m in MODULES) - found)
    if missing:
        raise Unsupported('source files of MODULES missing: %s' % missing)


def build(repo):
    check_module_list(repo)
    tr = Translator(repo)
    rounds = tr.run()
    pubs = public_functions(tr)
    info = {}
    for fi in pubs:
        keys = reachable(tr, fi)
        instrs = []
        for k in keys:
            instrs += tr.funcs[k].instrs
        ro, rb = tr.ret_pair(fi)
        instrs = instrs + [('ret', ro), ('ret', rb)]
        roots = {}
        for p in fi.all_param_names():
            roots[p] = list(tr.param_pair(fi, p))
        allroots = [v for p in fi.all_param_names() for v in roots[p]]
        S, hits, ret = analyse_py(instrs, allroots)
        per = {}
        for p in fi.all_param_names():
            _, h, r = analyse_py(instrs, roots[p])
            per[p] = dict(hits=h, ret=r)
        info[fi.module.replace('/', '.') + '.' + fi.qual] = dict(
            fi=fi, keys=keys, instrs=instrs, roots=roots, allroots=allroots, hits=hits, ret=ret, per=per,
            ret_shape=ret_shape(tr, fi), n_instr=len(instrs))
    return tr, info, rounds


# =====================================================================================================
#  Part 2.  Scope tables (mirrors coq/C10/Spec.v; the dynamic oracle below is written from the property text)
# =====================================================================================================

# documented exceptions of the property text, per raster function:
#   writes: {(param, kind)}  kind 2 = "X.values = ..." (zonal.apply, by contract), 11 = dtype widening (viewshed)
#   alias:  params the returned value may be a view of (trim / crop return windows)
#   static_alias_imprecise: the static analysis cannot prove freshness (documented in PARTIAL); dynamic probe decides
#   identity: 'like:<param>' (default: first raster param) | 'own' (own shape/coords by definition) | 'none'
RASTER_FUNCS = {
    'aspect.aspect': {}, 'classify.binary': {}, 'classify.reclassify': {}, 'classify.quantile': {},
    'classify.natural_breaks': {}, 'classify.equal_interval': {}, 'convolution.convolution_2d': {},
    'curvature.curvature': {}, 'focal.mean': {}, 'focal.apply': {}, 'focal.hotspots': {'identity': 'like+unit'},
    'focal.focal_stats': {'identity': 'own'}, 'hillshade.hillshade': {},
    'multispectral.arvi': {}, 'multispectral.evi': {}, 'multispectral.gci': {}, 'multispectral.nbr': {},
    'multispectral.nbr2': {}, 'multispectral.ndvi': {}, 'multispectral.ndmi': {}, 'multispectral.savi': {},
    'multispectral.sipi': {}, 'multispectral.ebbi': {}, 'multispectral.true_color': {'identity': 'own'},
    'pathfinding.a_star_search': {}, 'perlin.perlin': {'identity': 'own'},
    'proximity.proximity': {}, 'proximity.allocation': {}, 'proximity.direction': {}, 'slope.slope': {},
    'terrain.generate_terrain': {'identity': 'own'},
    'viewshed.viewshed': {'writes': {('raster', 11)}},
    'zonal.stats': {'identity': 'own'}, 'zonal.crosstab': {'identity': 'own'},
    'zonal.apply': {'writes': {('values', 2)}, 'identity': 'none'},
    'zonal.regions': {},
    'zonal.trim': {'alias': {'raster'}, 'identity': 'window'}, 'zonal.crop': {'alias': {'values'}, 'identity': 'window'},
    'experimental.polygonize.polygonize': {'identity': 'own', 'static_alias_imprecise': {'raster'}},
    'local.cell_stats': {'identity': 'own'}, 'local.combine': {'identity': 'own'},
    'local.lesser_frequency': {'identity': 'own'}, 'local.equal_frequency': {'identity': 'own'},
    'local.greater_frequency': {'identity': 'own'}, 'local.lowest_position': {'identity': 'own'},
    'local.highest_position': {'identity': 'own'}, 'local.popularity': {'identity': 'own'},
    'local.rank': {'identity': 'own'},
    'utils.validate_arrays': {'identity': 'none'}, 'utils.get_xy_range': {'identity': 'none'},
    'utils.calc_res': {'identity': 'none'}, 'convolution.calc_cellsize': {'identity': 'none'},
    'utils.canvas_like': {'identity': 'own'},
}
# public functions that are not raster-in/raster-out analysis functions (scalar helpers, kernels constructors,
# generators without a raster argument, decorators, image exporters).  Their static verdict is recorded only.
NON_RASTER_FUNCS = {
    'utils.not_implemented_func': 'always raises', 'utils.lnglat_to_meters': 'coordinate arithmetic on scalars/arrays',
    'utils.height_implied_by_aspect_ratio': 'scalar', 'utils.bands_to_img': 'image export (datashader Image)',
    'utils.color_values': 'image export (datashader Image)',
    'utils.get_dataarray_resolution': 'returns the cell size read from attrs / coords (scalars)',
    'analytics.summarize_terrain': 'returns a Dataset that contains the input variable by design',
    'bump.bump': 'generator without raster argument', 'convolution.circle_kernel': 'kernel constructor',
    'convolution.annulus_kernel': 'kernel constructor',
    'convolution.custom_kernel': 'validates and returns the kernel it was given',
    'convolution.convolve_2d': 'array-level helper behind convolution_2d (covered through it)',
    'proximity.euclidean_distance': 'scalar', 'proximity.manhattan_distance': 'scalar',
    'proximity.great_circle_distance': 'scalar', 'zonal.get_full_extent': 'scalar', 'zonal.suggest_zonal_canvas': 'scalar',
    'experimental.polygonize.generated_jit': 'decorator',
}
# parameters of raster functions that are not rasters and for which the field-insensitive container model
# produces a false alias (the property text speaks of the rasters passed in)
NON_RASTER_PARAMS = {
    ('zonal.crosstab', 'zone_ids'): 'list of ids stored under the constant key "zone" of a dict that is also indexed '
                                    'by category ids (dict keys are not distinguished by the model)',
}
SCALAR_TYPES = {'int', 'float', 'str', 'bool', 'tuple', 'Tuple', 'None', 'Callable'}


def is_scalar_param(arg, default):
    """immutable by annotation: cannot be modified in place whatever the code does"""
    if arg.annotation is not None:
        txt = ast.unparse(arg.annotation)
        names = [n for n in txt.replace('[', ' ').replace(']', ' ').replace(',', ' ').split()]
        names = [n for n in names if n not in ('Optional', 'Union')]
        return bool(names) and all(n in SCALAR_TYPES for n in names)
    return False


def params_info(fi):
    a = fi.node.args
    pos = list(getattr(a, 'posonlyargs', [])) + list(a.args)
    defaults = [None] * (len(pos) - len(a.defaults)) + list(a.defaults)
    out = []
    for p, d in zip(pos, defaults):
        out.append((p.arg, is_scalar_param(p, d)))
    if a.vararg:
        out.append((a.vararg.arg, False))
    for p, d in zip(a.kwonlyargs, a.kw_defaults):
        out.append((p.arg, is_scalar_param(p, d)))
    if a.kwarg:
        out.append((a.kwarg.arg, False))
    return out


def protected_params(name, fi):
    return [p for p, scalar in params_info(fi) if not scalar and (name, p) not in NON_RASTER_PARAMS]


def expected_static(name):
    """(allowed (param, kind) hits besides rechunk, params the return may alias) for a raster function"""
    spec = RASTER_FUNCS[name]
    return set(spec.get('writes', ())), set(spec.get('alias', ())) | set(spec.get('static_alias_imprecise', ()))


def static_verdicts(tr, info):
    """python-side evaluation of the obligations (diagnostics; the authority is coq/C10/Props.v)"""
    problems = []
    names = set(info)
    for n in sorted(names - set(RASTER_FUNCS) - set(NON_RASTER_FUNCS)):
        problems.append(dict(func=n, what='public function %s is not classified (raster function or not): add it to the '
                                          'scope tables of harness/props/c10.py and coq/C10/Spec.v' % n))
    for n in sorted((set(RASTER_FUNCS) | set(NON_RASTER_FUNCS)) - names):
        problems.append(dict(func=n, what='function %s of the scope tables no longer exists as a public function' % n))
    for n in sorted(names & set(RASTER_FUNCS)):
        v = info[n]
        allowed, alias = expected_static(n)
        for p in protected_params(n, v['fi']):
            d = v['per'][p]
            got = set((p, k) for (_s, k) in d['hits'] if k != 10)
            for (s, k) in d['hits']:
                if k != 10 and (p, k) not in allowed:
                    st = tr.sites[s]
                    problems.append(dict(func=n, param=p, site=st, kind=k,
                                         what='%s: in-place %s at %s:%d (%s) may modify argument `%s`' % (
                                             n, {0: 'write', 1: 'attribute write', 2: 'data replacement', 11: 'dtype widening'}.get(k, k),
                                             st['file'], st['line'], st['what'], p)))
            for (pp, k) in allowed:
                if pp == p and (p, k) not in got:
                    problems.append(dict(func=n, param=p, kind=k, what='%s: documented exception (kind %d on `%s`) no longer '
                                                                       'present in the source' % (n, k, p)))
            if d['ret'] and p not in alias:
                problems.append(dict(func=n, param=p, what='%s: the returned value may alias argument `%s`' % (n, p)))
            if (not d['ret']) and p in alias:
                problems.append(dict(func=n, param=p, what='%s: documented view-of-`%s` return no longer present' % (n, p)))
    return problems


# =====================================================================================================
#  Part 3.  Generated.v
# =====================================================================================================

def coq_ident(s):
    return ''.join(c if (c.isalnum() or c == '_') else '_' for c in s)


def coq_instr(ins):
    k = ins[0]
    if k == 'fresh':
        return 'IFresh %d' % ins[1]
    if k == 'copy':
        return 'ICopy %d %d' % (ins[1], ins[2])
    if k == 'view':
        return 'IView %d %d' % (ins[1], ins[2])
    if k == 'write':
        return 'IWrite %d %s %d' % (ins[1], KIND_COQ[ins[2]], ins[3])
    if k == 'touch':
        return 'ITouch %d %s %d' % (ins[1], KIND_COQ[ins[2]], ins[3])
    if k == 'ret':
        return 'IRet %d' % ins[1]
    raise Unsupported(repr(ins))


def short_name(n):
    return n


def facts(repo):
    tr, info, rounds = build(repo)
    out = []
    w = out.append
    w('(* GENERATED by harness/props/c10.py facts() from %s — do not edit.' % 'the xrspatial sources of the checked tree')
    w('   Effect IR of every function reachable from a public function, the parameter roots,')
    w('   the translator\'s own inventory of argument-hitting sites and the return-site shapes. *)')
    w('Require Import Base.Prelude C10.Model.')
    w('Require Import String.')
    w('Local Open Scope positive_scope.')
    w('Local Open Scope string_scope.')
    w('')
    used = []
    seen = set()
    for n in info:
        for k in info[n]['keys']:
            if k not in seen:
                seen.add(k)
                used.append(k)
    body_name = {}
    for i, k in enumerate(used):
        fi = tr.funcs[k]
        nm = 'b%d_%s' % (i, coq_ident(fi.module.split('/')[-1] + '_' + fi.qual))[:70]
        body_name[k] = nm
        w('(* %s.py: %s (line %d) *)' % (fi.module, fi.qual, getattr(fi.node, 'lineno', 0)))
        w('Definition %s : list instr := [' % nm)
        w(';\n'.join('  ' + coq_instr(x) for x in fi.instrs))
        w('].')
    w('')
    w('(* site table: id -> file:line what *)')
    for s in sorted(tr.sites):
        st = tr.sites[s]
        w('(* site %d: %s:%d col %d in %s: %s *)' % (s, st['file'], st['line'], st['col'], st['func'], st['what']))
    w('')
    w('Record fn := mkFn {')
    w('  fn_name : string;')
    w('  fn_prog : list instr;')
    w('  fn_params : list (string * list var * bool);      (* name, [object var; buffer var], protected? *)')
    w('  fn_py : list (string * list (Z * Z) * bool);       (* the translator\'s own verdict per parameter: hits, return may alias *)')
    w('  fn_ret : list (string * string * string * string)  (* return sites: kind, coords-from, dims-from, attrs-from *)')
    w('}.')
    w('')
    fnames = []
    for n, v in info.items():
        fi = v['fi']
        cn = 'f_' + coq_ident(n)
        fnames.append(cn)
        prot = set(protected_params(n, fi)) if n in RASTER_FUNCS else set()
        ro, rb = tr.ret_pair(fi)
        w('Definition prog_%s : list instr :=' % coq_ident(n))
        w('  ' + ' ++ '.join(body_name[k] for k in v['keys']) + ' ++ [IRet %d; IRet %d].' % (ro, rb))
        params = '; '.join('("%s", [%d; %d], %s)' % (p, v['roots'][p][0], v['roots'][p][1], 'true' if p in prot else 'false')
                           for p in fi.all_param_names())
        py = '; '.join('("%s", [%s], %s)' % (p, '; '.join('(%d, %d)%%Z' % (s, k) for s, k in v['per'][p]['hits']),
                                            'true' if v['per'][p]['ret'] else 'false') for p in fi.all_param_names())
        rs = '; '.join('("%s", "%s", "%s", "%s")' % ((r[1] + ('',) * 4)[:4] if r[1][0] == 'wrap' else (r[1][0], (r[1] + ('',))[1], '', ''))
                       for r in v['ret_shape'])
        w('Definition %s : fn := mkFn "%s" prog_%s' % (cn, n, coq_ident(n)))
        w('  [%s]' % params)
        w('  [%s]' % py)
        w('  [%s].' % rs)
    w('')
    w('Definition functions : list fn := [%s].' % '; '.join(fnames))
    return {'Generated.v': '\n'.join(out) + '\n'}


# =====================================================================================================
#  Part 4.  Dynamic observation (oracle from the property text + correspondence with the model's verdict)
# =====================================================================================================
import copy as _copy
import json
import random

DTYPES = ['int8', 'int16', 'int32', 'int64', 'uint8', 'uint16', 'uint32', 'uint64', 'float32', 'float64']
LAYOUTS = ['C', 'F', 'view', 'readonly']
BACKENDS = ['numpy', 'dask']
H, W = 6, 7

RULE = ('every public raster function (registry below = RASTER_FUNCS) x backend {numpy, dask} x dtype {int8..uint64, float32, '
        'float64} x memory layout {C, F, non-contiguous view of a larger array, read-only} x attrs {with res, without res, empty} x '
        'dimension names {y/x, lat/lon with x=/y= given} x name= {default, given} x multi-raster dtypes/layouts {same, mixed}; every '
        'input carries scalar, 1-D non-index and 2-D auxiliary coordinates and nested mutable attrs; parameter variants (passes=0, '
        'max_distance, k, kernels): deep snapshot (bytes of the whole base buffer, dtype, dims, every coordinate incl. scalar '
        'ones, deep-copied attrs, name, non-raster arguments) before/after the call, np.shares_memory(output, every input '
        'buffer), write-to-output probe, output identity (shape, dims, coords, attrs, backend), compared with the property text '
        '(oracle) and with the verdict of the extracted checker on the regenerated IR of that function (correspondence); plus '
        'call sequences of length 2..4 on the same raster objects. Appended theme streams: every public function with an array argument (incl. convolve_2d, custom_kernel, color_values, bands_to_img, lnglat_to_meters, summarize_terrain) with a transposed / strided '
        '[::2, ::3] / reversed [::-1, ::-1] view at EACH argument position in turn (rasters, kernels, transforms) or all, named Dask '
        'chunkings (irregular, 1-wide, single, rows, same maximum with different splits per argument), ascending / negative / '
        'fractional / 1e6-spaced coordinates with x != y, degenerate shapes (1x1, 1xN, Nx1, 2x2) and fills (all-NaN, all-equal), list '
        'parameters given as ndarrays of another dtype, and call sequences over rasters DERIVED from the shared one (slice, '
        'assign_coords, shallow copy, astype, reversed isel, previous output). Quick tier: a latin-square sample of the cross product '
        '(every dtype, layout and backend occurs for several functions); thorough tier: the full backend x dtype x layout product, 60 sequences. A case is '
        'non-trivial when the call returned a result (calls that raise for a dtype/layout are counted separately and still '
        'checked for unmodified inputs).')
TRUSTED = [
    'the source->IR translator of harness/props/c10.py (unverified; regenerated every run, cross-checked by '
    'C10_inventory_covered and by the dynamic observation)',
    'the NumPy/xarray/Dask effect table of the translator (which primitives copy, view or write in place: astype/copy/flatten '
    'copy; ravel/reshape/asarray/basic slicing/.data/.values view; sort/fill/[]=/op= write) — assumed, as is aliasing below Python',
    'user-supplied callables (zonal.apply func, custom stats functions, focal.apply func) are assumed not to mutate what they are given',
    'x.data = x.data.rechunk(..) and x.values = x.values.astype(..) are modelled as value-preserving (ITouch); the snapshot checks it dynamically',
]
ASSUMPTIONS = ['CuPy/CUDA/RTX code paths cannot run here and are excluded from the IR and the dynamic runs',
               'protected arguments = every parameter not annotated as an immutable scalar (int/float/str/bool/tuple/Callable), '
               'minus NON_RASTER_PARAMS (zonal.crosstab zone_ids)']
PARTIAL = [
    'proof/partial by nature: the theorem is about the effect IR; that the IR over-approximates the Python/Numba/NumPy execution '
    '(translator + effect table) is not proved, threads and aliasing below Python cannot be exhibited by the model',
    'polygonize: freshness of the output is not claimed statically (scalar element loads `values[ij]` are indistinguishable from '
    'views in the IR); dynamic probe only',
    'local.* take a Dataset and return a bare DataArray (no coords/dims of the input): identity clause not applied to them; '
    'zonal.crosstab zone_ids excluded from the protected roots (dict-key conflation)',
    'dict keys and container members are not distinguished by the IR (field-insensitive); nested containers of arrays written '
    'through two subscripts are treated as array writes',
    'no obligation (verdict recorded only) for the public functions that are not raster-in/raster-out: ' + ', '.join(sorted(NON_RASTER_FUNCS)) +
    '; esri.py, gpu_rtx/ and datasets/ are not translated',
    'dynamic observation: functions whose unchanged code rejects an input class (Dask input for natural_breaks, a_star_search, '
    'viewshed, regions, trim, crop, polygonize; lat/lon dimension names for viewshed, true_color, canvas_like; integer templates '
    'for generate_terrain; float data for local.rank) raise; such calls are counted as errors, never flagged, and their inputs '
    'are still compared with the snapshot',
    'attrs containers: xarray copies the attrs dict shallowly, so nested mutable attr VALUES (lists, dicts) are shared between '
    'input and output of every wrapper in the unchanged code; not probed. Non-index coordinate variables ARE probed '
    '(np.shares_memory + write-and-restore): the unchanged wrappers copy them; index coordinates (pandas indexes) are immutable',
]
LEVEL_TEXT = ('Proved for all programs, all traces (any order/repetition of the program\'s instructions, i.e. all control flow), all '
              'heaps and all protected location sets: the boolean checker is sound (C10_writes_nothing_sound, '
              'C10_returns_fresh_sound, C10_noninterfering_sound); instantiated by vm_compute on the IR regenerated from the '
              'checked tree for every public function (C10_static_obligations, C10_inputs_unmodified, '
              'C10_output_shares_nothing), with the documented exceptions stated exactly (zonal.apply, trim/crop, viewshed, own-shape '
              'functions) and polygonize\'s output freshness left unclaimed. That the IR covers the real execution is NOT proved '
              '(translator, NumPy effect table, Numba, threads): it is tested on every run by the snapshot / shares_memory / '
              'write-probe observation over backends x dtypes x layouts and call sequences up to 4, which is also the oracle.')
LEVEL_NOTE = ('Trusted: Coq kernel + vm_compute; the AST translator and its NumPy/xarray/Dask effect table; extraction and the OCaml '
              'driver (used to recompute the verdicts outside Coq); the dynamic harness. Not modelled: Numba code generation, threads, '
              'memory below the Python object level, CuPy paths.')
OCAML_UTILS = ['zio.ml']


EXTRA_LAYOUTS = ['transposed', 'strided', 'reversed']      # theme 1: views that are neither C nor F nor a plain window
COORD_KINDS = ['desc2', 'asc-frac', 'large']
SHAPES = {'1x1': (1, 1), '1xN': (1, 5), 'Nx1': (5, 1), '2x2': (2, 2)}
CHUNK_KINDS = ['irregular', 'onewide', 'single', 'rows1', 'samemax']


def _mk_base(rng, dtype, layout, kind, shape=None, fill=None):
    """-> the ndarray that OWNS the memory; _view_of(base, layout) is the array handed to the library"""
    import numpy as np
    hh, ww = shape or (H, W)
    if layout in EXTRA_LAYOUTS:
        a = _mk_base(rng, dtype, 'C', kind, shape, fill)
        if layout == 'transposed':
            return np.ascontiguousarray(a.T)                 # handed over as base.T (F-contiguous view)
        if layout == 'reversed':
            return np.ascontiguousarray(a[::-1, ::-1])       # handed over as base[::-1, ::-1] (negative strides)
        base = np.zeros((2 * hh, 3 * ww), dtype=a.dtype)     # handed over as base[::2, ::3]
        base[::2, ::3] = a
        return base
    big = layout == 'view'
    shape = (hh + 2, ww + 2) if big else (hh, ww)
    if kind in ('zones', 'izones'):
        if kind == 'izones' and dtype.startswith('float'):
            dtype = 'int32'
        vals = np.array([[1 + (r * 2 // shape[0]) * 2 + (c * 2 // shape[1]) for c in range(shape[1])] for r in range(shape[0])])
    elif kind in ('terrain', 'bigterrain'):
        vals = np.array([[rng.randint(0, 60) for c in range(shape[1])] for r in range(shape[0])])
        if kind == 'bigterrain' and np.dtype(dtype).itemsize >= 4 and not dtype == 'float32':
            # elevations above 2**24 (odd, so not exactly representable in float32): e.g. millimetres
            vals = vals * 2 + 20000351
    else:
        vals = np.array([[rng.randint(0, 5) for c in range(shape[1])] for r in range(shape[0])])
    order = 'F' if layout == 'F' else 'C'
    a = np.array(vals, dtype=dtype, order=order)
    if dtype.startswith('float') and kind == 'data':
        a[rng.randrange(shape[0]), rng.randrange(shape[1])] = np.nan
        if rng.random() < 0.5:          # the named hard values: +-inf next to NaN
            a[rng.randrange(shape[0]), rng.randrange(shape[1])] = np.inf
            a[rng.randrange(shape[0]), rng.randrange(shape[1])] = -np.inf
    if fill == 'allequal' or (fill == 'allnan' and a.dtype.kind != 'f'):
        a[...] = 3
    elif fill == 'allnan':
        a[...] = np.nan
    return a


def _view_of(base, layout):
    if layout == 'view':
        return base[..., 1:-1, 1:-1]
    if layout == 'transposed':
        return base.T if base.ndim == 2 else base.transpose(0, 2, 1)
    if layout == 'strided':
        return base[..., ::2, ::3]
    if layout == 'reversed':
        return base[..., ::-1, ::-1]
    return base


def _mk_stack_base(rng, dtype, layout, shape=None):
    """3 layers, layer dimension FIRST (zonal.crosstab's 3-D values)"""
    import numpy as np
    h0, w0 = shape or (H, W)
    if layout in EXTRA_LAYOUTS:
        a = _mk_stack_base(rng, dtype, 'C', shape)
        if layout == 'transposed':
            return np.ascontiguousarray(a.transpose(0, 2, 1))
        if layout == 'reversed':
            return np.ascontiguousarray(a[:, ::-1, ::-1])
        base = np.zeros((3, 2 * h0, 3 * w0), dtype=a.dtype)
        base[:, ::2, ::3] = a
        return base
    hh, ww = (h0 + 2, w0 + 2) if layout == 'view' else (h0, w0)
    vals = np.array([[[rng.randint(0, 5) for c in range(ww)] for r in range(hh)] for _l in range(3)])
    return np.array(vals, dtype=dtype, order='F' if layout == 'F' else 'C')


ATTRS_KINDS = ['res', 'nores', 'empty']


def _aux_coords(ydim, xdim, h=None, w=None):
    """scalar, 1-D non-index and 2-D auxiliary coordinates every input raster carries"""
    import numpy as np
    h, w = h or H, w or W
    return {'spatial_ref': 0, 'band': 1, 'time': np.datetime64('2020-01-02'),
            'row_label': (ydim, np.arange(h) * 10), 'cell_id': ((ydim, xdim), np.arange(h * w).reshape(h, w))}


def _axis_coords(coords_kind, h, w):
    """(y values, x values): theme 6 — descending/ascending, non-zero / negative origin, fractional, large, x != y spacing"""
    import numpy as np
    if coords_kind == 'asc-frac':
        return -3.25 + np.arange(h, dtype='float64') * 0.5, 100.5 + np.arange(w, dtype='float64') * 1.5
    if coords_kind == 'large':
        return 5.0e6 - np.arange(h, dtype='float64') * 1.0e6, -2.0e6 + np.arange(w, dtype='float64') * 1.0e6
    return np.arange(h, dtype='float64')[::-1] * 2.0, np.arange(w, dtype='float64') * 2.0


def _chunks_for(chunks, h, w):
    """theme 3: named chunkings -> explicit per-axis chunk tuples"""
    if chunks is None or not isinstance(chunks, str):
        return tuple(chunks or (3, 4))

    def split(n, parts):
        out = []
        for p in parts:
            if n <= 0:
                break
            out.append(min(p, n))
            n -= out[-1]
        if n > 0:
            out.append(n)
        return tuple(out)
    if chunks == 'irregular':
        return (split(h, (1, 2, 3)), split(w, (2, 5)))
    if chunks == 'onewide':
        return (1, 1)
    if chunks == 'single':
        return (h, w)
    if chunks == 'rows1':
        return (1, w)
    if chunks == 'samemax-a':                 # same per-axis maximum, different splits
        return (split(h, (3, 3)), split(w, (3, 4)))
    if chunks == 'samemax-b':
        return (split(h, (3, 3)), split(w, (4, 3)))
    raise ValueError(chunks)


def _mk_raster(rng, dtype, layout, backend, kind='data', name='r', attrs_kind='res', dims_kind='yx', chunks=None,
               shape=None, fill=None, coords_kind='desc2'):
    """-> (DataArray, base ndarray that owns the memory).  attrs_kind: 'res' (valid res attribute), 'nores' (attrs
    without res: the cell size must be derived from the coordinates), 'empty' (no attrs at all)"""
    import numpy as np
    import xarray as xr
    h, w = shape or (H, W)
    attrs = {'res': (2.0, 2.0), 'crs': 'EPSG:3857', 'nodatavals': [0.0], 'nested': {'a': [1, 2]}}
    if attrs_kind == 'nores':
        del attrs['res']
    elif attrs_kind == 'empty':
        attrs = {}
    ydim, xdim = ('y', 'x') if dims_kind == 'yx' else ('lat', 'lon')
    ys, xs = _axis_coords(coords_kind, h, w)
    if kind == 'stack3':
        base = _mk_stack_base(rng, dtype, layout, shape)
        arr = _view_of(base, layout)
        if layout == 'readonly':
            base.flags.writeable = False
        data = arr
        if backend == 'dask':
            import dask.array as da
            data = da.from_array(arr, chunks=(3,) + tuple(_chunks_for(chunks, h, w)))
        agg = xr.DataArray(data, dims=['layer', ydim, xdim], name=name,
                           coords=dict(_aux_coords(ydim, xdim, h, w), layer=np.array([10, 20, 30]), **{ydim: ys, xdim: xs}),
                           attrs=attrs)
        return agg, base
    base = _mk_base(rng, dtype, layout, kind, shape, fill)
    arr = _view_of(base, layout)
    if layout == 'readonly':
        base.flags.writeable = False
    data = arr
    if backend == 'dask':
        import dask.array as da
        data = da.from_array(arr, chunks=_chunks_for(chunks, h, w))
    agg = xr.DataArray(data, dims=[ydim, xdim], name=name,
                       coords=dict(_aux_coords(ydim, xdim, h, w), **{ydim: ys, xdim: xs}),
                       attrs=attrs)
    return agg, base


def _snap_raster(agg, base):
    import numpy as np
    d = agg.data
    return dict(base_bytes=base.tobytes(), base_dtype=str(base.dtype), base_shape=tuple(base.shape),
                base_strides=tuple(base.strides), writeable=bool(base.flags.writeable),
                dtype=str(agg.dtype), shape=tuple(agg.shape), dims=tuple(agg.dims), name=agg.name,
                coords={k: (tuple(v.dims), np.array(v.values, copy=True)) for k, v in agg.coords.items()},
                attrs=_copy.deepcopy(dict(agg.attrs)), values=np.array(agg.values, copy=True),
                data_id=id(d), is_dask=type(d).__module__.startswith('dask'))


def _same_arr(a, b):
    import numpy as np
    a = np.asarray(a)
    b = np.asarray(b)
    if a.shape != b.shape:
        return False
    if a.dtype.kind == 'f' or b.dtype.kind == 'f':
        return bool(np.array_equal(a.astype('float64'), b.astype('float64'), equal_nan=True))
    return bool(np.array_equal(a, b))


def _diff_raster(agg, base, snap, allow_widen=False):
    """list of differences between the raster now and its snapshot (property: values, coords, attrs unchanged)"""
    import numpy as np
    out = []
    if base.tobytes() != snap['base_bytes']:
        out.append('values (the underlying buffer changed)')
    if str(base.dtype) != snap['base_dtype'] or tuple(base.shape) != snap['base_shape'] or tuple(base.strides) != snap['base_strides']:
        out.append('buffer dtype/shape/strides')
    if bool(base.flags.writeable) != snap['writeable']:
        out.append('writeable flag')
    try:
        now = np.asarray(agg.values)
    except Exception as e:          # noqa
        out.append('values unreadable: %s' % type(e).__name__)
        now = None
    if now is not None and not _same_arr(now, snap['values']):
        out.append('values (as seen through the DataArray)')
    if str(agg.dtype) != snap['dtype']:
        if not (allow_widen and now is not None and _same_arr(now, snap['values'])):
            out.append('dtype %s -> %s' % (snap['dtype'], agg.dtype))
    if tuple(agg.shape) != snap['shape'] or tuple(agg.dims) != snap['dims']:
        out.append('shape/dims')
    if agg.name != snap['name']:
        out.append('name %r -> %r' % (snap['name'], agg.name))
    ck = set(agg.coords.keys())
    if ck != set(snap['coords'].keys()):
        out.append('coordinate names')
    else:
        for k, (dims, vals) in snap['coords'].items():
            if tuple(agg.coords[k].dims) != dims or not _same_arr(agg.coords[k].values, vals):
                out.append('coordinate %s' % k)
    if not _deep_eq(dict(agg.attrs), snap['attrs']):
        out.append('attrs')
    is_dask = type(agg.data).__module__.startswith('dask')
    if is_dask != snap['is_dask']:
        out.append('backend of the argument')
    return out


def _deep_eq(a, b):
    import numpy as np
    if isinstance(a, dict) and isinstance(b, dict):
        return set(a) == set(b) and all(_deep_eq(a[k], b[k]) for k in a)
    if isinstance(a, (list, tuple)) and isinstance(b, (list, tuple)):
        return type(a) == type(b) and len(a) == len(b) and all(_deep_eq(x, y) for x, y in zip(a, b))
    if isinstance(a, np.ndarray) or isinstance(b, np.ndarray):
        return isinstance(a, np.ndarray) and isinstance(b, np.ndarray) and a.dtype == b.dtype and _same_arr(a, b)
    if isinstance(a, float) and isinstance(b, float) and a != a and b != b:
        return True
    return a == b


# ---- registry ---------------------------------------------------------------------------------------------
# name -> dict(rasters=[(param, kind)], extra=lambda rng, variant: {param: value}, call=lambda mod, kw: result,
#              variants=n, backends=[...])
def _registry():
    import numpy as np

    def k3():
        return np.array([[0., 1., 0.], [1., 1., 1.], [0., 1., 0.]])

    def one(mod, fn, raster='agg', extra=None, variants=1, backends=BACKENDS, kind='data', out='raster'):
        return dict(mod=mod, fn=fn, rasters=[(raster, kind)], extra=extra or (lambda rng, v: {}), variants=variants,
                    backends=backends, out=out)

    def multi(mod, fn, rasters, extra=None, variants=1, backends=BACKENDS, out='raster'):
        return dict(mod=mod, fn=fn, rasters=rasters, extra=extra or (lambda rng, v: {}), variants=variants,
                    backends=backends, out=out)

    reg = {
        'aspect.aspect': one('aspect', 'aspect'),
        'slope.slope': one('slope', 'slope'),
        'curvature.curvature': one('curvature', 'curvature'),
        'hillshade.hillshade': one('hillshade', 'hillshade'),
        'classify.binary': one('classify', 'binary', extra=lambda r, v: {'values': [1, 2, 3][:1 + v]}, variants=2),
        'classify.reclassify': one('classify', 'reclassify', extra=lambda r, v: {'bins': [1, 3, 5], 'new_values': [10, 20, 30]}),
        'classify.quantile': one('classify', 'quantile', extra=lambda r, v: {'k': 2 + v}, variants=2),
        'classify.natural_breaks': one('classify', 'natural_breaks', extra=lambda r, v: {'k': 2 + v, 'num_sample': [None, 20][v]},
                                       variants=2, backends=['numpy']),
        'classify.equal_interval': one('classify', 'equal_interval', extra=lambda r, v: {'k': 3}),
        'convolution.convolution_2d': one('convolution', 'convolution_2d', extra=lambda r, v: {'kernel': k3()}),
        'focal.mean': one('focal', 'mean', extra=lambda r, v: {'passes': v, 'excludes': [np.nan, 0.0][:1 + (v % 2)]}, variants=3),
        'focal.apply': one('focal', 'apply', raster='raster', extra=lambda r, v: {'kernel': k3()}),
        'focal.hotspots': one('focal', 'hotspots', raster='raster', extra=lambda r, v: {'kernel': k3()}),
        'focal.focal_stats': one('focal', 'focal_stats', extra=lambda r, v: {'kernel': k3(), 'stats_funcs': ['mean', 'max', 'sum'][:2 + v]},
                                 variants=2, out='own'),
        'proximity.proximity': one('proximity', 'proximity', raster='raster',
                                   extra=lambda r, v: {'target_values': [[1], [2, 3], []][v], 'max_distance': [np.inf, 4.0, 2.0][v]}, variants=3),
        'proximity.allocation': one('proximity', 'allocation', raster='raster',
                                    extra=lambda r, v: {'target_values': [[1], [2, 3]][v], 'max_distance': [np.inf, 4.0][v]}, variants=2),
        'proximity.direction': one('proximity', 'direction', raster='raster',
                                   extra=lambda r, v: {'target_values': [[1], [2, 3]][v], 'max_distance': [np.inf, 4.0][v]}, variants=2),
        'pathfinding.a_star_search': one('pathfinding', 'a_star_search', raster='surface',
                                         # variant 2: every cell is a barrier, so the start is non crossable and not snapped
                                         # start / goal given as tuple, list and ndarray (the mutable ones are snapshotted)
                                         extra=lambda r, v: {'start': [(10.0, 0.0), [10.0, 0.0], np.array([10.0, 0.0])][v],
                                                             'goal': [(0.0, 12.0), [0.0, 12.0], np.array([0.0, 12.0])][v],
                                                             'barriers': [[], [0], [0, 1, 2, 3, 4, 5]][v],
                                                             'snap_start': v == 1, 'snap_goal': v == 1}, variants=3, backends=['numpy']),
        'perlin.perlin': one('perlin', 'perlin', extra=lambda r, v: {'seed': 3 + v}, variants=2, out='own'),
        'terrain.generate_terrain': one('terrain', 'generate_terrain', extra=lambda r, v: {'seed': 3 + v}, out='own'),
        'viewshed.viewshed': dict(one('viewshed', 'viewshed', raster='raster',
                                      extra=lambda r, v: {'x': 4.0 + 2 * (v % 2), 'y': 6.0, 'observer_elev': 3.0},
                                      variants=4, backends=['numpy'], kind='terrain'),
                                  kinds=lambda v: {'raster': 'bigterrain' if v >= 2 else 'terrain'}),
        'zonal.regions': one('zonal', 'regions', raster='raster', extra=lambda r, v: {'neighborhood': [4, 8][v]}, variants=2, backends=['numpy']),
        'zonal.trim': one('zonal', 'trim', raster='raster', extra=lambda r, v: {'values': [(0,), (0, 1), (np.nan,)][v]}, variants=3,
                          backends=['numpy'], out='window'),
        'experimental.polygonize.polygonize': one('experimental.polygonize', 'polygonize', raster='raster',
                                                  extra=lambda r, v: {'connectivity': [4, 8][v]}, variants=2, backends=['numpy'], out='own'),
        # polygonize with its optional mask raster and affine transform array
        'experimental.polygonize.polygonize#mask': multi('experimental.polygonize', 'polygonize', [('raster', 'data'), ('mask', 'zones')],
                                                         extra=lambda r, v: {'connectivity': [4, 8][v],
                                                                             'transform': np.array([2.0, 0.0, 10.0, 0.0, -2.0, 20.0])},
                                                         variants=2, out='own'),
        'multispectral.true_color': multi('multispectral', 'true_color', [('r', 'data'), ('g', 'data'), ('b', 'data')], out='own'),
        'zonal.stats': multi('zonal', 'stats', [('zones', 'zones'), ('values', 'data')],
                             extra=lambda r, v: {'stats_funcs': ['mean', 'max', 'sum', 'count'][:2 + v]} if v < 2 else
                             {'return_type': 'xarray.DataArray', 'stats_funcs': ['mean', 'sum']}, variants=3, out='own'),
        'zonal.crosstab': multi('zonal', 'crosstab', [('zones', 'zones'), ('values', 'data')],
                                extra=lambda r, v: {'zone_ids': [None, [1, 2]][v], 'cat_ids': [None, [1, 2, 3]][v]}, variants=2, out='own'),
        # 3-D values, category dimension first (layer=None/0): one flattened row per layer is re-ordered by zone
        'zonal.crosstab#3d': multi('zonal', 'crosstab', [('zones', 'zones'), ('values', 'stack3')],
                                   extra=lambda r, v: {'layer': [None, 0][v], 'agg': ['sum', 'count'][v]}, variants=2, out='own'),
        'zonal.apply': multi('zonal', 'apply', [('zones', 'izones'), ('values', 'data')],
                             extra=lambda r, v: {'func': _plus_one, 'nodata': [0, 1][v]}, variants=2, backends=['numpy'], out='none'),
        'zonal.crop': multi('zonal', 'crop', [('zones', 'zones'), ('values', 'data')],
                            extra=lambda r, v: {'zones_ids': [(1,), (2, 4)][v]}, variants=2, backends=['numpy'], out='window'),
        'utils.validate_arrays': multi('utils', 'validate_arrays', [('a', 'data'), ('b', 'data')], out='none'),
        'utils.get_xy_range': one('utils', 'get_xy_range', raster='raster', out='none'),
        'utils.calc_res': one('utils', 'calc_res', raster='raster', out='none'),
        'convolution.calc_cellsize': one('convolution', 'calc_cellsize', raster='raster', out='none'),
        'utils.canvas_like': one('utils', 'canvas_like', raster='raster', extra=lambda r, v: {'width': 4}, backends=['numpy'], out='own'),
    }
    reg['convolution.convolve_2d'] = dict(one('convolution', 'convolve_2d', raster='data', extra=lambda r, v: {'kernel': k3()},
                                              out='own'), raw=True)
    reg['convolution.custom_kernel'] = dict(mod='convolution', fn='custom_kernel', rasters=[], extra=lambda r, v: {'kernel': k3()},
                                            variants=1, backends=BACKENDS, out='none')
    reg['utils.bands_to_img'] = multi('utils', 'bands_to_img', [('r', 'data'), ('g', 'data'), ('b', 'data')], out='none')
    reg['utils.color_values'] = one('utils', 'color_values', extra=lambda r, v: {'color_key': {1: 'red', 2: '#00ff00'}}, out='none')
    reg['utils.lnglat_to_meters'] = dict(multi('utils', 'lnglat_to_meters', [('longitude', 'data'), ('latitude', 'data')], out='none'),
                                         raw=True)
    reg['analytics.summarize_terrain'] = one('analytics', 'summarize_terrain', raster='terrain', out='none')
    reg['utils.get_dataarray_resolution'] = one('utils', 'get_dataarray_resolution', out='none')
    for fn, bands in [('arvi', ['nir_agg', 'red_agg', 'blue_agg']), ('evi', ['nir_agg', 'red_agg', 'blue_agg']),
                      ('gci', ['nir_agg', 'green_agg']), ('nbr', ['nir_agg', 'swir2_agg']), ('nbr2', ['swir1_agg', 'swir2_agg']),
                      ('ndvi', ['nir_agg', 'red_agg']), ('ndmi', ['nir_agg', 'swir1_agg']), ('savi', ['nir_agg', 'red_agg']),
                      ('sipi', ['nir_agg', 'red_agg', 'blue_agg']), ('ebbi', ['red_agg', 'swir_agg', 'tir_agg'])]:
        reg['multispectral.' + fn] = multi('multispectral', fn, [(b, 'data') for b in bands])
    for fn, ref in [('cell_stats', False), ('combine', False), ('lesser_frequency', True), ('equal_frequency', True),
                    ('greater_frequency', True), ('lowest_position', False), ('highest_position', False), ('popularity', True),
                    ('rank', True)]:
        reg['local.' + fn] = dict(mod='local', fn=fn, rasters=[('a', 'data'), ('b', 'data'), ('c', 'data')], dataset=True,
                                  extra=(lambda r, v, ref=ref: ({'ref_var': 'a'} if ref else {})), variants=1,
                                  backends=['numpy'], out='own')
    for k, ent in reg.items():
        ent['backends'] = BACKENDS        # a backend a function does not implement is an ordinary, classified error
        ent['dask_ok'] = k not in NO_DASK
    return reg


# functions whose UNCHANGED code rejects Dask-backed input (NotImplementedError / TypeError / Numba typing error):
# still run on Dask (the inputs must be intact after the exception) but only once per function in the quick tier
NO_DASK = {'utils.bands_to_img', 'utils.color_values', 'convolution.custom_kernel', 'experimental.polygonize.polygonize#mask', 'classify.natural_breaks', 'pathfinding.a_star_search', 'viewshed.viewshed', 'zonal.regions', 'zonal.trim',
           'zonal.crop', 'experimental.polygonize.polygonize'}


def _plus_one(x):
    return x + 1


def _observe(case):
    """run one case in this process; returns an observation dict (JSON-able)"""
    import importlib
    import warnings
    import io
    import contextlib
    import numpy as np
    import xarray as xr
    warnings.filterwarnings('ignore')
    reg = _registry()
    ent = reg[case['fn']]
    rng = random.Random(case['dataseed'])
    rasters = {}
    bases = {}
    kinds = ent['kinds'](case['variant']) if 'kinds' in ent else {}
    for ri, (p, kind) in enumerate(ent['rasters']):
        kind = kinds.get(p, kind)
        dt, lo = case['dtype'], case['layout']
        if case.get('mix') and ri > 0:
            # the other rasters of a multi-raster call get another dtype and memory layout
            dt = DTYPES[(DTYPES.index(dt) + 3 * ri) % len(DTYPES)]
            lo = LAYOUTS[(LAYOUTS.index(lo) + ri) % len(LAYOUTS)]
        # theme stream: an extra memory layout for ONE argument position (or all), named chunkings, degenerate
        # shapes / fills, other coordinate systems
        if case.get('layoutx') and case.get('layoutpos') in (None, ri):
            lo = case['layoutx']
        ck = case.get('chunkkind')
        if ck == 'samemax':
            ck = 'samemax-b' if case.get('chunkpos') == ri else 'samemax-a'
        elif ck is None and case.get('chunkpos') == ri:
            ck = (2, 7)                 # one argument position (each in turn) is chunked differently from the others
        shp = tuple(case['shape']) if case.get('shape') else None
        rasters[p], bases[p] = _mk_raster(rng, dt, lo, case['backend'], kind, name=p,
                                          attrs_kind=case.get('attrs', 'res'), dims_kind=case.get('dims', 'yx'),
                                          chunks=ck, shape=shp, fill=case.get('fill'),
                                          coords_kind=case.get('coords', 'desc2'))
    extra = ent['extra'](rng, case['variant'])
    # array-valued non-raster arguments (kernels, transforms) are argument positions too: give ONE of them the layout
    arr_keys = [k for k in sorted(extra) if isinstance(extra[k], np.ndarray) and extra[k].ndim == 2]
    if case.get('layoutx') and case.get('layoutpos') is not None and case['layoutpos'] >= len(ent['rasters']) and arr_keys:
        k = arr_keys[(case['layoutpos'] - len(ent['rasters'])) % len(arr_keys)]
        a = extra[k]
        if case['layoutx'] == 'transposed':
            extra[k] = np.ascontiguousarray(a.T).T
        elif case['layoutx'] == 'reversed':
            extra[k] = np.ascontiguousarray(a[::-1, ::-1])[::-1, ::-1]
        else:
            big = np.zeros((2 * a.shape[0], 3 * a.shape[1]), dtype=a.dtype)
            big[::2, ::3] = a
            extra[k] = big[::2, ::3]
    # list-valued parameters given as numpy arrays of another dtype (theme 2): they must come back untouched as well
    if case.get('arrparams'):
        for k in ('bins', 'new_values', 'values', 'excludes', 'target_values', 'barriers', 'zones_ids', 'zone_ids', 'cat_ids'):
            v = extra.get(k)
            if isinstance(v, (list, tuple)) and len(v) and all(isinstance(x, (int, float)) for x in v):
                extra[k] = np.array(v, dtype=['int64', 'float32', 'float64'][case['variant'] % 3]
                                    if all(float(x).is_integer() for x in v if x == x) and not any(x != x for x in v) else 'float64')
    # points given in coordinate units follow the raster's coordinate system
    if (case.get('coords', 'desc2') != 'desc2' or case.get('shape')) and rasters:
        r0 = rasters[ent['rasters'][0][0]]
        ys, xs = r0[r0.dims[-2]].values, r0[r0.dims[-1]].values

        def remap(pt):
            row = int(round((len(ys) - 1) - float(pt[0]) / 2.0))
            col = int(round(float(pt[1]) / 2.0))
            return (float(ys[max(0, min(len(ys) - 1, row))]), float(xs[max(0, min(len(xs) - 1, col))]))
        for k in ('start', 'goal'):
            if k in extra:
                y2, x2 = remap(extra[k])
                extra[k] = type(extra[k])((y2, x2)) if not isinstance(extra[k], np.ndarray) else np.array([y2, x2])
        if isinstance(extra.get('x'), float) and isinstance(extra.get('y'), float):
            extra['y'], extra['x'] = remap((extra['y'], extra['x']))
    extra_snap = _copy.deepcopy({k: v for k, v in extra.items() if not callable(v)})
    snaps = {p: _snap_raster(rasters[p], bases[p]) for p in rasters}
    mod = importlib.import_module('xrspatial.' + ent['mod'])
    f = getattr(mod, ent['fn'])
    try:
        import inspect
        sig = set(inspect.signature(f).parameters)
    except Exception:                 # noqa
        sig = set()
    if case.get('named') and 'name' in sig and 'name' not in extra:
        extra['name'] = 'given_name'          # optional argument given instead of defaulted
    if case.get('dims', 'yx') != 'yx' and {'x', 'y'} <= sig and 'x' not in extra and not isinstance(extra.get('x'), float):
        extra['x'], extra['y'] = 'lon', 'lat'  # the functions that take the dimension names
    obs = dict(case=case, error=None, modified={}, extra_modified=[], shares=[], probe_changed=[], identity=[], out_kind=None)
    seq = case.get('sequence')
    try:
        with contextlib.redirect_stdout(io.StringIO()), contextlib.redirect_stderr(io.StringIO()):
            if ent.get('dataset'):
                ds = xr.Dataset({p: rasters[p] for p in rasters})
                # the Dataset holds the same variables: snapshot through it as well
                res = f(ds, **extra)
            elif ent['fn'] == 'validate_arrays':
                res = f(*[rasters[p] for p, _ in ent['rasters']])
            elif ent.get('raw'):
                # array-level public functions: the bare (NumPy / Dask) arrays are passed
                res = f(**{p: rasters[p].data for p in rasters}, **extra)
            else:
                res = f(**rasters, **extra)
    except Exception as e:            # a dtype/layout the function legitimately rejects: not a violation in itself
        obs['error'] = '%s: %s' % (type(e).__name__, str(e)[:100])
        res = None
    allow_widen = (case['fn'] == 'viewshed.viewshed')
    for p in rasters:
        d = _diff_raster(rasters[p], bases[p], snaps[p], allow_widen=allow_widen)
        if d:
            obs['modified'][p] = d
    for k, v in extra_snap.items():
        if not _deep_eq(extra[k], v):
            obs['extra_modified'].append(k)
    if res is None:
        return obs
    # ---- output: memory sharing, write probe, identity ----
    outs = []
    if isinstance(res, xr.DataArray):
        obs['out_kind'] = 'DataArray'
        d = res.data
        obs['out_backend'] = 'dask' if type(d).__module__.startswith('dask') else 'numpy'
        try:
            comp = d.compute() if obs['out_backend'] == 'dask' else d
        except Exception as e:        # noqa
            obs['error'] = 'compute: %s: %s' % (type(e).__name__, str(e)[:100])
            comp = None
        if comp is not None:
            outs.append(('data', np.asarray(comp)))
        first = ent['rasters'][0][0]
        src = rasters[first]
        ident = []
        if ent['out'] == 'raster':
            s0 = snaps[first]
            if tuple(res.shape) != s0['shape']:
                ident.append('shape %s vs %s' % (tuple(res.shape), s0['shape']))
            if tuple(res.dims) != s0['dims']:
                ident.append('dims %s vs %s' % (tuple(res.dims), s0['dims']))
            if set(res.coords.keys()) != set(s0['coords'].keys()):
                ident.append('coordinate names %s vs %s' % (sorted(res.coords.keys()), sorted(s0['coords'].keys())))
            else:
                for k, (dims, vals) in s0['coords'].items():
                    if tuple(res.coords[k].dims) != dims or not _same_arr(res.coords[k].values, vals):
                        ident.append('coordinate %s' % k)
            ra = dict(res.attrs)
            if case['fn'] == 'focal.hotspots':
                if ra.get('unit') != '%':
                    ident.append('hotspots unit attr')
                ra.pop('unit', None)
            if not _deep_eq(ra, s0['attrs']):
                ident.append('attrs')
            if obs['out_backend'] != case['backend']:
                ident.append('backend %s vs %s' % (obs['out_backend'], case['backend']))
        elif ent['out'] == 'window':
            if tuple(res.dims) != snaps[first]['dims'] and tuple(res.dims) != snaps[ent['rasters'][-1][0]]['dims']:
                ident.append('dims')
        obs['identity'] = ident
    elif isinstance(res, tuple) and case['fn'].split('#')[0].endswith('polygonize'):
        obs['out_kind'] = 'polygons'
        for ring_list in res[1]:
            for ring in ring_list:
                outs.append(('ring', np.asarray(ring)))
    elif isinstance(res, np.ndarray):
        obs['out_kind'] = 'ndarray'
        outs.append(('data', res))
    else:
        obs['out_kind'] = type(res).__name__
    for (what, arr) in outs[:64]:
        for p in rasters:
            if isinstance(arr, np.ndarray) and arr.size and np.shares_memory(arr, bases[p]):
                obs['shares'].append(p)
    obs['shares'] = sorted(set(obs['shares']))
    # write probe: fill the output, then look at the inputs again
    if ent['out'] not in ('window', 'none'):
        wrote = False
        for (what, arr) in outs[:64]:
            if isinstance(arr, np.ndarray) and arr.size and arr.flags.writeable:
                try:
                    arr[...] = 1 if arr.dtype.kind != 'f' else 12345.0
                    wrote = True
                except Exception:     # noqa
                    pass
        obs['probe_wrote'] = wrote
        for p in rasters:
            d = _diff_raster(rasters[p], bases[p], snaps[p], allow_widen=allow_widen)
            d = [x for x in d if x not in obs['modified'].get(p, [])]
            if d:
                obs['probe_changed'].append(p)
    # the same for the output's NON-INDEX coordinate variables (scalar band / spatial_ref / time, 1-D labels, 2-D
    # lat/lon grids).  Baseline established on the unchanged code: xr.DataArray(out, coords=agg.coords, dims=...,
    # attrs=...) COPIES the coordinate variables (np.shares_memory False for every wrapper); only the documented
    # windows (trim / crop slices) share them.
    obs['coord_shares'] = []
    obs['coord_probe_changed'] = []
    if isinstance(res, xr.DataArray) and ent['out'] != 'window':
        for k in list(res.coords):
            if k in res.indexes:
                continue
            try:
                carr = np.asarray(res.coords[k].variable.values)
            except Exception:         # noqa
                continue
            if not isinstance(carr, np.ndarray) or carr.dtype.kind not in 'iuf':
                continue
            for p in rasters:
                for k2 in rasters[p].coords:
                    if k2 in rasters[p].indexes:
                        continue
                    src = np.asarray(rasters[p].coords[k2].variable.values)
                    if src.dtype.kind in 'iuf' and np.shares_memory(carr, src):
                        obs['coord_shares'].append([k, p])
            if carr.flags.writeable:
                saved = carr.copy()
                try:
                    carr[...] = carr + 7
                except Exception:     # noqa
                    continue
                for p in rasters:
                    d = _diff_raster(rasters[p], bases[p], snaps[p], allow_widen=allow_widen)
                    d = [x for x in d if x not in obs['modified'].get(p, []) and x.startswith('coordinate')]
                    if d and p not in obs['probe_changed']:
                        obs['coord_probe_changed'].append([k, p, d[0]])
                carr[...] = saved         # restore
    return obs


def _observe_sequence(case):
    """history quantifier: 2..4 calls on the SAME raster objects; inputs compared with the first snapshot after each"""
    import importlib
    import warnings
    import io
    import contextlib
    warnings.filterwarnings('ignore')
    reg = _registry()
    rng = random.Random(case['dataseed'])
    agg, base = _mk_raster(rng, case['dtype'], case['layout'], case['backend'], 'data', name='agg',
                           attrs_kind=case.get('attrs', 'res'), dims_kind=case.get('dims', 'yx'))
    snap = _snap_raster(agg, base)
    obs = dict(case=case, steps=[])
    import xarray as xr
    prev_out = None
    for step in case['sequence']:
        fn, variant = step[0], step[1]
        derive = step[2] if len(step) > 2 else None
        ent = reg[fn]
        extra = ent['extra'](rng, variant)
        f = getattr(importlib.import_module('xrspatial.' + ent['mod']), ent['fn'])
        # theme 4: the call is made on a raster DERIVED from the (already processed) one, or from the previous output
        target, tbase = agg, base
        yd, xd = agg.dims[-2], agg.dims[-1]
        try:
            if derive == 'slice':
                target = agg[1:, 1:]
            elif derive == 'assign_coords':
                target = agg.assign_coords({xd: agg[xd] * 3.0})
            elif derive == 'copy':
                target = agg.copy(deep=False)
            elif derive == 'astype':
                target = agg.astype('float32')
            elif derive == 'isel_rev':
                target = agg.isel({yd: slice(None, None, -1)})
            elif derive == 'prev_out' and isinstance(prev_out, xr.DataArray) and prev_out.ndim == 2:
                target = prev_out
        except Exception:             # noqa
            target = agg
        dsnap = _snap_raster(target, tbase) if target is not agg else None
        err = None
        out = None
        try:
            with contextlib.redirect_stdout(io.StringIO()), contextlib.redirect_stderr(io.StringIO()):
                out = f(**{ent['rasters'][0][0]: target}, **extra)
        except Exception as e:        # noqa
            err = type(e).__name__
        d = _diff_raster(agg, base, snap, allow_widen=(fn == 'viewshed.viewshed' and target is agg))
        dd = []
        if dsnap is not None:
            dd = [x for x in _diff_raster(target, tbase, dsnap, allow_widen=(fn == 'viewshed.viewshed'))
                  if not x.startswith(('values (the underlying', 'buffer dtype', 'writeable'))]
        obs['steps'].append(dict(fn=fn, variant=variant, derive=derive, error=err, modified=d, derived_modified=dd))
        if isinstance(out, xr.DataArray):
            prev_out = out
    return obs


def _worker(cases):
    out = []
    for c in cases:
        try:
            if c.get('kind') == 'sequence':
                out.append(_observe_sequence(c))
            else:
                out.append(_observe(c))
        except Exception as e:        # harness failure: reported, never swallowed
            import traceback
            out.append(dict(case=c, harness_error='%s: %s' % (type(e).__name__, traceback.format_exc()[-600:])))
    return out


# ---- case generation -------------------------------------------------------------------------------------------
SEQ_FUNCS = ['slope.slope', 'aspect.aspect', 'curvature.curvature', 'hillshade.hillshade', 'classify.quantile',
             'classify.binary', 'classify.reclassify', 'focal.mean', 'focal.apply', 'focal.hotspots',
             'convolution.convolution_2d', 'proximity.proximity', 'proximity.direction', 'perlin.perlin',
             'terrain.generate_terrain', 'zonal.regions', 'zonal.trim']


HARD_CASES = [
    ('focal.mean', 'numpy', 'float64', 'C', 0, 'res'), ('focal.mean', 'numpy', 'float64', 'F', 0, 'nores'),
    ('focal.mean', 'dask', 'float64', 'C', 0, 'res'),
    ('zonal.crosstab#3d', 'numpy', 'float64', 'C', 0, 'res'), ('zonal.crosstab#3d', 'numpy', 'int32', 'C', 1, 'nores'),
    ('slope.slope', 'numpy', 'float32', 'C', 0, 'nores'), ('curvature.curvature', 'dask', 'float64', 'C', 0, 'empty'),
    ('pathfinding.a_star_search', 'numpy', 'float64', 'C', 0, 'nores'),
    ('proximity.proximity', 'dask', 'int32', 'C', 1, 'nores'),
    ('convolution.calc_cellsize', 'numpy', 'float64', 'C', 0, 'empty'),
    # viewshed may widen the dtype "without changing a value": integer elevations above 2**24
    ('viewshed.viewshed', 'numpy', 'int32', 'C', 2, 'res'), ('viewshed.viewshed', 'numpy', 'int64', 'F', 3, 'nores'),
    ('viewshed.viewshed', 'numpy', 'uint32', 'view', 2, 'res'),
    # a_star_search starting on a non crossable cell without snapping: the all-NaN result keeps the identity
    ('pathfinding.a_star_search', 'numpy', 'float64', 'C', 2, 'res'), ('pathfinding.a_star_search', 'numpy', 'int16', 'view', 2, 'nores'),
]


def gen_cases(ctx, only=None, full=False):
    rng = ctx.rng
    reg = _registry()
    names = sorted(reg) if only is None else [n for n in sorted(reg) if n.split('#')[0] in only or n in only]
    cases = []
    for fi, fn in enumerate(names):
        ent = reg[fn]
        combos = []
        if full:
            for be in ent['backends']:
                for dt in DTYPES:
                    for lo in LAYOUTS:
                        combos.append((be, dt, lo))
        else:
            # latin-square style sample: 5 cells per function, all layouts, >= 3 dtypes incl. float32/float64, every backend
            off = rng.randrange(1000)
            dts = [DTYPES[(off + 3 * i + fi) % len(DTYPES)] for i in range(3)] + ['float64', 'float32']
            rng.shuffle(dts)
            los = LAYOUTS + [LAYOUTS[(off + fi) % 4]]
            for i in range(5):
                be = ent['backends'][(i + off) % len(ent['backends'])]
                if not ent.get('dask_ok', True):
                    be = 'dask' if i == 0 else 'numpy'
                combos.append((be, dts[i], los[i]))
        aoff = rng.randrange(3)
        for i, (be, dt, lo) in enumerate(combos):
            cases.append(dict(kind='call', fn=fn, backend=be, dtype=dt, layout=lo,
                              variant=(i + rng.randrange(ent['variants'])) % ent['variants'],
                              attrs=ATTRS_KINDS[(i + aoff + fi) % 3],
                              named=bool((i + aoff) % 2), mix=bool((i + aoff + fi) % 3 == 1),
                              dims='latlon' if (i + 2 * aoff + fi) % 4 == 3 else 'yx',
                              dataseed=rng.randrange(1 << 30)))
    # the property's named hard cases, in every run: a cast that is a no-op for the input's dtype (float64 through
    # focal.mean with passes=0), 3-D crosstab values with the layer dimension first on a C-contiguous buffer,
    # rasters without a res attribute through the functions that derive the cell size
    for (fn, be, dt, lo, var, at) in HARD_CASES:
        if fn in names:
            cases.append(dict(kind='call', fn=fn, backend=be, dtype=dt, layout=lo, variant=var, attrs=at,
                              dataseed=rng.randrange(1 << 30)))
    # multi-raster functions on Dask with per-argument DIFFERENT chunkings: each argument position in turn differs
    # from the others (the wrappers re-chunk the caller's rasters; their VALUES must not change — the inputs are
    # computed again after the call).  Quick: every position of two 3-raster and one 2-raster function, plus a rotating
    # position for the others; thorough: every position of every multi-raster function.
    multi_fns = [n for n in names if len(reg[n]['rasters']) >= 2 and reg[n].get('dask_ok', True) and not reg[n].get('dataset')]
    always = ('multispectral.evi', 'multispectral.true_color', 'multispectral.ndvi')
    for mi, fn in enumerate(multi_fns):
        nr = len(reg[fn]['rasters'])
        poss = range(nr) if (full or fn in always) else [(mi + rng.randrange(nr)) % nr]
        for pos in poss:
            cases.append(dict(kind='call', fn=fn, backend='dask', dtype=DTYPES[(mi + pos) % len(DTYPES)],
                              layout=LAYOUTS[(mi + pos) % 4], variant=0, attrs='res', chunkpos=pos,
                              dataseed=rng.randrange(1 << 30)))
    nseq = (60 if full else 6) if only is None else 0
    for i in range(nseq):
        n = rng.randint(2, 4)
        seq = []
        for _ in range(n):
            fn = rng.choice(SEQ_FUNCS)
            seq.append((fn, rng.randrange(reg[fn]['variants'])))
        cases.append(dict(kind='sequence', fn='sequence', backend=rng.choice(BACKENDS), dtype=rng.choice(DTYPES),
                          layout=rng.choice(LAYOUTS), attrs=rng.choice(ATTRS_KINDS), sequence=seq,
                          dims=rng.choice(['yx', 'yx', 'latlon']),
                          dataseed=rng.randrange(1 << 30)))
    cases += gen_theme_cases(rng, reg, names, full, only)
    return cases


DERIVES = ['slice', 'assign_coords', 'copy', 'astype', 'isel_rev', 'prev_out']


def gen_theme_cases(rng, reg, names, full, only):
    """appended streams (theme audit): extra memory layouts per argument position, named Dask chunkings, other coordinate
    systems, degenerate shapes / fills, list parameters as arrays, call sequences over derived rasters"""
    out = []
    off = rng.randrange(1000)

    def case(fn, be, dt, lo='C', **kw):
        ent = reg[fn]
        c = dict(kind='call', fn=fn, backend=be, dtype=dt, layout=lo, variant=rng.randrange(ent['variants']),
                 attrs='res', dataseed=rng.randrange(1 << 30))
        c.update(kw)
        return c
    for fi, fn in enumerate(names):
        ent = reg[fn]
        nr = len(ent['rasters'])
        try:
            ex0 = ent['extra'](random.Random(0), 0)
            n_arr = len([k for k, v in ex0.items() if hasattr(v, 'ndim') and getattr(v, 'ndim', 0) == 2])
        except Exception:             # noqa
            n_arr = 0
        npos = max(1, nr + n_arr)
        dask_ok = ent.get('dask_ok', True)
        if full:
            for be in (BACKENDS if dask_ok else ['numpy']):
                for li, lx in enumerate(EXTRA_LAYOUTS):
                    for pos in list(range(npos)) + [None]:
                        out.append(case(fn, be, DTYPES[(fi + li + (pos or 0)) % len(DTYPES)], layoutx=lx, layoutpos=pos,
                                        arrparams=bool((li + (pos or 0)) % 2)))
            if dask_ok:
                for ci, ck in enumerate(CHUNK_KINDS):
                    for pos in (range(nr) if ck == 'samemax' and nr > 1 else [0]):
                        out.append(case(fn, 'dask', DTYPES[(fi + ci) % len(DTYPES)], LAYOUTS[(fi + ci) % 4], chunkkind=ck, chunkpos=pos))
            for ci, ckd in enumerate(COORD_KINDS[1:]):
                for be in (BACKENDS if dask_ok else ['numpy']):
                    out.append(case(fn, be, DTYPES[(fi + ci) % len(DTYPES)], coords=ckd, attrs='nores'))
            for si, (sn, shp) in enumerate(sorted(SHAPES.items())):
                out.append(case(fn, 'numpy', ['float64', 'int32', 'float32', 'uint8'][si], shape=list(shp)))
                if dask_ok:
                    out.append(case(fn, 'dask', 'float64', shape=list(shp), chunkkind='onewide'))
            for fill in ('allnan', 'allequal'):
                out.append(case(fn, 'numpy', 'float64', fill=fill))
                out.append(case(fn, 'numpy', 'int16', fill=fill, shape=[2, 2]))
        else:
            # quick: one combined case per function, plus a named chunking / a degenerate shape for a rotating quarter each
            be = 'dask' if (dask_ok and (fi + off) % 2) else 'numpy'
            ck = COORD_KINDS[(fi + off) % 3]
            out.append(case(fn, be, ['float64', 'float32', 'int32', 'uint16'][(fi + off) % 4],
                            layoutx=EXTRA_LAYOUTS[(fi + off) % 3],
                            layoutpos=(list(range(npos)) + [None])[((fi + off) // 3) % (npos + 1)],
                            coords=ck, attrs='nores' if ck != 'desc2' else ATTRS_KINDS[(fi + off) % 3],
                            arrparams=True, named=bool(fi % 2)))
            if dask_ok and (fi + off) % 4 == 0:
                out.append(case(fn, 'dask', ['float64', 'int16'][(fi // 4) % 2], chunkkind=CHUNK_KINDS[((fi + off) // 4) % 5],
                                chunkpos=((fi + off) // 4) % max(1, nr)))
            if (fi + off) % 4 == 2:
                sn = sorted(SHAPES)[((fi + off) // 4) % 4]
                out.append(case(fn, 'numpy', ['float64', 'int32'][(fi // 4) % 2], shape=list(SHAPES[sn]),
                                fill=[None, 'allnan', 'allequal'][((fi + off) // 4) % 3]))
    # call sequences over derived rasters (slices, re-coordinated, shallow copies, casts, previous outputs)
    if only is None:
        for i in range(40 if full else 4):
            seq = []
            for _ in range(rng.randint(2, 4)):
                fn = rng.choice(SEQ_FUNCS)
                seq.append((fn, rng.randrange(reg[fn]['variants']), rng.choice(DERIVES + [None])))
            out.append(dict(kind='sequence', fn='sequence', backend=rng.choice(BACKENDS), dtype=rng.choice(DTYPES),
                            layout=rng.choice(LAYOUTS), attrs=rng.choice(ATTRS_KINDS), sequence=seq, dims='yx',
                            dataseed=rng.randrange(1 << 30)))
    return out


def run_pool(cases, workers=6):
    """group by function (JIT reuse inside a worker), run in a spawn pool"""
    import concurrent.futures as cf
    import multiprocessing as mp
    groups = {}
    for c in cases:
        groups.setdefault(c['fn'], []).append(c)
    chunks = []
    for fn, cs in groups.items():
        step = 24
        for i in range(0, len(cs), step):
            chunks.append(cs[i:i + step])
    chunks.sort(key=lambda ch: -len(ch))
    out = []
    if len(cases) <= 3:
        return _worker(cases)
    with cf.ProcessPoolExecutor(max_workers=min(workers, max(1, len(chunks))), mp_context=mp.get_context('spawn')) as ex:
        for res in ex.map(_worker, chunks):
            out.extend(res)
    return out


# ---- evaluation: oracle (property text) and correspondence (model verdict) ------------------------------------------
def model_predictions(ctx, info):
    """per (function, param): (may_write, may_alias) from the python analysis, cross-checked with the extracted checker"""
    pred = {}
    lines = []
    keys = []
    tok = {'fresh': 'F', 'copy': 'C', 'view': 'V', 'write': 'W', 'touch': 'T', 'ret': 'R'}
    for n, v in info.items():
        if n not in RASTER_FUNCS:
            continue
        enc = []
        for ins in v['instrs']:
            if ins[0] in ('write', 'touch'):
                enc.append('%s %d %d %d' % (tok[ins[0]], ins[1], KIND_CODE[ins[2]], ins[3]))
            else:
                enc.append(' '.join([tok[ins[0]]] + [str(x) for x in ins[1:]]))
        prog = '%d %s' % (len(v['instrs']), ' '.join(enc))
        for p in v['fi'].all_param_names():
            d = v['per'][p]
            pred[(n, p)] = (any(k < 10 for _s, k in d['hits']), d['ret'], sorted(d['hits']))
            lines.append('an %s 2 %d %d' % (prog, v['roots'][p][0], v['roots'][p][1]))
            keys.append((n, p))
    if ctx.model is not None:
        outs = ctx.model.run(lines)
        for (n, p), o in zip(keys, outs):
            ctx.traces += 1
            t = o.split()
            ok = len(t) >= 3 and t[0] == '1'
            if ok:
                hits = sorted((int(t[3 + 2 * i]), int(t[4 + 2 * i])) for i in range(int(t[2])))
                ok = (hits == sorted(set(pred[(n, p)][2]))) and ((t[1] == '1') == pred[(n, p)][1])
            if not ok:
                ctx.violation('correspondence', 'extracted checker and translator disagree on %s(%s): model %s vs python %r' % (
                    n, p, o[:80], pred[(n, p)]), dict(fn=n, param=p, model=o[:200]))
    return pred


def evaluate(ctx, obs, pred):
    c = obs['case']
    if 'harness_error' in obs:
        ctx.violation('correspondence', 'harness error on %s: %s' % (c.get('fn'), obs['harness_error'][-300:]), c)
        return
    if c.get('kind') == 'sequence':
        ctx.count('sequence/len=%d/%s' % (len(c['sequence']), c['backend']))
        for i, st in enumerate(obs['steps']):
            if st['modified']:
                key = 'perlin-numpy-writes-template' if (st['fn'] == 'perlin.perlin' and c['backend'] == 'numpy') else None
                ctx.violation('oracle', 'call sequence %s: after call #%d (%s) the shared input raster changed: %s' % (
                    [s[0] for s in c['sequence']], i + 1, st['fn'], '; '.join(st['modified'])), c, key=key)
                break
            if st.get('derived_modified') and st['fn'] != 'viewshed.viewshed':
                ctx.violation('oracle', 'call sequence %s: call #%d (%s) modified the raster it was given (derived by %s from the '
                                        'shared raster): %s' % ([s[0] for s in c['sequence']], i + 1, st['fn'], st.get('derive'),
                                                                '; '.join(st['derived_modified'])), c)
                break
        return
    fn = c['fn'].split('#')[0]          # registry keys may carry a '#variant' suffix (zonal.crosstab#3d)
    spec = RASTER_FUNCS.get(fn, {})
    allowed_w = set(p for (p, k) in spec.get('writes', ()) if k < 10)
    allowed_alias = set(spec.get('alias', ()))
    ctx.count('%s/%s/%s' % (c['fn'].split('.')[-1], c['backend'], 'error' if obs['error'] else 'ok'))
    ctx.count('attrs/%s' % c.get('attrs', 'res'))
    ctx.count('dims/%s' % c.get('dims', 'yx'))
    for k_, lab in (('layoutx', 'extra layout'), ('chunkkind', 'chunking'), ('coords', 'coordinates'), ('fill', 'fill')):
        if c.get(k_):
            ctx.count('%s/%s' % (lab, c[k_]))
    if c.get('shape'):
        ctx.count('shape/%dx%d' % tuple(c['shape']))
    if c.get('layoutx'):
        ctx.count('extra layout at argument/%s' % ('all' if c.get('layoutpos') is None else '#%d' % c['layoutpos']))
    if c.get('arrparams'):
        ctx.count('list parameters/as ndarray')
    if c.get('chunkpos') is not None:
        ctx.count('differently chunked argument/#%d' % c['chunkpos'])
    ctx.count('name=/%s' % ('given' if c.get('named') else 'default'))
    ctx.count('multi-raster dtypes/%s' % ('mixed' if c.get('mix') else 'same'))
    ctx.count('dtype/%s' % c['dtype'])
    ctx.count('layout/%s' % c['layout'])
    perlin = (fn == 'perlin.perlin' and c['backend'] == 'numpy')
    for p, diffs in obs['modified'].items():
        if p in allowed_w:
            ctx.extra.setdefault('exceptions_exercised', {})['%s writes %s' % (fn, p)] = True
            continue
        ctx.violation('oracle', '%s(%s, dtype=%s, layout=%s) modified its argument `%s`: %s' % (
            fn, c['backend'], c['dtype'], c['layout'], p, '; '.join(diffs)), dict(c, param=p, diffs=diffs),
            key='perlin-numpy-writes-template' if (perlin and p == 'agg') else None)
        if (fn, p) in pred and not pred[(fn, p)][0] and any(d.startswith('values') or d.startswith('attrs') or d.startswith('coordinate')
                                                            or d.startswith('name') for d in diffs):
            ctx.violation('correspondence', '%s: the model predicts `%s` is never written, the run modified it (%s)' % (
                fn, p, '; '.join(diffs)), dict(c, param=p), key='perlin-numpy-writes-template' if perlin else None)
    for k in obs['extra_modified']:
        ctx.violation('oracle', '%s(%s, %s, %s) modified its non-raster argument `%s` in place' % (
            fn, c['backend'], c['dtype'], c['layout'], k), dict(c, param=k))
    for p in obs['shares']:
        if p in allowed_alias:
            ctx.extra.setdefault('exceptions_exercised', {})['%s returns a view of %s' % (fn, p)] = True
            continue
        ctx.violation('oracle', '%s(%s, dtype=%s, layout=%s): output shares memory with argument `%s`' % (
            fn, c['backend'], c['dtype'], c['layout'], p), dict(c, param=p),
            key='perlin-numpy-writes-template' if (perlin and p == 'agg') else None)
        if (fn, p) in pred and not pred[(fn, p)][1]:
            ctx.violation('correspondence', '%s: the model predicts the output never aliases `%s`, np.shares_memory says it does' % (
                fn, p), dict(c, param=p), key='perlin-numpy-writes-template' if perlin else None)
    for p in obs['probe_changed']:
        ctx.violation('oracle', '%s(%s, dtype=%s, layout=%s): writing to the output changed argument `%s`' % (
            fn, c['backend'], c['dtype'], c['layout'], p), dict(c, param=p),
            key='perlin-numpy-writes-template' if (perlin and p == 'agg') else None)
    for (k, p) in obs.get('coord_shares', []):
        ctx.violation('oracle', '%s(%s, dtype=%s, layout=%s): the output\'s coordinate `%s` shares memory with a coordinate of argument `%s`' % (
            fn, c['backend'], c['dtype'], c['layout'], k, p), dict(c, param=p, coord=k))
    for (k, p, dd) in obs.get('coord_probe_changed', []):
        ctx.violation('oracle', '%s(%s, dtype=%s, layout=%s): writing to the output\'s coordinate `%s` changed argument `%s` (%s)' % (
            fn, c['backend'], c['dtype'], c['layout'], k, p, dd), dict(c, param=p, coord=k))
    if obs['identity']:
        ctx.violation('oracle', '%s(%s, dtype=%s, layout=%s): output does not keep the input\'s identity: %s' % (
            fn, c['backend'], c['dtype'], c['layout'], '; '.join(obs['identity'])), dict(c, identity=obs['identity']))
    if fn in RASTER_FUNCS:
        ctx.traces += 1


def static_part(ctx, repo):
    """regenerate the IR, evaluate the obligations in python for precise diagnostics (Coq is the authority)"""
    try:
        tr, info, _ = build(repo)
    except Exception as e:
        ctx.violation('proof', 'translator failed (fail closed): %s: %s' % (type(e).__name__, e), dict(error=str(e)))
        return None, None, []
    problems = static_verdicts(tr, info)
    for p in problems:
        perlin = p.get('func') == 'perlin.perlin' and p.get('param') == 'agg'
        ctx.violation('proof', 'static obligation: ' + p['what'], {k: v for k, v in p.items() if k != 'fi'},
                      key='perlin-numpy-writes-template' if perlin else None)
    ctx.extra['static'] = dict(
        public_functions=len(info), raster_functions=len([n for n in info if n in RASTER_FUNCS]),
        ir_instructions=sum(v['n_instr'] for v in info.values()), ir_variables=len(tr.var_ids),
        write_sites=len(tr.sites), unknown_library_calls=sorted(tr.unknown), user_callables=sorted(tr.user_calls),
        benign_rechunk_sites=sorted(set('%s:%d' % (tr.sites[s]['file'], tr.sites[s]['line'])
                                        for v in info.values() for (s, k) in v['hits'] if k == 10)),
        non_raster_functions=NON_RASTER_FUNCS, non_raster_params={'%s.%s' % k: v for k, v in NON_RASTER_PARAMS.items()})
    return tr, info, problems


def run(ctx):
    from harness import common
    tr, info, problems = static_part(ctx, common.REPO)
    pred = model_predictions(ctx, info) if info else {}
    only = None
    cases = gen_cases(ctx, only=only, full=not ctx.quick())
    for c in cases:
        ctx.case(c)
    for obs in run_pool(cases):
        evaluate(ctx, obs, pred)
        if obs.get('error') is None and 'harness_error' not in obs:
            pass
    ctx.exhaustive = False


def search(ctx):
    """an obligation or the correspondence broke without a failing input: full cross product on the implicated functions"""
    from harness import common
    implicated = set()
    for v in ctx.violations:
        r = v.get('replay') or {}
        f = r.get('func') or r.get('fn')
        if f in RASTER_FUNCS:
            implicated.add(f)
    try:
        tr, info, _ = build(common.REPO)
        pred = {}
        for n, v in info.items():
            for p in v['fi'].all_param_names():
                d = v['per'][p]
                pred[(n, p)] = (any(k < 10 for _s, k in d['hits']), d['ret'], sorted(d['hits']))
    except Exception:
        pred = {}
    old = ctx.tier
    cases = gen_cases(ctx, only=(implicated or None), full=True if implicated else False)
    ctx.tier = old
    for c in cases:
        ctx.case(c)
    for obs in run_pool(cases):
        evaluate(ctx, obs, pred)


def replay_case(ctx, case):
    case = {k: v for k, v in case.items() if k in ('kind', 'fn', 'backend', 'dtype', 'layout', 'variant', 'dataseed', 'sequence', 'attrs', 'named', 'mix', 'dims', 'chunkpos', 'layoutx', 'layoutpos',
                                                   'chunkkind', 'shape', 'fill', 'coords', 'arrparams')}
    if 'sequence' in case and case.get('kind') == 'sequence':
        case['sequence'] = [tuple(x) for x in case['sequence']]
    ctx.case(case)
    for obs in _worker([case]):
        evaluate(ctx, obs, {})
