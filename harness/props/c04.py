"""C04 — crosstab is a true contingency table under any zone/category selection.
Correspondence: xrspatial.zonal.crosstab (NumPy backend; Dask backend with one chunking on a share of the cases)
vs the extracted Coq model coq/C04/Model.v; oracle: collections.Counter over the valid cells (property text)."""
import itertools
import math
import os
import re
from collections import Counter
from fractions import Fraction

import numpy as np
import xarray as xr

from harness import xvio
from harness.props import c02
from harness.props.c02 import NAN, INF, isfin, np_array, unjson

ID = 'C04'
RULE = ('random rasters up to 6x6: zone ids from a small alphabet (negative, fractional, interleaved, NaN/+-inf zone cells), '
        '2-D values from a small category alphabet (0..4, NaN/+-inf cells) or 3-D values with 1-4 labelled layers; nodata in '
        '{None, NaN, a category, a zone id}; zone_ids and cat_ids None or sub-lists in ANY order with absent ids (zone_ids also '
        'with duplicates); agg count/percentage (2-D) and the seven aggregates (3-D; category dimension first, in the MIDDLE or last, '
        'addressed by `layer` as positive, negative or default index, on square and non-square rasters); zones and values '
        'INDEPENDENTLY in memory layout C / Fortran copy / reversed-axes view / strided view (Dask: also a lazily transposed '
        'array); dimension names equal / different / swapped between zones and values (the call is positional); every pair of '
        'zones x values dtype over float64/float32/int8..64/uint8..64; zone_ids / cat_ids also empty, fractional on integer '
        'rasters, negative; a stream with zone ids and categories above 2**24 / 2**53 (exact ints, adjacent); appended theme streams (reversed / non-writeable arrays; zone_ids / cat_ids as tuple or numpy arrays of other dtypes, '
        'nodata 0.0 / numpy scalars; float16 values; non-integer categories 0.1, 2**-120, 1e100, 2**24+1 with nodata one ulp '
        'around a cell; string layer labels; 1x1 / 2x2 / all-NaN / all-equal / single-valid-cell rasters; call sequences with '
        'coords+attrs, inputs unchanged, derived rasters); a Dask stream with zones and '
        'values chunked INDEPENDENTLY by irregular chunk tuples (same per-axis maximum but different splits such as (4,2,2) vs '
        '(4,4), same number of blocks with other boundaries, one side unchunked; 2-D and 3-D); NumPy backend on '
        'every case and the Dask backend (one chunking) on about one in seven. The thorough tier enumerates every ordered sub-list '
        'of zone ids x every ordered sub-list of categories for rasters with <= 3 zones and <= 3 categories. Named hard cases: '
        'a skipped category that is present below a selected one, zone_ids in descending order. Non-trivial: at least one '
        'selected zone has a valid cell.')
TRUSTED = [
    'np.argsort / np.sort / np.unique / masking / slicing are modelled (stable insertion sort, ascending distinct list, filter), '
    'not verified; the per-category dict of columns is modelled as an association list looked up by category',
    'zone ids are embedded into Z by a common power-of-two scale; category values are integers; percentages are compared with '
    'the model\'s exact rational count*100/total at relative 1e-9 (the implementation divides by a float32 total: exact for '
    'totals below 2^24); 3-D mean/var at 1e-9 (1e-4 for float32 values), std as sqrt(var)',
    'coq/C04/GeneratedC02*.v are verbatim copies of coq/C02/{Model,Sorting,Proofs,Reducers}.v regenerated on every run',
    'the Dask graph (delayed per-block dicts summed key-wise) is exercised, not modelled, here (it is modelled in C03)',
]
ASSUMPTIONS = [
    'the source carries fixes/C04-cat-start-offset.diff, fixes/C04-zone-row-labels.diff and fixes/C02-neg-inf-zone.diff (without '
    'them: violations with keys cat-ids-skip-present-category / zone-ids-request-order-labels / neg-inf-zone-shifts-slices)',
    'zone_ids contains no NaN in the theorems (NaN ids are exercised by the correspondence only); cat_ids has no duplicates',
    'float16 zones and float16 2-D categories are outside the domain (numba cannot compile _strides for float16: '
    'NotImplementedError); float16 3-D values are covered',
    '3-D min/max over a zone/layer with no valid cell raise ValueError in NumPy (zero-size reduction): outside the modelled '
    'domain, such cases are generated, expected to raise, and not compared',
]
PARTIAL = [
    'the float32/float64 rounding of count/total*100 is not modelled: the percentage row-sum theorem is exact (rationals); the '
    'oracle checks the implementation row sums to 100 within 1e-9',
    '3-D: C04_crosstab3d_spec is stated for every permutation-invariant aggregate with the NumPy behaviour on an empty selection '
    'as a parameter; that the seven defaults are permutation invariant is C02_default_stats_perm_invariant (copied development)',
]
LEVEL_TEXT = ('Proved for all rasters of any size, any nodata, any NaN-free zone_ids and any cat_ids (Coq, closed under the global '
              'context): every crosstab entry is the number of cells of that zone whose valid value equals the category, rows are '
              'the requested existing zones in ascending order each labelled with its own zone (C04_crosstab_count_spec); on the '
              'unrestricted categories every non-empty percentage row sums to exactly 100 and an empty row is NaN '
              '(C04_percentage_row_sum); a restricted call equals the selected rows/columns of the unrestricted table '
              '(C04_restrict); 3-D entries are the aggregate over exactly the valid cells of that layer within that zone for any '
              'permutation-invariant aggregate (C04_crosstab3d_spec). The two defects of the unpatched code are kept as vm_compute '
              'witnesses. The Dask backend is correspondence/oracle only here.')
LEVEL_NOTE = ('Trusted: Coq kernel, extraction, OCaml driver, harness; NumPy/pandas primitives are modelled not verified; the model '
              'is tied to xrspatial.zonal.crosstab on every run by the correspondence check.')

K_CAT = 'cat-ids-skip-present-category'
K_ZONE = 'zone-ids-request-order-labels'
K_NINF = 'neg-inf-zone-shifts-slices'      # the C02 defect of the shared _sort_and_stride
AGG3 = ['count', 'sum', 'min', 'max', 'mean', 'std', 'var']


def copies(src_pid, names, dst_pid):
    out = {}
    src_dir = os.path.join(os.path.dirname(os.path.dirname(os.path.dirname(os.path.abspath(__file__)))), 'coq', src_pid)
    for n in names:
        s = open(os.path.join(src_dir, n + '.v')).read()
        s = re.sub(r'\b(C02|C04)\.(GeneratedC02)?(Model|Sorting|Proofs|Reducers)\b',
                   lambda m: '%s.Generated%s%s' % (dst_pid, 'C02' if (m.group(1) == 'C02' or m.group(2)) else m.group(1), m.group(3)), s)
        out['Generated%s%s.v' % (src_pid, n)] = '(* GENERATED verbatim copy of coq/%s/%s.v (module paths renamed) - do not edit *)\n' % (
            src_pid, n) + s
    return out


def facts(repo):
    return copies('C02', ['Model', 'Sorting', 'Proofs', 'Reducers'], 'C04')


# --------------------------------------------------------------------------- generation
def sub_list(rng, present, absent, allow_dup):
    pool = list(present) + list(absent)
    k = rng.randint(1, max(1, min(5, len(pool))))
    if allow_dup and rng.random() < 0.15:
        ids = [rng.choice(pool) for _ in range(k)]
    else:
        ids = rng.sample(pool, min(k, len(pool)))
    rng.shuffle(ids)
    return ids


def maybe_int(rng, ids):
    if all(isfin(float(z)) and float(z) == int(z) for z in ids) and rng.random() < 0.5:
        return [int(z) for z in ids]
    return ids


def gen_case(rng, quick, i):
    rows, cols = c02.shape_for(rng, True)
    three_d = rng.random() < 0.3
    if three_d and rng.random() < 0.45:
        rows = cols = rng.randint(2, 5)          # square rasters: a swap of the spatial axes does not change the shape
    zd, vd = c02.pick_dtypes(i)
    zones, alphabet = c02.gen_zones(rng, rows, cols, zd)
    present = c02.finite_zone_ids(zones)
    u = rng.random()
    zone_ids = None if u < 0.35 else maybe_int(rng, sub_list(rng, present, [11.0, -7.0, 0.75], True))
    if zone_ids is not None and rng.random() < 0.05:
        zone_ids = zone_ids + [NAN]
    if zone_ids is not None and len(present) >= 2 and rng.random() < 0.15:
        zone_ids = maybe_int(rng, sorted(present, reverse=True))         # named hard case: descending order
    if zone_ids is not None and rng.random() < 0.03:
        zone_ids = []
    case = dict(fn='crosstab', zones=zones, zdtype=zd, vdtype=vd, zone_ids=zone_ids)
    case['dimnames'] = rng.choice([None, None, [['lat', 'lon'], ['lat', 'lon'], 'band'], [['y', 'x'], ['row', 'col'], 'layer'],
                                   [['x', 'y'], ['y', 'x'], 'cat'], [['a', 'b'], ['b', 'a'], 'y']])
    if not three_d:
        values = c02.gen_values(rng, rows, cols, vd, small=True)
        cats = sorted({v for row in values for v in row if isfin(v)})
        u = rng.random()
        nodata = None if u < 0.4 else (rng.choice(cats) if (u < 0.7 and cats) else (rng.choice(present) if (u < 0.8 and present) else (NAN if u < 0.9 else 0)))
        u = rng.random()
        if u < 0.35:
            cat_ids = None
        else:
            cat_ids = maybe_int(rng, sub_list(rng, cats, [7.0, 99.0, 2.5, -1.0], False))
            if rng.random() < 0.05:
                cat_ids = cat_ids + [NAN]
            if rng.random() < 0.03:
                cat_ids = []
        case.update(values=values, nodata=nodata, cat_ids=cat_ids, agg='percentage' if rng.random() < 0.4 else 'count', ndim=2)
    else:
        nl = rng.randint(1, 4)
        labels = rng.sample([0.0, 1.0, 2.0, 5.0, 7.0, 10.0, 30.0], nl)
        layers = [c02.gen_values(rng, rows, cols, vd) for _ in range(nl)]
        allv = [v for L in layers for row in L for v in row if isfin(v)]
        u = rng.random()
        nodata = None if u < 0.4 else (rng.choice(allv) if (u < 0.8 and allv) else (NAN if u < 0.9 else 0))
        cat_ids = None if rng.random() < 0.4 else maybe_int(rng, sub_list(rng, labels, [99.0], False))
        pos = rng.choice([0, 1, 1, 2])            # category dimension first / in the MIDDLE / last
        u = rng.random()
        layer = (pos - 3) if u < 0.4 else (None if (pos == 0 and u < 0.7) else pos)     # negative, default, positive index
        case.update(layers=layers, labels=labels, nodata=nodata, cat_ids=cat_ids, agg=rng.choice(AGG3), ndim=3,
                    layer_axis=pos, layer=layer)
    case['zlayout'] = c02.pick_layout(rng)
    case['vlayout'] = c02.pick_layout(rng)
    if rng.random() < 0.15:
        case['backend'] = 'dask'
        case['chunks'] = [rng.randint(1, rows), rng.randint(1, cols)]
        if case['ndim'] == 3:
            case['agg'] = 'count'
    else:
        case['backend'] = 'numpy'
    return case


def layout_nd(a, layout):
    """the same logical n-d array in another memory layout (C, Fortran copy, reversed-axes view, strided view)"""
    if layout == 'F':
        return np.asfortranarray(a)
    if layout == 'T':
        return np.ascontiguousarray(a.transpose()).transpose()
    if layout == 'S':
        big = np.full(a.shape[:-1] + (a.shape[-1] * 2 + 1,), 77, dtype=a.dtype)
        big[..., 1::2] = a
        return big[..., 1::2]
    if layout == 'R':                        # reversed view along every axis (negative strides)
        rev = (slice(None, None, -1),) * a.ndim
        return np.ascontiguousarray(a[rev])[rev]
    if layout == 'W':                        # non-writeable buffer
        a = np.ascontiguousarray(a).copy()
        a.flags.writeable = False
        return a
    return np.ascontiguousarray(a)


def dask_of(a, chunks, layout):
    """dask array over `a` in the given layout; 'T' is a LAZILY transposed dask array (blocks become transposed views)"""
    import dask.array as da
    if layout == 'T':
        rev = tuple(reversed(chunks)) if isinstance(chunks, tuple) else chunks
        return da.from_array(np.ascontiguousarray(a.transpose()), chunks=rev).transpose()
    return da.from_array(layout_nd(a, layout), chunks=chunks)


def layer_position(case):
    """position of the category dimension in the values DataArray: 0 (cat, y, x), 1 (y, cat, x), 2 (y, x, cat)"""
    return int(case.get('layer_axis', 0))


def _tt(ch):
    return tuple(tuple(c) if isinstance(c, (list, tuple)) else c for c in ch)


def build_inputs(case):
    if 'chunks' in case:
        case = dict(case, chunks=_tt(case['chunks']))
    if 'vchunks' in case:
        case = dict(case, vchunks=_tt(case['vchunks']))
    zl, vl = case.get('zlayout', 'C'), case.get('vlayout', 'C')
    zdims, vdims, cname = case.get('dimnames') or [['y', 'x'], ['y', 'x'], 'cat']
    zdims, vdims = list(zdims), list(vdims)
    z = np_array(case['zones'], case['zdtype'])
    dask = case['backend'] == 'dask'
    ch = tuple(case['chunks']) if dask else None
    if dask:
        zz = xr.DataArray(dask_of(z, ch, zl), dims=zdims)
    else:
        zz = xr.DataArray(layout_nd(z, zl), dims=zdims)
    if case['ndim'] == 2:
        v = np_array(case['values'], case['vdtype'])
        if dask:
            vch = tuple(case.get('vchunks', case['chunks']))
            return zz, xr.DataArray(dask_of(v, vch, vl), dims=vdims), None
        return zz, xr.DataArray(layout_nd(v, vl), dims=vdims), None
    pos = layer_position(case)
    v = np.moveaxis(np.stack([np_array(L, case['vdtype']) for L in case['layers']], axis=0), 0, pos)
    dims = list(vdims)
    dims.insert(pos, cname)
    layer = case['layer'] if 'layer' in case else (None if pos == 0 else pos)
    coords = {cname: list(case['labels'])}
    if dask:
        if 'vchunks' in case:
            vchunks = list(tuple(case['vchunks']))
            vchunks.insert(pos, 1)
        else:
            vchunks = list(ch)
            vchunks.insert(pos, v.shape[pos])
        return zz, xr.DataArray(dask_of(v, tuple(vchunks), vl), dims=dims, coords=coords), layer
    return zz, xr.DataArray(layout_nd(v, vl), dims=dims, coords=coords), layer


def call_impl(case):
    """the crosstab result as returned (a lazy dask DataFrame on the Dask backend)"""
    from xrspatial.zonal import crosstab
    z, v, layer = build_inputs(case)
    return crosstab(z, v, zone_ids=c02.ids_arg(case['zone_ids'], case.get('zids_as')),
                    cat_ids=c02.ids_arg(case['cat_ids'], case.get('cids_as')), layer=layer, agg=case['agg'],
                    nodata_values=c02.nodata_arg(case['nodata'], case.get('nodata_as')))


def run_impl(case):
    df = call_impl(case)
    if case['backend'] == 'dask':
        df = df.compute()
    return canon_df(df)


def canon_df(df):
    cols = list(df.columns)
    if not cols or cols[0] != 'zone':
        raise AssertionError('columns %r' % cols)
    return dict(cols=[(str(c) if isinstance(c, str) else c02.num(c)) for c in cols[1:]],
                rows=[(c02.num(df['zone'].iloc[i]), [float(df.iloc[i, j]) for j in range(1, len(cols))]) for i in range(len(df))])


# --------------------------------------------------------------------------- oracle (property text)
def _lab(x):
    return x if isinstance(x, str) else c02.exact(x)


def requested_cats(existing, cat_ids):
    if cat_ids is None:
        return list(existing)
    return [_lab(c) for c in cat_ids if any(_lab(c) == e for e in existing)]


def in_cat_class(case, existing):
    """a present category is skipped by the selection"""
    return case['ndim'] == 2 and case['cat_ids'] is not None and \
        set(requested_cats(existing, case['cat_ids'])) != set(existing)


def in_zone_class(case):
    if case['zone_ids'] is None:
        return False
    present = c02.finite_zone_ids(case['zones'])
    req = [c02.exact(z) for z in case['zone_ids'] if any(c02.exact(z) == p for p in present)]
    return any(a >= b for a, b in zip(req, req[1:]))


def expectation(case):
    """(columns, rows) demanded by the property text; entries are Fractions, None = NaN, 'raise' for the NumPy zero-size reduction"""
    zones, nodata = case['zones'], case['nodata']
    nd = None if nodata is None else c02.exact(nodata)
    rows = c02.requested_rows(zones, case['zone_ids'])
    if case['ndim'] == 2:
        values = case['values']
        existing = sorted({v for row in values for v in row if c02.valid_value(v, nd)})
        cols = requested_cats(existing, case['cat_ids'])
        out = []
        for z in rows:
            cnt = Counter(v for rz, rv in zip(zones, values) for zz, v in zip(rz, rv) if zz == z and c02.valid_value(v, nd))
            total = sum(cnt.values())
            if case['agg'] == 'count':
                out.append((z, [Fraction(cnt.get(c, 0)) for c in cols]))
            else:
                out.append((z, [None if total == 0 else Fraction(cnt.get(c, 0) * 100, total) for c in cols]))
        return cols, out, existing
    labels = [_lab(l) for l in case['labels']]
    cols = requested_cats(labels, case['cat_ids'])
    out = []
    for z in rows:
        es = []
        for c in cols:
            L = case['layers'][labels.index(c)]
            xs = c02.zone_valid_values(zones, L, z, nd)
            agg = case['agg']
            if xs:
                es.append(('std', c02.exact_stat('var', xs)) if agg == 'std' else c02.exact_stat(agg, xs))
            elif agg in ('count', 'sum'):
                es.append(Fraction(0))
            elif agg in ('min', 'max'):
                es.append('raise')
            else:
                es.append(None)
        out.append((z, es))
    return cols, out, labels


def entry_ok(got, exp, case):
    if exp is None:
        return math.isnan(got)
    if math.isnan(got) or math.isinf(got):
        return False
    tol = c02.TOL.get(case['vdtype'], 1e-9) if case['ndim'] == 3 else 1e-9
    if isinstance(exp, tuple):      # std
        e = math.sqrt(exp[1])
        return abs(got - e) <= tol * (1 + abs(e))
    if case['agg'] in ('count', 'sum', 'min', 'max'):
        return Fraction(got) == exp
    return abs(got - float(exp)) <= tol * (1 + abs(float(exp)))


def oracle(ctx, case, out):
    cols, rows, existing = expectation(case)
    zkey = K_ZONE if in_zone_class(case) else None
    ckey = K_CAT if in_cat_class(case, existing) else None
    if c02.has_neg_inf_zone(case):
        zkey = ckey = K_NINF
    if out['cols'] != cols:
        ctx.violation('oracle', 'crosstab: columns %r, expected the requested existing categories %r' % (out['cols'], cols),
                      dict(case, got_cols=out['cols'], expected_cols=cols), key=None)
        return False
    got_ids = [r[0] for r in out['rows']]
    exp_ids = [r[0] for r in rows]
    if got_ids != exp_ids:
        ctx.violation('oracle', 'crosstab: rows labelled %r, expected the requested existing zones %r (ascending)' % (got_ids, exp_ids),
                      dict(case, got_rows=got_ids, expected_rows=exp_ids), key=zkey)
        return False
    for (z, ges), (_, ees) in zip(out['rows'], rows):
        for c, g, e in zip(cols, ges, ees):
            if not entry_ok(g, e, case):
                ctx.violation('oracle', 'crosstab(%s): zone %r category %r = %r, expected %s' % (
                    case['agg'], z, c, g, 'NaN' if e is None else (float(e[1]) ** 0.5 if isinstance(e, tuple) else float(e))),
                    dict(case, zone=z, cat=c, got=g), key=ckey or zkey)
                return False
        if case['ndim'] == 2 and case['agg'] == 'percentage' and case['cat_ids'] is None and ges and not math.isnan(ges[0]):
            if abs(sum(ges) - 100.0) > 1e-9:
                ctx.violation('oracle', 'crosstab(percentage): row of zone %r sums to %r' % (z, sum(ges)), dict(case, zone=z), key=None)
                return False
    return True


# --------------------------------------------------------------------------- model
def cat_ids_tok(cat_ids):
    """categories are integers in the model: a fractional requested id can match no cell and is sent as NaN"""
    if cat_ids is None:
        return '-1'
    ids = [c02.exact(c) for c in cat_ids]
    return '%d %s' % (len(ids), ' '.join('nan' if (isinstance(c, float) and isfin(c) and c != int(c)) else xvio.tok(c, 1) for c in ids))


def model_line(case):
    s = c02.zone_scale(case['zones'], [z for z in (case['zone_ids'] or []) if isfin(float(z))])
    zs = [z for row in case['zones'] for z in row]
    cid = cat_ids_tok(case['cat_ids'])
    head = '%s %s %s' % (c02.nodata_tok(case['nodata']), c02.ids_tok(case['zone_ids'], s), cid)
    if case['ndim'] == 2:
        return 'x2 %s %s %s' % ('pct' if case['agg'] == 'percentage' else 'count', head,
                               c02.cells_tok(case['zones'], case['values'], s)), s
    agg = 'var' if case['agg'] == 'std' else case['agg']
    flat = [[v for row in L for v in row] for L in case['layers']]
    cells = ' '.join('%s %s' % (xvio.tok(z, s), ' '.join(xvio.tok(L[k], 1) for L in flat)) for k, z in enumerate(zs))
    return 'x3 %s %s %s %d %s' % (agg, head, xvio.lst([float(l) for l in case['labels']], 1), len(zs), cells), s


def compare_model(ctx, case, out, mo, s):
    if mo.startswith('ERR'):
        ctx.violation('correspondence', 'model returned %s' % mo[:80], case)
        return
    _, _, existing = expectation(case)
    key = (K_ZONE if in_zone_class(case) else None) or (K_CAT if in_cat_class(case, existing) else None)
    if c02.has_neg_inf_zone(case):
        key = K_NINF
    rows = [g.split() for g in mo.split(';')] if mo.strip() else []
    if len(rows) != len(out['rows']):
        ctx.violation('correspondence', 'crosstab: implementation has %d rows, model %d' % (len(out['rows']), len(rows)),
                      dict(case, impl=out, model=mo), key=key)
        return
    off = 2 if case['ndim'] == 2 else 1
    for (z, ges), m in zip(out['rows'], rows):
        if not xvio.same(z, xvio.parse(m[0], s)) or len(m) - off != len(ges):
            ctx.violation('correspondence', 'crosstab: row zone %r (%d entries) vs model %s (%d)' % (z, len(ges), m[0], len(m) - off),
                          dict(case, impl=out, model=mo), key=key)
            return
        for g, t in zip(ges, m[off:]):
            q = c02.parse_num(t)
            name = case['agg'] if case['ndim'] == 3 else ('count' if case['agg'] == 'count' else 'mean')
            if not c02.close_q(name, g, q, case['vdtype'] if case['ndim'] == 3 else 'float64'):
                ctx.violation('correspondence', 'crosstab(%s): zone %r implementation %r vs model %s' % (case['agg'], z, g, t),
                              dict(case, impl=out, model=mo), key=key)
                return


def nontrivial(case):
    cols, rows, _ = expectation(case)
    return any(any(e not in (None, 'raise') and e != 0 for e in es) for _, es in rows)


def exhaustive_cases(rng, n_rasters):
    """every ordered sub-list of zone ids x every ordered sub-list of categories on small rasters"""
    for _ in range(n_rasters):
        rows, cols = rng.randint(1, 3), rng.randint(2, 4)
        zones, _ = c02.gen_zones(rng, rows, cols, 'float64', alphabet=rng.sample([1.0, 2.0, 5.0], rng.randint(1, 3)))
        values = c02.gen_values(rng, rows, cols, 'float64', small=True)
        values = [[min(v, 2.0) if isfin(v) else v for v in row] for row in values]
        zs = c02.finite_zone_ids(zones)
        cs = sorted({v for row in values for v in row if isfin(v)})
        zsel = [None] + [list(p) for k in range(1, len(zs) + 1) for p in itertools.permutations(zs, k)]
        csel = [None] + [list(p) for k in range(1, len(cs) + 1) for p in itertools.permutations(cs, k)]
        for zi in zsel:
            for ci in csel:
                yield dict(fn='crosstab', zones=zones, zdtype='float64', vdtype='float64', zone_ids=zi, values=values,
                           nodata=None, cat_ids=ci, agg='count' if (len(ci or []) + len(zi or [])) % 2 == 0 else 'percentage',
                           ndim=2, backend='numpy', zlayout=c02.LAYOUTS[(len(zi or []) + 2 * len(ci or [])) % 4],
                           vlayout=c02.LAYOUTS[(2 * len(zi or []) + len(ci or []) + 1) % 4])


def one(ctx, case, pending):
    ctx.case(case, nontrivial=nontrivial(case))
    ctx.count('%s/%dD/%s/%s/%s' % (case['backend'], case['ndim'], case['agg'], 'zids' if case['zone_ids'] is not None else 'allz',
                                   'cids' if case['cat_ids'] is not None else 'allc'))
    ctx.count('layout/zones=%s/values=%s' % (case.get('zlayout', 'C'), case.get('vlayout', 'C')))
    if case.get('bigids'):
        ctx.count('hard/ids-and-categories-above-2^24-or-2^53')
    if case.get('chunkmode'):
        ctx.count('dask/irregular-chunk-pairs/%dD/%s' % (case['ndim'], case['chunkmode']))
    if case.get('theme'):
        ctx.count('theme/%s/%dD/%s%s' % (case['backend'], case['ndim'], case['theme'], '/' + case['degenerate'] if case.get('degenerate') else ''))
    if case.get('dimnames'):
        ctx.count('dims/%s' % '-'.join(case['dimnames'][0] + case['dimnames'][1] + [case['dimnames'][2]]))
    if case['ndim'] == 3:
        ctx.count('3d/cat-dim-position=%d/layer=%r/%s' % (layer_position(case), case.get('layer'),
                                                           'square' if len(case['zones']) == len(case['zones'][0]) else 'non-square'))
    cols, rows, existing = expectation(case)
    if in_cat_class(case, existing):
        ctx.count('hard/skipped-present-category')
    if in_zone_class(case):
        ctx.count('hard/zone_ids-not-ascending')
    expect_raise = any(e == 'raise' for _, es in rows for e in es)
    if case['backend'] == 'dask' and not rows:
        ctx.count('domain/dask-no-requested-zone-exists')
        return
    try:
        out = run_impl(case)
    except Exception as e:
        if expect_raise and isinstance(e, ValueError):
            ctx.count('domain/3d-minmax-empty-raises')
            return
        key = K_NINF if c02.has_neg_inf_zone(case) else (K_ZONE if in_zone_class(case) else None)
        ctx.violation('oracle', 'crosstab raised %s: %s' % (type(e).__name__, e), case, key=key)
        return
    if expect_raise:
        ctx.violation('oracle', 'crosstab: min/max over an empty selection did not raise', case)
        return
    oracle(ctx, case, out)
    if case.get('oracle_only'):
        return
    line, s = model_line(case)
    pending.append((line, s, case, out))


def gen_big_case(rng, i):
    """2-D crosstab with zone ids AND categories above 2**24 / 2**53 (adjacent ids), exact Python ints in int64/uint64 rasters"""
    rows, cols = rng.randint(1, 4), rng.randint(2, 5)
    zd = ['int64', 'uint64', 'float64', 'int64'][i % 4]
    vd = ['int64', 'int64', 'uint64', 'float64'][(i // 4) % 4]
    def cand(dt):
        return [b for b in c02.BIG_IDS + [2 ** 24, 3, 0] if (np.iinfo(dt).max >= b if not dt.startswith('float') else b <= 2 ** 53)]
    za = rng.sample(cand(zd), rng.randint(1, 3))
    ca = rng.sample(cand(vd), rng.randint(2, 4))
    conv = lambda x, dt: x if not dt.startswith('float') else float(x)
    zones = [[conv(rng.choice(za), zd) for _ in range(cols)] for _ in range(rows)]
    values = [[conv(rng.choice(ca), vd) for _ in range(cols)] for _ in range(rows)]
    present = c02.finite_zone_ids(zones)
    cats = sorted({v for row in values for v in row})
    zone_ids = None if rng.random() < 0.5 else [int(z) for z in sub_list(rng, present, [p + 1 for p in present[:1] if p + 1 not in present], False)]
    cat_ids = None if rng.random() < 0.5 else [int(c) for c in sub_list(rng, cats, [c + 1 for c in cats[:1] if c + 1 not in cats], False)]
    case = dict(fn='crosstab', zones=zones, zdtype=zd, vdtype=vd, zone_ids=zone_ids, values=values,
                nodata=None if rng.random() < 0.6 else int(rng.choice(cats)), cat_ids=cat_ids,
                agg='percentage' if rng.random() < 0.3 else 'count', ndim=2, backend='numpy', bigids=True,
                zlayout='C', vlayout=c02.pick_layout(rng))
    if rng.random() < 0.2 and (zone_ids is None or any(z in present for z in zone_ids)):
        case['backend'] = 'dask'
        case['chunks'] = [rng.randint(1, rows), rng.randint(1, cols)]
    return case


def gen_chunk_case(rng, i):
    """Dask crosstab with INDEPENDENTLY and irregularly chunked zones and values: chunk tuples that differ but share the
    per-axis maximum, same number of blocks with other boundaries, one side unchunked; 2-D (count / percentage) and 3-D"""
    case = gen_case(rng, True, i)
    rows, cols = rng.randint(3, 8), rng.randint(2, 6)
    zd, vd = case['zdtype'], case['vdtype']
    zones, _ = c02.gen_zones(rng, rows, cols, zd, p_nan=0.04, p_pinf=0.02, p_ninf=0.02)
    if not c02.finite_zone_ids(zones):
        zones[0][0] = 1.0
    zch, vch, label = c02.chunk_pairs_2d(rng, rows, cols)
    case.update(zones=zones, zone_ids=None, backend='dask', chunks=zch, vchunks=vch, chunkmode=label)
    if case['ndim'] == 2:
        case.update(values=c02.gen_values(rng, rows, cols, vd, small=True), cat_ids=None,
                    nodata=None if rng.random() < 0.7 else 0)
    else:
        case.update(layers=[c02.gen_values(rng, rows, cols, vd) for _ in case['labels']], agg='count', cat_ids=None,
                    nodata=None if rng.random() < 0.7 else 0)
    return case


# --------------------------------------------------------------------------- appended "theme" streams (round-5 audit)
def gen_theme_case(rng, i):
    theme = ['layout', 'containers', 'float16', 'oddfloat', 'strlabels', 'degenerate'][i % 6]
    case = gen_case(rng, True, i)
    case['theme'] = theme
    rows, cols = len(case['zones']), len(case['zones'][0])
    vd = case['vdtype']
    if theme == 'layout':
        case['zlayout'], case['vlayout'] = rng.choice(c02.LAYOUTS6), rng.choice(['R', 'W', 'R', 'W', 'F', 'S'])
        if rng.random() < 0.5:
            case['zlayout'], case['vlayout'] = case['vlayout'], case['zlayout']
    elif theme == 'containers':
        present = [z for z in c02.finite_zone_ids(case['zones']) if float(z) == int(z) and abs(z) < 100]
        if present:
            ids = rng.sample(present, rng.randint(1, len(present))) + ([11.0] if rng.random() < 0.4 else [])
            rng.shuffle(ids)
            how = rng.choice(['tuple', 'ndarray:int64', 'ndarray:float32', 'ndarray:int16'])
            case['zone_ids'] = [int(z) for z in ids] if 'int' in how or rng.random() < 0.5 else ids
            case['zids_as'] = how
        if case['ndim'] == 2:
            cats = sorted({v for row in case['values'] for v in row if isfin(v)})
            if cats:
                cids = rng.sample(cats, rng.randint(1, len(cats))) + ([7.0] if rng.random() < 0.4 else [])
                rng.shuffle(cids)
                how = rng.choice(['tuple', 'ndarray:float32', 'ndarray:int32', 'ndarray:float64'])
                case['cat_ids'] = [int(c) for c in cids] if 'int' in how else cids
                case['cids_as'] = how
            vals = cats
        else:
            vals = [v for L in case['layers'] for row in L for v in row if isfin(v)]
        if rng.random() < 0.3:
            case['nodata'] = 0.0
        elif vals:
            case['nodata'] = rng.choice(vals)
            case['nodata_as'] = rng.choice(['float32', 'float64', 'int64'])
        if case['backend'] == 'dask':
            pres = c02.finite_zone_ids(case['zones'])
            if case['zone_ids'] is not None and not any(c02.exact(z) in pres for z in case['zone_ids']):
                case['zone_ids'] = None
                case.pop('zids_as', None)
    elif theme == 'float16':
        # float16 is only reachable for 3-D VALUES: numba cannot compile _strides for float16 zones or 2-D categories
        # (NotImplementedError), so those are outside the domain
        case['vdtype'] = 'float16'
        if case['ndim'] == 2:
            labels = rng.sample([0.0, 1.0, 2.0, 5.0, 7.0], rng.randint(1, 3))
            case.update(ndim=3, labels=labels, layer_axis=rng.choice([0, 1, 2]), cat_ids=None,
                        agg=rng.choice(AGG3) if case['backend'] == 'numpy' else 'count')
            case['layer'] = None if case['layer_axis'] == 0 else case['layer_axis']
            case.pop('values', None)
        case['layers'] = [c02.gen_values(rng, rows, cols, 'float16') for _ in case['labels']]
        case['nodata'] = None if rng.random() < 0.6 else 0
    elif theme == 'oddfloat':
        vd = rng.choice(['float64', 'float32'])
        alph = rng.sample(c02.ODD64 if vd == 'float64' else c02.ODD32, rng.randint(2, 5))
        values = [[rng.choice(alph) if rng.random() > 0.08 else NAN for _ in range(cols)] for _ in range(rows)]
        values = c02.to_floats(np_array(values, vd))
        flat = sorted({v for row in values for v in row if isfin(v)})
        case.update(ndim=2, values=values, vdtype=vd, oracle_only=True, nodata=None, agg=rng.choice(['count', 'percentage']),
                    cat_ids=None if (rng.random() < 0.5 or not flat) else rng.sample(flat, rng.randint(1, len(flat))))
        for k in ('layers', 'labels', 'layer', 'layer_axis', 'nodata_as'):
            case.pop(k, None)
        if flat and rng.random() < 0.7:
            t = np.dtype(vd).type
            v0 = rng.choice(flat)
            nd = rng.choice([t(v0), np.nextafter(t(v0), t(np.inf)), np.nextafter(t(v0), t(-np.inf))])
            case['nodata'], case['nodata_as'] = float(nd), vd
    elif theme == 'strlabels':
        nl = rng.randint(1, 4)
        labels = rng.sample(['red', 'nir', 'swir1', 'b4', ''], nl)
        case.update(ndim=3, labels=labels, layers=[c02.gen_values(rng, rows, cols, vd) for _ in labels], oracle_only=True,
                    agg=rng.choice(['count', 'sum', 'mean']) if case['backend'] == 'numpy' else 'count',
                    cat_ids=None if rng.random() < 0.4 else rng.sample(labels + ['absent'], rng.randint(1, nl + 1)),
                    layer_axis=rng.choice([0, 1, 2]), nodata=None if rng.random() < 0.6 else 0)
        case['layer'] = None if case['layer_axis'] == 0 else case['layer_axis']
        case.pop('values', None)
    else:
        kind = rng.choice(['1x1', '2x2', 'all-nan-values', 'all-equal', 'single-valid-cell'])
        case['degenerate'] = kind
        n = {'1x1': 1, '2x2': 2}.get(kind)
        if n:
            case['zones'] = [[float(rng.choice([1, 1, 2])) for _ in range(n)] for _ in range(n)]
            rows = cols = n
        elif kind == 'all-equal':
            case['zones'] = [[1.0] * cols for _ in range(rows)]
        gen = (lambda: [[float(rng.randint(0, 3)) for _ in range(cols)] for _ in range(rows)])
        if kind == 'all-nan-values':
            case['vdtype'] = 'float64'
            gen = (lambda: [[NAN] * cols for _ in range(rows)])
        elif kind == 'all-equal':
            gen = (lambda: [[2.0] * cols for _ in range(rows)])
        elif kind == 'single-valid-cell':
            case['vdtype'] = 'float32'
            def gen():
                g = [[NAN] * cols for _ in range(rows)]
                g[rng.randrange(rows)][rng.randrange(cols)] = float(rng.randint(0, 3))
                return g
        if case['ndim'] == 2:
            case['values'] = gen()
            case['cat_ids'] = None
        else:
            case['layers'] = [gen() for _ in case['labels']]
            if case['agg'] in ('min', 'max'):
                case['agg'] = 'mean'
        case['nodata'] = None
        case['zone_ids'] = None
        if case['backend'] == 'dask':
            case['chunks'] = [rng.randint(1, rows), rng.randint(1, cols)]
    return case


def run_sequence(ctx, case):
    """the same call twice, inputs unchanged, then calls on rasters derived (isel / astype / copy+assign_coords) from the
    processed ones; coordinates descending / fractional / 1e6-spaced and attrs present"""
    from xrspatial.zonal import crosstab
    z, v, layer = build_inputs(dict(case, backend='numpy'))
    rows, cols = z.shape
    ys = [10.5 - 0.25 * r for r in range(rows)]
    xs = [-3.0e6 + 1.0e6 * c for c in range(cols)]
    z = z.assign_coords({z.dims[0]: ys, z.dims[1]: xs}).assign_attrs(res=(1.0e6, 0.25), crs='EPSG:4326')
    spatial = [d for i, d in enumerate(v.dims) if not (v.ndim == 3 and i == layer_position(case))]
    v = v.assign_coords({spatial[0]: ys, spatial[1]: xs}).assign_attrs(res=(1.0e6, 0.25), nodata=-1)
    snap = [(a.data.copy(), {k: c.values.copy() for k, c in a.coords.items()}, dict(a.attrs), a.dtype, a.dims) for a in (z, v)]

    def call(zz, vv):
        return canon_df(crosstab(zz, vv, zone_ids=case['zone_ids'], cat_ids=case['cat_ids'], layer=layer, agg=case['agg'],
                                 nodata_values=case['nodata']))

    def unchanged(step):
        for a, (d, cs, at, dt, dm) in zip((z, v), snap):
            if not (c02._nan_equal(a.data, d) and dict(a.attrs) == at and a.dtype == dt and a.dims == dm and
                    set(a.coords) == set(cs) and all(np.array_equal(a.coords[k].values, cs[k]) for k in cs)):
                ctx.violation('oracle', 'crosstab modified an input raster (data / coords / attrs) during %s' % step, dict(case, step=step))
                return False
        return True

    cols_, rows_, _ = expectation(case)
    if any(e == 'raise' for _, es in rows_ for e in es):
        return
    try:
        out1 = call(z, v)
        if not unchanged('the first call'):
            return
        out2 = call(z, v)
        if not unchanged('the repeated call'):
            return
        if c02.json_key(out1) != c02.json_key(out2):
            ctx.violation('oracle', 'crosstab: the same call repeated gives a different table', dict(case, first=out1, second=out2))
            return
        if not oracle(ctx, case, out1):
            return
        r0, c0 = (1 if rows > 1 else 0), (1 if cols > 1 else 0)
        cut = lambda g: [row[c0:] for row in g[r0:]]
        sub = dict(case, zones=cut(case['zones']))
        if case['ndim'] == 2:
            sub['values'] = cut(case['values'])
        else:
            sub['layers'] = [cut(L) for L in case['layers']]
        subc, subr, _ = expectation(sub)
        if not any(e == 'raise' for _, es in subr for e in es):
            zz = z.isel({z.dims[0]: slice(r0, None), z.dims[1]: slice(c0, None)})
            vv = v.isel({spatial[0]: slice(r0, None), spatial[1]: slice(c0, None)})
            n0 = len(ctx.violations)
            oracle(ctx, sub, canon_df(crosstab(zz, vv, zone_ids=sub['zone_ids'], cat_ids=sub['cat_ids'], layer=layer, agg=sub['agg'],
                                               nodata_values=sub['nodata'])))
            for vio in ctx.violations[n0:]:
                vio['what'] = '[call on rasters derived by isel from already-processed ones] ' + vio['what']
                vio['replay'] = dict(case, derived='isel')
        zz = z.copy().assign_coords({z.dims[0]: ys[::-1]})
        vv = v.astype('float64') if case['agg'] in ('count', 'percentage', 'sum', 'min', 'max') else v.copy(deep=True)
        n0 = len(ctx.violations)
        oracle(ctx, dict(case, vdtype='float64') if vv.dtype != v.dtype else case, call(zz, vv))
        for vio in ctx.violations[n0:]:
            vio['what'] = '[call on rasters derived by copy+assign_coords / astype from already-processed ones] ' + vio['what']
            vio['replay'] = dict(case, derived='copy/astype')
        unchanged('the calls on derived rasters')
    except Exception as e:      # noqa
        ctx.violation('oracle', 'crosstab raised %s: %s in a call sequence' % (type(e).__name__, e), case)


def run(ctx, n=None):
    rng = ctx.rng
    n = n or (600 if ctx.quick() else 8000)
    pending = []
    for i in range(n):
        one(ctx, gen_case(rng, ctx.quick(), i), pending)
    for i in range(max(24, n // 25)):
        one(ctx, gen_big_case(rng, i), pending)
    for case in exhaustive_cases(rng, 2 if ctx.quick() else 40):
        one(ctx, case, pending)
    for i in range(30 if ctx.quick() else 600):        # appended stream: irregular zones / values chunk pairs
        one(ctx, gen_chunk_case(rng, i), pending)
    # appended theme streams: layouts R/W, id containers / numpy-scalar nodata, float16, non-integer categories, string
    # layer labels, degenerate rasters, call sequences
    for i in range(132 if ctx.quick() else 3000):
        one(ctx, gen_theme_case(rng, i), pending)
    for i in range(30 if ctx.quick() else 500):
        case = gen_case(rng, True, i)
        case['theme'] = 'sequence'
        ctx.case(case, nontrivial=nontrivial(case))
        ctx.count('theme/numpy/%dD/sequence(repeat, inputs unchanged, derived rasters, coords+attrs)' % case['ndim'])
        run_sequence(ctx, case)
    if ctx.model is not None and pending:
        outs = ctx.model.run([p[0] for p in pending])
        for (line, s, case, out), mo in zip(pending, outs):
            ctx.traces += 1
            compare_model(ctx, case, out, mo, s)
    ctx.exhaustive = False


def search(ctx):
    old, model = ctx.tier, ctx.model
    ctx.tier, ctx.model = 'thorough', None
    try:
        run(ctx, n=4000)
    finally:
        ctx.tier, ctx.model = old, model


def replay_case(ctx, case):
    case = dict(case)
    for k in ('zones', 'values', 'layers', 'labels', 'zone_ids', 'cat_ids', 'nodata'):
        if k in case:
            case[k] = unjson(case[k])
    for k in ('derived', 'step', 'first', 'second'):
        case.pop(k, None)
    if case.get('theme') == 'sequence':
        run_sequence(ctx, case)
        return
    one(ctx, case, [])
