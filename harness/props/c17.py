"""C17 — local operators are per-cell functions of the layers, NaN-absorbing.
Correspondence: every function of xrspatial.local vs the extracted Coq model coq/C17/Model.v;
oracle: the property text evaluated per cell with exact arithmetic (fractions)."""
import math
from fractions import Fraction

import numpy as np
import xarray as xr

from harness import xvio

ID = 'C17'
RULE = ('multi-step sequences for every function (call, edit the SAME Dataset object in place - replace a layer, write cells, add / move / '
        'remove a NaN - call again with the same arguments, 2-4 edits; inputs compared with a snapshot after each call) and loops over '
        'short-lived temporary Datasets; single calls on ')
RULE += ('datasets of 2..8 same-shaped layers (1x1 .. 5x6 mostly non-square, plus 1x40, 40x1, 17x23, 32x8, 9x64; with and without '
        'ascending / descending coordinates; every integer width signed and unsigned, float16/32/64; dtype-boundary values 2**24+1, 2**31, '
        '2**32+1, 2**49 and the dtypes\' own extremes; signed zeros; cell_stats with func given and left at its default; small integer / half-integer values so ties '
        'are frequent; NaN and +-inf in float layers; float64/float32/int32/int64), each layer stored C-contiguous, '
        'Fortran-ordered, as a strided view or with negative strides; data_vars = None or a random non-empty subset in random '
        'order (incl. a single layer); every choice of ref_var; integer reference layers mostly in 1..n plus 0, n+1 and '
        'negative values for rank/popularity, integer or float (incl. NaN) references for the frequencies; all six '
        'cell_stats statistics. A case is non-trivial when at least one cell has no NaN; distinct by JSON encoding.')
TRUSTED = [
    'finite doubles of one case are embedded into Z by a common power-of-two scale (exact, order preserving); '
    'sum/mean/median/max/min/rank/popularity results are un-scaled by the harness (variance by the square)',
    'np.max/min/sum/mean/median/std applied to a tuple of Python numbers are modelled by their mathematical definition with IEEE '
    'NaN/inf rules (xadd, NaN-propagating max/min); std is compared as variance = std**2 within 1e-9 relative tolerance, '
    'mean within 1e-12 (one float division)',
    'np.nditer(order=\'C\') / np.reshape / Python tuple hashing-equality are modelled (lock-step over the C-order '
    'flattening, rows of ncols items, element-wise ==), not verified',
    'Stdlib QArith (no axioms) for the rational statistics',
]
ASSUMPTIONS = ['rank / popularity compute `ref - 1` in the reference layer\'s integer dtype (NumPy scalar arithmetic wraps: an unsigned 0 becomes '
               'the dtype\'s maximum -> index out of range -> NaN); the harness hands the model the correspondingly wrapped integer. References '
               'outside 1..n are outside the property and have no theorem; ',
               'a float32 / float16 REFERENCE layer is only combined with layer values exactly representable in that precision (NumPy compares '
               'the numpy reference scalar with the Python-float layer value in the reference\'s precision — a promotion artefact, not checked); '
               'integer magnitudes <= 2**49 so that sums of 8 layers stay exact in float64; '
               'NumPy-backed xarray.Dataset of 2-D same-shaped layers with at least one column; '
               'reference layers for rank/popularity have an integer dtype (a float reference raises TypeError in list indexing)',
               'the model is the behaviour after fixes/C17-nditer-c-order-single-layer.diff (C-order iteration, single layer allowed)']
PARTIAL = [
    'popularity: the property text gives no definition; C17_popularity_spec and the oracle state what the code computes (NaN when no value '
    'repeats, the common value when all layers agree, otherwise the ref-th smallest DISTINCT value, NaN for ref > #distinct). This is NOT '
    'a ranking by number of occurrences as the docstring / ArcGIS "nth most popular" suggests — recorded as an observation, not claimed as a defect',
    'cell_stats std: the Coq model computes the variance over Q; sqrt is outside the model (harness compares std**2)',
    'rank/popularity with a reference outside 1..n: modelled (Python negative-index wrap, IndexError) and corresponded, no theorem',
]
LEVEL_TEXT = ('Proved for all shapes, any number of layers and all values (Coq, no axioms): the flatten / lock-step / reshape-by-column-count '
              'glue is the per-cell map out[y][x] = f(layers at (y,x)) (also with a reference layer); lesser+equal+greater = layer count '
              'when no NaN; lowest/highest position is the 1-based index of the first minimum/maximum; rank is the ref-th element of the '
              'sorted permutation of the tuple; combine ids are equal iff the tuples are equal, form a restricted-growth numbering from 1 '
              'in first-occurrence order and attrs[key] inverts them; every cell function returns NaN when a layer is NaN; '
              'max/min/sum/mean/median/variance equal their definitions. Correspondence and the exact per-cell oracle cover all nine '
              'functions and six statistics on generated datasets incl. non-C memory layouts; popularity is proved to be the ref-th smallest distinct value '
              '(NaN when no value repeats; the common value when all agree) and checked as such by the oracle.')
LEVEL_TEXT += (' That a result depends only on the dataset passed in (no state carried between calls) is a property of the model by '
               'construction (pure functions) and is checked on the code by the multi-step sequences of the harness, not by a theorem.')
LEVEL_NOTE = ('Trusted: the Coq kernel, extraction, the OCaml driver, the harness embedding of floats into Z, NumPy reductions on tuples, '
              'np.nditer/reshape semantics as modelled.')

FUNCS = ['cell_stats', 'combine', 'lesser_frequency', 'equal_frequency', 'greater_frequency',
         'lowest_position', 'highest_position', 'popularity', 'rank']
REF_FUNCS = {'lesser_frequency', 'equal_frequency', 'greater_frequency', 'popularity', 'rank'}
STATS = ['max', 'mean', 'median', 'min', 'std', 'sum']
DTYPES = ['float64', 'float32', 'int32', 'int64']
MORE_DTYPES = ['int8', 'int16', 'uint8', 'uint16', 'uint32', 'uint64', 'float16']
HUGE = [2.0 ** 24 + 1, 2.0 ** 24, 2.0 ** 31 - 1, 2.0 ** 31, 2.0 ** 32 + 1, 2.0 ** 49 - 1, 2.0 ** 49, 65535.0, 65536.0, 255.0, 256.0]
LAYOUTS = ['C', 'F', 'strided', 'neg']
KEY_ORDER = 'nditer-order-k-noncontiguous-layers'
KEY_SINGLE = 'single-data-var-typeerror'


def _impl():
    from xrspatial import local
    return local


# ---------------------------------------------------------------------------
# building inputs
# ---------------------------------------------------------------------------
def fnum(v):
    if isinstance(v, str):
        return float(v)
    return float(v)


def make_array(spec, force_c=False):
    data = [[fnum(v) for v in row] for row in spec['data']]
    dt = spec['dtype']
    a = np.array(data, dtype='float64')
    a = a.astype(dt)
    lay = 'C' if force_c else spec['layout']
    if lay == 'C':
        return np.ascontiguousarray(a)
    if lay == 'F':
        return np.asfortranarray(a)
    if lay == 'strided':
        big = np.zeros((a.shape[0] * 2, a.shape[1] * 2), dtype=dt)
        big[::2, ::2] = a
        return big[::2, ::2]
    if lay == 'neg':
        return np.ascontiguousarray(a[::-1, ::-1])[::-1, ::-1]
    if lay == 'strided23':                       # a[::2, ::3] of a larger array
        big = np.zeros((a.shape[0] * 2, a.shape[1] * 3), dtype=dt)
        big[::2, ::3] = a
        return big[::2, ::3]
    if lay == 'Tstrided':                        # transposed strided view
        big = np.zeros((a.shape[1] * 3, a.shape[0] * 2), dtype=dt)
        v = big[::3, ::2].T
        v[...] = a
        return v
    if lay in ('nowrite', 'Fnowrite'):           # read-only buffers
        b = np.asfortranarray(a) if lay == 'Fnowrite' else np.ascontiguousarray(a)
        b.setflags(write=False)
        return b
    raise ValueError(lay)


def make_dataset(case, force_c=False):
    dims = tuple(case.get('dims') or ('y', 'x'))
    chunks = case.get('dask') or {}

    def arr(name):
        a = make_array(case['layers'][name], force_c)
        if name in chunks:
            import dask.array as da
            a = da.from_array(np.ascontiguousarray(a), chunks=tuple(tuple(c) for c in chunks[name]))
        return a
    ds = xr.Dataset({name: (dims, arr(name)) for name in case['names']})
    cd = case.get('coords')
    if cd:
        rows, cols = case['shape']
        ys = np.arange(rows, dtype='float64') * 0.5 + 10
        xs = np.arange(cols, dtype='float64') * 2.0 - 3
        if cd == 'negfrac':        # negative origin, fractional spacing, x != y
            ys, xs = -1234.5 - 0.37 * np.arange(rows), -0.25 + 0.125 * np.arange(cols)
        elif cd == 'big':          # large origin and spacing
            ys, xs = 4.0e6 + 1.0e6 * np.arange(rows), -7.5e6 + 2.5e5 * np.arange(cols)
        ds = ds.assign_coords({dims[0]: ys[::-1] if cd == 'desc' else ys, dims[1]: xs})
    return ds


def selected_vars(case):
    if case['data_vars']:
        return list(case['data_vars'])
    dv = list(case['names'])
    if case['fn'] in REF_FUNCS:
        dv.remove(case['ref_var'])
    return dv


def layer_values(case, name):
    """the layer as the implementation sees it: list of rows of Python floats"""
    a = make_array(case['layers'][name], True)
    return [[float(v) for v in row] for row in a.tolist()]


def call_impl(local, case, force_c=False, ds=None):
    if ds is None:
        ds = make_dataset(case, force_c)
    fn = case['fn']
    kw = {}
    if case['data_vars'] is not None:
        kw['data_vars'] = list(case['data_vars'])
    try:
        if fn == 'cell_stats':
            if case.get('stat_default'):
                res = local.cell_stats(ds, **kw)          # func left at its default ('sum')
            else:
                res = local.cell_stats(ds, func=case['stat'], **kw)
        elif fn in REF_FUNCS:
            res = getattr(local, fn)(ds, case['ref_var'], **kw)
        else:
            res = getattr(local, fn)(ds, **kw)
    except Exception as e:  # noqa
        return {'exc': type(e).__name__, 'msg': str(e)[:200]}
    out = np.asarray(res.data)
    r = {'shape': list(out.shape), 'out': [[float(v) for v in row] for row in out.tolist()] if out.ndim == 2 else out.tolist()}
    if fn == 'combine':
        key = res.attrs.get('key')
        try:
            r['key'] = {int(k): [float(x) for x in v] for k, v in key.items()}
        except Exception:  # noqa  (not an id -> tuple-of-numbers map: reported by the oracle)
            r['key'] = {'unparseable': repr(key)[:200]}
    return r


# ---------------------------------------------------------------------------
# oracle: the property text, per cell, exact
# ---------------------------------------------------------------------------
def isnan(v):
    return isinstance(v, float) and math.isnan(v)


def eqv(a, b):
    return (isnan(a) and isnan(b)) or a == b


def exact_stat(stat, vals):
    """statistic of finite values as a Fraction (std: the variance)"""
    fr = [Fraction(v) for v in vals]
    n = len(fr)
    if stat == 'max':
        return max(fr)
    if stat == 'min':
        return min(fr)
    if stat == 'sum':
        return sum(fr)
    if stat == 'mean':
        return sum(fr) / n
    if stat == 'median':
        s = sorted(fr)
        return s[n // 2] if n % 2 else (s[n // 2 - 1] + s[n // 2]) / 2
    if stat == 'std':
        m = sum(fr) / n
        return sum((x - m) ** 2 for x in fr) / n
    raise ValueError(stat)


def close(a, exact, rel):
    if isnan(a) or math.isinf(a):
        return False
    return abs(Fraction(a) - exact) <= rel * max(1, abs(exact))


def oracle(case, res):
    """returns None or a description of how the implementation's result violates the property text"""
    fn = case['fn']
    dv = selected_vars(case)
    layers = [layer_values(case, n) for n in dv]
    rows = len(layers[0])
    cols = len(layers[0][0])
    if 'exc' in res:
        return '%s raised %s: %s' % (fn, res['exc'], res['msg'])
    if res['shape'] != [rows, cols]:
        return '%s: result shape %r, layers have shape %r' % (fn, res['shape'], [rows, cols])
    out = res['out']
    ref = layer_values(case, case['ref_var']) if fn in REF_FUNCS else None
    seen = {}       # combine: tuple -> id
    nxt = 1
    percell = {}    # popularity: (ref, tuple) -> output
    for y in range(rows):
        for x in range(cols):
            t = [L[y][x] for L in layers]
            o = out[y][x]
            where = 'cell (%d,%d) layers %r' % (y, x, t)
            if any(isnan(v) for v in t):
                if not isnan(o):
                    return '%s: %s has a NaN layer but the result is %r (expected NaN)' % (fn, where, o)
                continue
            n = len(t)
            if fn == 'cell_stats':
                st = case['stat']
                if any(math.isinf(v) for v in t):
                    if st == 'max' and o != max(t):
                        return 'cell_stats max: %s got %r' % (where, o)
                    if st == 'min' and o != min(t):
                        return 'cell_stats min: %s got %r' % (where, o)
                    continue
                ex = exact_stat(st, t)
                if st == 'std':
                    ok = (not isnan(o)) and o >= 0 and close(o * o, ex, Fraction(1, 10 ** 9))
                elif st == 'mean':
                    ok = close(o, ex, Fraction(1, 10 ** 12))
                else:
                    ok = (not isnan(o)) and not math.isinf(o) and Fraction(o) == ex
                if not ok:
                    return 'cell_stats %s: %s got %r, expected %s' % (st, where, o, float(ex) if st != 'std' else 'sqrt(%s)' % ex)
            elif fn in ('lesser_frequency', 'equal_frequency', 'greater_frequency'):
                r = ref[y][x]
                if isnan(r):
                    continue
                exp = sum(1 for v in t if (v < r if fn[0] == 'l' else v == r if fn[0] == 'e' else v > r))
                if o != exp:
                    return '%s: %s ref %r got %r, expected %d' % (fn, where, r, o, exp)
            elif fn == 'lowest_position':
                exp = t.index(min(t)) + 1
                if o != exp:
                    return 'lowest_position: %s got %r, expected %d (1-based first minimum)' % (where, o, exp)
            elif fn == 'highest_position':
                exp = t.index(max(t)) + 1
                if o != exp:
                    return 'highest_position: %s got %r, expected %d (1-based first maximum)' % (where, o, exp)
            elif fn == 'rank':
                r = ref[y][x]
                if r == int(r) and 1 <= r <= n:
                    exp = sorted(t)[int(r) - 1]
                    if o != exp:
                        return 'rank: %s ref %r got %r, expected %r (ref-th smallest)' % (where, r, o, exp)
            elif fn == 'popularity':
                r = ref[y][x]
                dist = sorted(set(t))          # the distinct layer values, ascending
                if r == int(r) and r >= 1:
                    if len(dist) == len(t):
                        exp = float('nan')     # no value occurs twice
                    elif len(dist) == 1:
                        exp = dist[0]          # all layers agree
                    elif r <= len(dist):
                        exp = dist[int(r) - 1]
                    else:
                        exp = float('nan')
                    if not eqv(o, exp):
                        return 'popularity: %s ref %r got %r, expected %r (distinct values %r)' % (where, r, o, exp, dist)
                k = (ref[y][x], tuple(t))
                if k in percell and not eqv(percell[k], o):
                    return 'popularity: %s ref %r got %r but an identical cell got %r (not a per-cell function)' % (
                        where, ref[y][x], o, percell[k])
                percell[k] = o
            elif fn == 'combine':
                k = tuple(t)
                if k not in seen:
                    seen[k] = nxt
                    nxt += 1
                if o != seen[k]:
                    return 'combine: %s got id %r, expected %d (ids from 1 in first-occurrence order, equal iff tuples equal)' % (
                        where, o, seen[k])
    if fn == 'combine':
        key = res.get('key')
        exp = {i: list(k) for k, i in seen.items()}
        if key != exp:
            return 'combine: attrs[key] = %r is not the id -> tuple map %r' % (key, exp)
    return None


def oracle_frequency_sum(local, case):
    """lesser + equal + greater = number of layers wherever no layer (and not the reference) is NaN"""
    outs = {}
    for fn in ('lesser_frequency', 'equal_frequency', 'greater_frequency'):
        r = call_impl(local, dict(case, fn=fn))
        if 'exc' in r:
            return None
        outs[fn] = r['out']
    dv = selected_vars(case)
    n = len(dv)
    ref = layer_values(case, case['ref_var'])
    for y, row in enumerate(ref):
        for x, rv in enumerate(row):
            tot = sum(outs[f][y][x] for f in outs)
            if isnan(tot) or isnan(rv):
                continue
            if tot != n:
                return 'frequencies at cell (%d,%d) sum to %r, not the layer count %d' % (y, x, tot, n)
    return None


# ---------------------------------------------------------------------------
# model
# ---------------------------------------------------------------------------
def model_line(case):
    fn = case['fn']
    dv = selected_vars(case)
    layers = [layer_values(case, n) for n in dv]
    vals = [v for L in layers for row in L for v in row]
    ref = layer_values(case, case['ref_var']) if fn in REF_FUNCS else None
    if fn in ('lesser_frequency', 'equal_frequency', 'greater_frequency'):
        vals = vals + [v for row in ref for v in row]
    s = xvio.scale_for(vals)
    lay = '%d %s' % (len(layers), ' '.join(xvio.grid(L, s) for L in layers))
    if fn == 'cell_stats':
        st = 'var' if case['stat'] == 'std' else case['stat']
        return 'stat %s %s' % (st, lay), s
    if fn in ('lesser_frequency', 'equal_frequency', 'greater_frequency'):
        return '%s %s %s' % (fn.split('_')[0], xvio.grid(ref, s), lay), s
    if fn in ('rank', 'popularity'):
        # the code computes `ref - 1` on the NumPy scalar of the reference layer, i.e. in that layer's integer dtype: it wraps
        # around at the dtype's bounds (uint8 0 - 1 = 255, int8 -128 - 1 = 127).  The model's reference is a mathematical integer,
        # so it is handed the value whose predecessor is the wrapped result.
        dt = np.dtype(case['layers'][case['ref_var']]['dtype'])
        if dt.kind in 'iu':
            info = np.iinfo(dt)
            span = int(info.max) - int(info.min) + 1
            ref = [[float((int(v) - 1 - int(info.min)) % span + int(info.min) + 1) for v in row] for row in ref]
        return '%s %s %s' % (fn, xvio.grid(ref, 1), lay), s
    if fn == 'lowest_position':
        return 'lowest %s' % lay, s
    if fn == 'highest_position':
        return 'highest %s' % lay, s
    return 'combine %s' % lay, s


def parse_tok(t, s):
    if t in ('nan', 'inf', '-inf'):
        return float(t)
    if '/' in t:
        a, b = t.split('/')
        return Fraction(int(a, 0), int(b, 0)) / s
    return Fraction(int(t, 0), s)


def compare_model(case, res, mo, s):
    """None or a description of the difference between implementation result and model output"""
    fn = case['fn']
    if mo.startswith('ERR'):
        return 'model returned %s' % mo[:100]
    keys_part = None
    if fn == 'combine':
        mo, _, keys_part = mo.partition(' # ')
    mrows = [r.split() for r in mo.split(' | ')] if mo.strip() else []
    if any('IDXERR' in r for r in mrows):
        if res.get('exc') in ('IndexError', 'ValueError'):
            return None
        return 'model predicts an IndexError, implementation returned %r' % (res.get('exc') or 'a result')
    if 'exc' in res:
        return 'implementation raised %s (%s), model returned a raster' % (res['exc'], res['msg'])
    if [len(mrows), len(mrows[0]) if mrows else 0] != res['shape'] or any(len(r) != len(mrows[0]) for r in mrows):
        return 'shape: implementation %r, model rows %r' % (res['shape'], [len(r) for r in mrows])
    scaled = 1
    if fn in ('rank', 'popularity') or (fn == 'cell_stats' and case['stat'] != 'std'):
        scaled = s
    elif fn == 'cell_stats':
        scaled = s * s
    for y, (ro, rm) in enumerate(zip(res['out'], mrows)):
        for x, (o, t) in enumerate(zip(ro, rm)):
            m = parse_tok(t, scaled)
            if isinstance(m, float):
                ok = eqv(o, m)
            elif fn == 'cell_stats' and case['stat'] == 'std':
                ok = (not isnan(o)) and close(o * o, m, Fraction(1, 10 ** 9))
            elif fn == 'cell_stats' and case['stat'] == 'mean':
                ok = close(o, m, Fraction(1, 10 ** 12))
            else:
                ok = (not isnan(o)) and (not math.isinf(o)) and Fraction(o) == m
            if not ok:
                return 'cell (%d,%d): implementation %r vs model %s (scale %d)' % (y, x, o, t, scaled)
    if fn == 'combine':
        mkeys = [[parse_tok(t, s) for t in k.split()] for k in keys_part.split(' ; ')] if keys_part.strip() else []
        ikey = res.get('key') or {}
        if 'unparseable' in ikey:
            return 'combine key is not an id -> tuple map: %s' % ikey['unparseable']
        if sorted(ikey) != list(range(1, len(mkeys) + 1)):
            return 'combine key ids %r vs model %d keys' % (sorted(ikey), len(mkeys))
        for i, mk in enumerate(mkeys):
            ik = ikey[i + 1]
            if len(ik) != len(mk) or not all((eqv(a, b) if isinstance(b, float) else (not isnan(a) and not math.isinf(a) and Fraction(a) == b))
                                             for a, b in zip(ik, mk)):
                return 'combine key[%d]: implementation %r vs model %r' % (i + 1, ik, [float(v) for v in mk])
    return None


# ---------------------------------------------------------------------------
# generators
# ---------------------------------------------------------------------------
def tok_json(v):
    if isinstance(v, float) and (math.isnan(v) or math.isinf(v)):
        return 'nan' if math.isnan(v) else ('inf' if v > 0 else '-inf')
    return v


def gen_layer(rng, rows, cols, dtype, profile):
    data = []
    for _ in range(rows):
        row = []
        for _ in range(cols):
            if profile == 'ties':
                v = float(rng.randint(0, 3))
            elif profile == 'wide':
                v = float(rng.randint(-6, 9))
            elif profile == 'near':
                # values a hair away from small integers (within any isclose-style tolerance, but not equal):
                # exact comparisons against the integer reference layer must still tell them apart
                v = float(rng.randint(0, 4)) + rng.choice([0.0, 0.0, 2.0 ** -20, -2.0 ** -20])   # representable in float32 too
            elif profile == 'huge':
                # dtype boundaries: above 2**24 (float32), around 2**31 / 2**32, up to 2**49 (sums of 8 stay below 2**53)
                v = rng.choice(HUGE) * rng.choice([1, 1, -1]) if rng.random() < 0.7 else float(rng.randint(-3, 3))
            else:
                v = rng.randint(-6, 12) / 2.0
            if v == 0 and dtype.startswith('float') and rng.random() < 0.3:
                v = -0.0
            if dtype.startswith('float'):
                u = rng.random()
                if u < 0.07:
                    v = float('nan')
                elif u < 0.10:
                    v = float('inf')
                elif u < 0.13:
                    v = float('-inf')
            else:
                v = float(int(v))
                if dtype.startswith('uint'):
                    v = abs(v)
                info = np.iinfo(dtype)
                if not (info.min <= v <= info.max):
                    v = float(info.max if v > 0 else info.min)      # the dtype's own extreme value
            row.append(tok_json(v))
        data.append(row)
    return data


def gen_case(rng, i, quick):
    fn = FUNCS[i % len(FUNCS)]
    nl = rng.choice([2, 2, 3, 3, 4, 5, 6, 6, 7, 8])
    shape_kind = rng.random()
    if shape_kind < 0.15:
        rows, cols = rng.randint(1, 4), rng.randint(1, 4)
        if rng.random() < 0.5:
            cols = rows
    else:
        rows, cols = rng.randint(1, 5), rng.randint(1, 6)
        if rows == cols:
            cols = cols + 1
    if rng.random() < 0.04:
        rows, cols = rng.choice([(1, 40), (40, 1), (17, 23), (32, 8), (9, 64)])       # larger rasters, long rows / columns
    names = [chr(ord('a') + k) for k in range(nl)]
    rng.shuffle(names)
    profile = rng.choice(['ties', 'ties', 'wide', 'half', 'near', 'huge'])
    stat = STATS[(i // len(FUNCS)) % len(STATS)] if fn == 'cell_stats' else None
    if profile == 'huge' and stat in ('mean', 'std'):
        profile = 'wide'          # mean / std of 2**49-sized values differ from the exact value by float rounding only
    layout_mode = rng.random()
    layers = {}
    for n in names:
        dtype = rng.choice(DTYPES) if rng.random() < 0.7 else rng.choice(MORE_DTYPES)
        if layout_mode < 0.35:
            lay = 'C'
        elif layout_mode < 0.6:
            lay = 'F'
        elif layout_mode < 0.7:
            lay = 'neg'
        else:
            lay = rng.choice(LAYOUTS)
        layers[n] = {'dtype': dtype, 'layout': lay, 'data': gen_layer(rng, rows, cols, dtype, profile)}
    case = {'fn': fn, 'names': names, 'layers': layers, 'shape': [rows, cols], 'data_vars': None, 'ref_var': None, 'stat': None,
            'coords': rng.choice([None, None, 'asc', 'desc'])}
    cand = list(names)
    if fn in REF_FUNCS:
        ref = rng.choice(names)
        case['ref_var'] = ref
        cand.remove(ref)
    if rng.random() < 0.55:
        k = rng.randint(1, len(cand))
        case['data_vars'] = rng.sample(cand, k)
    nsel = len(case['data_vars']) if case['data_vars'] else len(cand)
    if fn == 'cell_stats':
        case['stat'] = stat
        if stat == 'sum' and rng.random() < 0.4:
            case['stat_default'] = True
    if fn in ('rank', 'popularity'):
        rl = layers[case['ref_var']]
        rl['dtype'] = rng.choice(['int32', 'int64', 'int8', 'int16', 'uint8', 'uint16', 'uint32', 'uint64'])
        mode = rng.random()
        if rl['dtype'].startswith('uint'):
            mode = mode * 0.7         # `ref - 1` wraps for an unsigned 0: only references >= 1 (the property's domain)
        data = []
        for _ in range(rows):
            row = []
            for _ in range(cols):
                if mode < 0.7:
                    v = rng.randint(1, nsel)
                elif mode < 0.9:
                    v = rng.randint(-nsel, nsel + 2)
                else:
                    v = rng.randint(-nsel - 2, nsel + 2)
                row.append(float(v))
            data.append(row)
        rl['data'] = data
    elif fn in REF_FUNCS:
        rl = layers[case['ref_var']]
        if rng.random() < 0.7:
            rl['dtype'] = rng.choice(['int32', 'int64', 'int8', 'uint8', 'uint16', 'int16', 'uint64'])
            rl['data'] = [[float(rng.randint(0, 4)) for _ in range(cols)] for _ in range(rows)]
            if profile == 'huge' and rl['dtype'] in ('int32', 'int64', 'uint64'):
                rl['data'] = [[float(rng.choice([2 ** 24, 2 ** 24 + 1, 2 ** 31 - 1, 0, 3])) for _ in range(cols)] for _ in range(rows)]
        elif rl['dtype'] in ('float32', 'float16') and profile in ('near', 'huge'):
            # a float32 / float16 reference makes NumPy compare in that precision (the Python-float layer values are the
            # "weak" operand): values that differ only beyond it would be counted as equal — a promotion artefact, kept out
            rl['dtype'] = 'float64'
    return case


# ---------------------------------------------------------------------------
# run
# ---------------------------------------------------------------------------
def classify_violation(local, case, res, what):
    """finding key, if the failing input is in a recorded defect class"""
    dv = selected_vars(case)
    if 'exc' in res and res['exc'] == 'TypeError' and len(dv) == 1 and '0-d' in res.get('msg', ''):
        return KEY_SINGLE
    used = dv + ([case['ref_var']] if case['ref_var'] else [])
    if any(case['layers'][n]['layout'] != 'C' for n in used):
        res_c = call_impl(local, case, force_c=True)
        if oracle(case, res_c) is None:
            return KEY_ORDER
    return None


def check_case(ctx, local, case, pending, ds=None, extra=None):
    """ds: call on this live Dataset object (multi-step sequences) instead of a freshly built one; extra: added to the replay"""
    ctx.case(case, nontrivial=True)
    dv = selected_vars(case)
    used = dv + ([case['ref_var']] if case['ref_var'] else [])
    lays = sorted({case['layers'][n]['layout'] for n in used})
    ctx.count('%s%s/layers=%d/%s' % (case['fn'], '-' + case['stat'] if case['stat'] else '', len(dv), '+'.join(lays)))
    res = call_impl(local, case, ds=ds)
    model_idx_err_ok = False
    what = oracle(case, res)
    if what is not None and res.get('exc') == 'IndexError' and case['fn'] in ('rank', 'popularity'):
        # a reference below -n is outside the property's domain; the model decides (IDXERR)
        model_idx_err_ok = True
        what = None
    if what is not None:
        if extra:
            what = '%s: %s' % (extra.get('step_what', 'sequence'), what)
        ctx.violation('oracle', what, dict(case, result=res, **(extra or {})),
                      key=None if ds is not None else classify_violation(local, case, res, what))
    if case['fn'] == 'lesser_frequency' and ds is None:
        w2 = oracle_frequency_sum(local, case)
        if w2 is not None and what is None:
            ctx.violation('oracle', w2, dict(case, result=res), key=classify_violation(local, case, res, w2))
    line, s = model_line(case)
    pending.append((line, s, res, case, what is not None))


# ---------------------------------------------------------------------------
# multi-step sequences: the result is a function of the dataset AT THE TIME OF THE CALL
# ---------------------------------------------------------------------------
def snapshot_case(base, ds):
    """the case describing the live Dataset as it is now (values read back from it)"""
    case = dict(base)
    case['layers'] = {}
    for n in base['names']:
        a = np.asarray(ds[n].values)
        case['layers'][n] = {'dtype': str(a.dtype), 'layout': 'C',
                             'data': [[tok_json(float(v)) for v in row] for row in a.tolist()]}
    return case


def same_values(c1, c2):
    return all(c1['layers'][n]['data'] == c2['layers'][n]['data'] for n in c1['names'])


def mutate(rng, ds, case, nsel):
    """edit the SAME Dataset object in place; returns a description"""
    rows, cols = case['shape']
    used = selected_vars(case)
    kind = rng.choice(['replace', 'write', 'nan', 'replace', 'write'])
    name = rng.choice(used)
    a = np.asarray(ds[name].values)
    isfloat = a.dtype.kind == 'f'
    if kind == 'nan' and not isfloat:
        fl = [n for n in used if np.asarray(ds[n].values).dtype.kind == 'f']
        if fl:
            name = rng.choice(fl)
            a = np.asarray(ds[name].values)
            isfloat = True
        else:
            kind = 'write'
    if kind == 'replace':
        new = (a.astype('float64') * rng.choice([10, -1, 3]) + rng.choice([0, 1, 7])).astype(a.dtype)
        if not isfloat and a.dtype.kind == 'u':
            new = np.abs(a.astype('int64') * 3 + 1).astype(a.dtype)
        ds[name] = (('y', 'x'), new)
        return 'after replacing layer %r' % name
    i, j = rng.randrange(rows), rng.randrange(cols)
    if kind == 'write':
        cur = a[i, j]
        v = 100 if not (cur == 100) else 99            # fits every integer width
        for _ in range(rng.randint(1, 3)):
            ds[name].values[rng.randrange(rows), rng.randrange(cols)] = rng.choice([v, 17, 0])
        ds[name].values[i, j] = v
        return 'after writing cells of layer %r' % name
    # move / add / remove a NaN
    nanpos = np.argwhere(np.isnan(a))
    if len(nanpos) and rng.random() < 0.6:
        y, x = nanpos[rng.randrange(len(nanpos))]
        ds[name].values[y, x] = 5.0
        what = 'after removing a NaN from layer %r' % name
        if rng.random() < 0.5:
            ds[name].values[i, j] = np.nan
            what = 'after moving a NaN in layer %r' % name
        return what
    ds[name].values[i, j] = np.nan
    return 'after adding a NaN to layer %r' % name


def run_sequences(ctx, local, pending):
    nseq = 90 if ctx.quick() else 1500
    for q in range(nseq):
        rng = ctx.rng
        base = gen_case(rng, q, ctx.quick())
        rows, cols = base['shape']
        if rows * cols > 60:
            continue
        for n in base['names']:
            base['layers'][n]['layout'] = 'C'
        ds = make_dataset(base)
        nsel = len(selected_vars(base))
        steps = []
        cur = snapshot_case(base, ds)
        ctx.count('sequence/%s%s' % (base['fn'], '-' + base['stat'] if base['stat'] else ''))
        nsteps = rng.randint(2, 4)
        for k in range(nsteps + 1):
            desc = 'first call' if k == 0 else mutate(rng, ds, cur, nsel)
            cur = snapshot_case(base, ds)
            if base['fn'] == 'cell_stats' and k > 0 and rng.random() < 0.3:
                cur['stat'] = rng.choice(STATS)           # another statistic of the same raster
                cur.pop('stat_default', None)
                base = dict(base, stat=cur['stat'])
                base.pop('stat_default', None)
            steps.append({'what': desc, 'case': cur})
            check_case(ctx, local, cur, pending, ds=ds,
                       extra={'step': k, 'step_what': 'step %d (%s, same Dataset object, same arguments)' % (k, desc),
                              'sequence': [st['case'] for st in steps], 'sequence_what': [st['what'] for st in steps]})
            after = snapshot_case(base, ds)
            after['stat'] = cur['stat']
            if not same_values(cur, after):
                ctx.violation('oracle', '%s modified its input dataset (step %d)' % (base['fn'], k),
                              dict(cur, sequence=[st['case'] for st in steps]))
    # short-lived temporary Datasets (their id() may be recycled): every call must see its own data
    ntmp = 60 if ctx.quick() else 600
    names = ['a', 'b', 'c']
    for q in range(ntmp):
        rng = ctx.rng
        fn = FUNCS[q % len(FUNCS)]
        base = {'fn': fn, 'names': names, 'shape': [2, 3], 'data_vars': ['a', 'b'] if fn in REF_FUNCS else None,
                'ref_var': 'c' if fn in REF_FUNCS else None, 'stat': rng.choice(STATS) if fn == 'cell_stats' else None, 'coords': None,
                'layers': {n: {'dtype': 'float64', 'layout': 'C',
                               'data': [[float(rng.randint(0, 9)) for _ in range(3)] for _ in range(2)]} for n in names}}
        if fn in ('rank', 'popularity'):
            base['layers']['c'] = {'dtype': 'int64', 'layout': 'C', 'data': [[float(rng.randint(1, 2)) for _ in range(3)] for _ in range(2)]}
        ctx.count('temporary-datasets/%s' % fn)
        check_case(ctx, local, base, pending, ds=make_dataset(base),
                   extra={'step_what': 'temporary Dataset #%d in a loop (fresh object, same variable names)' % q})


# ---------------------------------------------------------------------------
# theme streams (appended after the earlier ones): layouts per argument, precision, dask, derived rasters, parameters,
# coordinates, degenerate shapes
# ---------------------------------------------------------------------------
THEMES = ['layout-arg', 'decimal', 'tiny', 'f32max', 'ulp', 'dask', 'dupvars', 'emptyvars', 'dims-coords', 'allnan', 'allequal',
          'singlevalid', 'shape11', 'shape22', 'layout-arg', 'dask']
INEXACT_STATS = ('sum', 'mean', 'std', 'median')


def split_chunks(rng, n, mode):
    if mode == 'single' or n == 1:
        return [n]
    if mode == 'ones':
        return [1] * n
    out = []
    while sum(out) < n:
        out.append(rng.randint(1, max(1, n - sum(out))))
    return out


def regen_layers(rng, case, rows, cols, value):
    """new data for every layer; value(name, dtype) -> float"""
    case['shape'] = [rows, cols]
    for n in case['names']:
        sp = case['layers'][n]
        sp['data'] = [[tok_json(value(n, sp['dtype'])) for _ in range(cols)] for _ in range(rows)]


def gen_theme_case(rng, i):
    theme = THEMES[i % len(THEMES)]
    case = gen_case(rng, i // len(THEMES) * len(FUNCS) + (i % len(FUNCS)), True)
    rows, cols = case['shape']
    if rows * cols > 60:
        rows, cols = 3, 4
        regen_layers(rng, case, rows, cols, lambda n, dt: float(rng.randint(0, 3)))
    fn = case['fn']
    used = selected_vars(case) + ([case['ref_var']] if case['ref_var'] else [])
    refint = fn in ('rank', 'popularity')
    floatnames = [n for n in selected_vars(case)]
    if theme in ('decimal', 'f32max', 'ulp') and fn == 'cell_stats' and case['stat'] in INEXACT_STATS:
        case['stat'] = 'max' if i % 2 else 'min'
        case.pop('stat_default', None)
    if theme == 'tiny' and fn == 'cell_stats' and case['stat'] in ('mean', 'std'):
        case['stat'] = 'sum'
    if theme == 'layout-arg':
        # every argument position in turn gets an unusual layout, the others stay C-contiguous
        target = used[(i // len(THEMES)) % len(used)]
        for n in case['names']:
            case['layers'][n]['layout'] = 'C'
        case['layers'][target]['layout'] = rng.choice(['strided23', 'Tstrided', 'nowrite', 'Fnowrite', 'F', 'neg', 'strided'])
        if rng.random() < 0.3:
            for n in used:
                case['layers'][n]['layout'] = rng.choice(['strided23', 'Tstrided', 'nowrite', 'Fnowrite', 'F', 'neg', 'C'])
    elif theme in ('decimal', 'tiny', 'f32max', 'ulp'):
        for n in floatnames:
            case['layers'][n]['dtype'] = 'float32' if (theme == 'f32max' and rng.random() < 0.6) else 'float64'
        if case['ref_var'] and not refint:
            case['layers'][case['ref_var']]['dtype'] = 'float64'
        base = [0.1, 0.2, 0.30000000000000004, 0.1 + 1e-9, 1.0, 2.5, 0.7]

        def value(n, dt):
            if n == case['ref_var'] and refint:
                return float(rng.randint(1, len(floatnames)))
            if theme == 'decimal':
                return rng.choice(base)
            if theme == 'tiny':
                return rng.randint(-3, 6) * 2.0 ** rng.choice([-100, -100, -30, -120]) if False else rng.randint(-3, 6) * 2.0 ** -100
            if theme == 'f32max':
                big = [3.4028234663852886e38, -3.4028234663852886e38, 1.0e38, 3.0e38, 1.7e38, -1.0e38]
                v = rng.choice(big + [1.0, 0.0])
                return float(np.float32(v)) if dt == 'float32' else v * rng.choice([1.0, 1.0, 1e200])
            b = rng.choice([1.0, 2.0, 0.5, 0.1, 3.0])          # ulp: equal to, and one ulp around, other cells
            return rng.choice([b, b, math.nextafter(b, math.inf), math.nextafter(b, -math.inf)])
        regen_layers(rng, case, rows, cols, value)
    elif theme == 'dask':
        import itertools  # noqa
        case['dask'] = {}
        mode = rng.choice(['irregular', 'ones', 'single', 'irregular'])
        for k, n in enumerate(used):
            m = mode if rng.random() < 0.7 else rng.choice(['irregular', 'ones', 'single'])      # per-argument different chunkings
            if rng.random() < 0.85:
                case['dask'][n] = [split_chunks(rng, rows, m), split_chunks(rng, cols, m)]
            case['layers'][n]['layout'] = 'C'
    elif theme == 'dupvars':
        dv = selected_vars(case)
        case['data_vars'] = dv + [rng.choice(dv)] + ([rng.choice(dv)] if rng.random() < 0.4 else [])
        rng.shuffle(case['data_vars'])
    elif theme == 'emptyvars':
        case['data_vars'] = []                      # falsy: means "all layers"
    elif theme == 'dims-coords':
        case['dims'] = rng.choice([['lat', 'lon'], ['row', 'col'], ['y', 'x']])
        case['coords'] = rng.choice(['negfrac', 'big', 'desc', 'asc'])
    elif theme in ('allnan', 'allequal', 'singlevalid'):
        fl = [n for n in selected_vars(case)]
        for n in fl:
            case['layers'][n]['dtype'] = 'float64'
        nanlayer = rng.choice(fl)
        valid = (rng.randrange(rows), rng.randrange(cols))
        cellno = [0]

        def value(n, dt):
            if n == case['ref_var'] and refint:
                return float(rng.randint(1, len(fl)))
            if not dt.startswith('float'):
                return 2.0
            if theme == 'allnan':
                return float('nan') if n == nanlayer or rng.random() < 0.2 else 2.0
            return 2.0
        regen_layers(rng, case, rows, cols, value)
        if theme == 'singlevalid':
            sp = case['layers'][nanlayer]
            sp['data'] = [['nan' if (y, x) != valid else 5.0 for x in range(cols)] for y in range(rows)]
    elif theme in ('shape11', 'shape22'):
        r = 1 if theme == 'shape11' else 2
        regen_layers(rng, case, r, r, lambda n, dt: float(rng.randint(1, 2)) if (n == case['ref_var'] and refint) else float(rng.randint(0, 3)))
    case['theme'] = theme
    return case


def derive(rng, ds, case):
    """a Dataset derived from an already processed one; returns (derived, its case, description)"""
    rows, cols = case['shape']
    kind = rng.choice(['copy', 'slice', 'astype', 'assign_coords', 'isel-rev'])
    base = dict(case)
    if kind == 'copy':
        d = ds.copy(deep=rng.random() < 0.5)
    elif kind == 'slice' and rows >= 2 and cols >= 2:
        d = ds.isel(y=slice(rng.randrange(2), None), x=slice(None, None, 2))
    elif kind == 'isel-rev':
        d = ds.isel(y=slice(None, None, -1))
    elif kind == 'astype':
        d = ds.copy()
        for nme in selected_vars(case):        # the data layers only: a float reference is outside rank / popularity's domain
            d[nme] = d[nme].astype('float64')
    else:
        kind = 'assign_coords'
        d = ds.assign_coords(y=np.arange(rows) * 3.0, x=np.arange(cols) * -1.5)
    any_name = case['names'][0]
    base['shape'] = list(np.asarray(d[any_name].values).shape)
    return d, snapshot_case(base, d), kind


def run_themes(ctx, local, pending):
    n = 260 if ctx.quick() else 4000
    for i in range(n):
        case = gen_theme_case(ctx.rng, i)
        ctx.count('theme/%s' % case['theme'])
        check_case(ctx, local, case, pending)
    # derived datasets, repeated calls, interleaved arguments
    nd = 60 if ctx.quick() else 800
    for q in range(nd):
        rng = ctx.rng
        base = gen_case(rng, q, True)
        if base['shape'][0] * base['shape'][1] > 60:
            continue
        for nme in base['names']:
            base['layers'][nme]['layout'] = 'C'
        base['coords'] = rng.choice(['asc', 'desc'])
        ds = make_dataset(base)
        c0 = snapshot_case(base, ds)
        ctx.count('derived/%s' % base['fn'])
        check_case(ctx, local, c0, pending, ds=ds, extra={'step_what': 'first call'})
        check_case(ctx, local, c0, pending, ds=ds, extra={'step_what': 'the same call repeated'})
        d, cd, kind = derive(rng, ds, c0)
        check_case(ctx, local, cd, pending, ds=d, extra={'step_what': 'call on a dataset derived by %s from an already processed one' % kind})
        # interleave other arguments on the original object, then the original call again
        alt = dict(c0)
        if alt['fn'] == 'cell_stats':
            alt['stat'] = rng.choice([st for st in STATS if st != c0['stat']])
            alt.pop('stat_default', None)
        else:
            dv = selected_vars(alt)
            alt['data_vars'] = list(reversed(dv)) if len(dv) > 1 else dv
        check_case(ctx, local, alt, pending, ds=ds, extra={'step_what': 'interleaved call with other arguments on the same object'})
        check_case(ctx, local, c0, pending, ds=ds, extra={'step_what': 'original call again after derived / interleaved calls'})
        after = snapshot_case(base, ds)
        if not same_values(c0, after):
            ctx.violation('oracle', '%s modified its input dataset' % base['fn'], dict(c0))


def flush_model(ctx, local, pending):
    if ctx.model is None or not pending:
        return
    outs = ctx.model.run([p[0] for p in pending])
    for (line, s, res, case, had_oracle), mo in zip(pending, outs):
        ctx.traces += 1
        d = compare_model(case, res, mo, s)
        if d is not None:
            key = classify_violation(local, case, res, d) if had_oracle else None
            ctx.violation('correspondence', '%s: %s' % (case['fn'], d), dict(case, result=res, model=mo[:400]), key=key)


def run(ctx):
    local = _impl()
    n = 2700 if ctx.quick() else 40000
    pending = []
    for i in range(n):
        case = gen_case(ctx.rng, i, ctx.quick())
        check_case(ctx, local, case, pending)
        if len(pending) >= 500:
            flush_model(ctx, local, pending)
            pending = []
    flush_model(ctx, local, pending)
    pending = []
    run_sequences(ctx, local, pending)
    flush_model(ctx, local, pending)
    pending = []
    run_themes(ctx, local, pending)
    flush_model(ctx, local, pending)
    ctx.exhaustive = False


def search(ctx):
    old = ctx.tier
    model = ctx.model
    ctx.tier = 'thorough'
    ctx.model = None
    try:
        run(ctx)
    finally:
        ctx.tier = old
        ctx.model = model


def replay_case(ctx, case):
    local = _impl()
    seq = case.get('sequence')
    case = {k: v for k, v in case.items() if k not in ('result', 'model', 'sequence', 'sequence_what', 'step', 'step_what')}
    pending = []
    if seq:
        # re-run the whole sequence on ONE Dataset object, editing it in place between the calls
        ds = make_dataset(seq[0])
        for k, st in enumerate(seq):
            st = {kk: v for kk, v in st.items() if kk not in ('result', 'model')}
            if k > 0:
                for n in st['names']:
                    new = make_array(st['layers'][n], True)
                    old = np.asarray(ds[n].values)
                    if old.dtype == new.dtype and old.shape == new.shape:
                        diff = np.argwhere(~((old == new) | (np.isnan(old.astype('float64')) & np.isnan(new.astype('float64')))))
                        if 0 < len(diff) <= 4:
                            for y, x in diff:
                                ds[n].values[y, x] = new[y, x]
                        elif len(diff):
                            ds[n] = (('y', 'x'), new)
                    else:
                        ds[n] = (('y', 'x'), new)
            check_case(ctx, local, st, pending, ds=ds, extra={'step': k, 'step_what': 'replayed step %d' % k, 'sequence': seq[:k + 1]})
        flush_model(ctx, local, pending)
        return
    check_case(ctx, local, case, pending)
    flush_model(ctx, local, pending)
