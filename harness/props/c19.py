"""C19 — distance metrics are metrics; circle/annulus kernels are the stated shapes; radius strings.
Correspondence: xrspatial.proximity.{euclidean,manhattan,great_circle}_distance and
xrspatial.convolution.{_get_distance,calc_cellsize,_ellipse_kernel,circle_kernel,annulus_kernel}
vs the extracted Coq model coq/C19/Model.v (bit-for-bit on floats); oracle: the property text with exact arithmetic."""
import ast
import math
import os
from fractions import Fraction

import numpy as np
import xarray as xr

ID = 'C19'
OCAML_UTILS = ['zio.ml']
OCAML_PACKAGES = ['coq-core.kernel']
OCAML_FLAGS = '-rectypes -thread'
RULE = ('metrics: point pairs/triples on the plane (integers, dyadic fractions, random doubles, large (1e12, 1e100) and tiny magnitudes, signed '
        'zeros, 2**53 neighbours, Python-int arguments, ')
RULE += ('sphere points incl. signed zeros, 1e-300, integer arguments, radii 0 .. 1e12; numeric radii from 1e-7 to 2.5e17 (exponent-form str), '
         'NumPy-scalar radii, integer cell sizes; calc_cellsize with res as tuple / list / ndarray / ints, band axis, renamed dims, descending x, '
         'uneven spacing, rasters up to 257x300; ')
RULE += (''
        'coincident and collinear points) and on the sphere (poles, antimeridian, antipodes, coincident / nearly coincident points, '
        'random), plus out-of-range and NaN coordinates; kernels: _ellipse_kernel for all half-width pairs up to a bound (hw != hh '
        'included), circle_kernel / annulus_kernel with non-square cell sizes, radii that are not multiples of the cell size, radii '
        'given as int / float / string with every unit; _get_distance: a grammar-based generator (valid number[unit] strings with '
        'every table unit in random case / spacing, and each error class: empty, text only, leading/trailing blanks, sign, zero, '
        'two numbers, exponent / comma notation, unknown unit, inf/nan words, overflow/underflow numerals); calc_cellsize: res '
        'attribute (pair / scalar / negative y) or coordinates, every unit, unknown unit. A case is non-trivial when the inputs are '
        'finite; distinct by JSON encoding.')
TRUSTED = [
    'IEEE binary64 + - * / sqrt abs and comparisons of Coq PrimFloat (extracted to OCaml floats via ExtrOCamlFloats) are the '
    'arithmetic of the Numba-compiled metric functions and of CPython floats',
    'libm sin / cos / asin (OCaml Stdlib = CPython math = Numba here, bit-identical on this machine), math.pi/180, Python float() on a '
    'token matching -?\\d*\\.?\\d+ (OCaml float_of_string, both correctly rounded) and int() truncation (OCaml int_of_float) are '
    'Section variables of the model supplied by the driver',
    'np.linspace(-h, h, 2h+1) yields the integers -h..h exactly and the float comparison in _ellipse_kernel is exact for the '
    'half-widths explored (< 2^26); np.pad / array subtraction are modelled as list operations',
    're.split(r\'(-?\\d*\\.?\\d+)\') is modelled at character level for ASCII input (greedy with backtracking: longest digit run, '
    'optional .digits); str(radius) for numeric radii is Python\'s',
    'Print Assumptions lists PrimFloat.float (the primitive binary64 type) for theorems that mention the generated float table',
    'C19_euclidean_is_metric_over_R, C19_great_circle_range and C19_great_circle_range_real_functions use the Coq standard library real '
    'numbers: axioms ClassicalDedekindReals.sig_forall_dec, ClassicalDedekindReals.sig_not_dec, '
    'FunctionalExtensionality.functional_extensionality_dep, and Classical_Prop.classic for C19_great_circle_range_real_functions only; all other theorems are '
    'axiom-free (the Euclidean triangle inequality is also proved sqrt-free over Z without axioms)',
    'C19_great_circle_range is about the formula with exact real + - * / sqrt and ARBITRARY sin / cos / asin / pi satisfying its stated '
    'premises (Pythagoras, cos addition formulas, cos >= 0 on [-pi/2, pi/2], asin[0,1] within [0, pi/2]); that libm satisfies them up to '
    'rounding is not proved — the rounded float results are covered by the oracle (d in [0, pi R (1+1e-15)], no NaN at antipodes)',
]
ASSUMPTIONS = ['ASCII distance strings (Python \\d and float() also accept other Unicode digits)',
               'positive finite cell sizes; Python float / int (binary64 / int64) arguments to the metric functions — np.float32 arguments make Numba compile a float32 '
               'signature (not modelled), integer coordinate differences beyond 3.03e9 overflow int64 in x*x (not explored)',
               'the model is the behaviour after fixes/C19-radius-positional-str.diff (numeric radii written positionally) and fixes/C19-unit-mile.diff',
               'the model is the behaviour after fixes/C19-manhattan-unsigned-wrap.diff (the smaller coordinate is subtracted from the larger)',
               'the model is the behaviour after fixes/C19-get-distance-finite.diff (nan / inf distances rejected)',
               'coordinates away from the subnormal range for "zero iff coincident" (x*x underflows below ~1e-162)']
PARTIAL = [
    'large kernels (half sizes 150..2047, anisotropic pairs such as (600,40), big annuli): the theorems cover all sizes; the extracted model is '
    'compared cell-for-cell only up to 200000 cells per kernel, larger ones are checked by the exact Python-integer oracle only',
    'that great-circle distance is radius x central angle is checked by the oracle for the radius actually passed (central angle from the '
    'unit vectors with atan2, tolerance 4e-8 rad: the haversine formula loses ~sqrt(eps) near antipodes); the Coq theorem is the range '
    '0 <= d <= pi * radius only',
    'great-circle triangle inequality: not proved in Coq (spherical trigonometry; stated in the property, unclaimed); checked by the '
    'oracle on generated triples incl. poles / antimeridian / antipodes / local triples with tolerance',
    'the bound 0 <= d <= pi*R is proved for the real-arithmetic formula under explicit premises on sin/cos/asin (and for the real functions '
    'of the standard library), not for the rounded binary64 evaluation',
    'great-circle symmetry is proved for the formula over any arithmetic in which subtraction is antisymmetric, halving and sin are odd '
    'and multiplication commutes (visible hypotheses), and is checked bit-for-bit on floats by the oracle',
    'Euclidean / Manhattan metric axioms are proved for the exact formulas (R, Z); there is no theorem about the rounded float results '
    '(the triangle inequality can fail by an ulp in floats; the oracle allows 4 ulp)',
    '_get_distance: the tokenizer is proved lossless and terminating, and the accept/reject decision is characterised in terms of its '
    'token list; completeness for the grammar number[unit] is proved for unit suffixes without digits, dots and minus signs',
    'calc_cellsize: the choice of resolution (attrs res pair / scalar / coordinates), default unit and table conversion are proved for the '
    'model in any arithmetic and at the exact Q instance; how xarray stores attrs / coordinate min-max (xrspatial.utils, isinstance tests on '
    'the res attribute) is modelled by the res_attr case distinction made in the harness and tied by the cellsize_full correspondence',
]
LEVEL_TEXT = ('Proved for all inputs (Coq; axiom-free except the one theorem over R): Manhattan distance over Z is a metric (symmetric, zero iff coincident, triangle '
              'inequality); the Euclidean formula over R is a metric (stdlib real axioms) and its square over Z satisfies the sqrt-free triangle '
              'inequality axiom-free; the great-circle range validation is exactly the decision rule |lon|<=180, |lat|<=90 (bounds generated from the '
              'source) and the haversine term is symmetric under exchanging the points; for ALL half-widths the ellipse kernel has odd '
              'shape (2hh+1)x(2hw+1), equals the ellipse mask, is symmetric under both flips, has centre 1, and the annulus is outer minus '
              'the centred inner kernel with every cell in {0,1}; the distance-string tokenizer is lossless/terminating and _get_distance '
              'accepts exactly number[unit] with a positive finite number and a table unit, returning number x factor; the generated UNITS '
              'table has the stated factors; great-circle distance lies in [0, pi R] for in-range coordinates (real arithmetic, explicit premises on '
              'sin/cos/asin, discharged for the real functions); calc_cellsize uses attrs res (pair/scalar) else (max-min)/(n-1), converts through '
              'the table, never returns a negative y size and yields the spacing for evenly spaced coordinates. Float results of all functions '
              'are compared bit-for-bit with the extracted model; the spherical triangle inequality is oracle-only.')
RULE += (' Large-kernel stream: _ellipse_kernel at (181,181), (182,182), (250,250), a random isotropic size in 150..400, (600,40), (40,600), '
         '(1000,33), (33,1000), (2047,17), circle_kernel with radii 250 / 0.25 km / 820 ft / 0.2 miles / random ft, km, miles on unit, 0.3048, '
         '2, 30 and anisotropic (0.5 x 8, 1 x 25) cells, annuli with outer half sizes 300..500 — each compared cell-for-cell with a mask built '
         'from Python-integer arithmetic (isqrt per row).')
RULE += (' Theme streams: NumPy-scalar arguments (float64/int64 bit-for-bit, float32/int32/int16/uint8 with precision-aware oracle), interleaved '
         'argument types, 2**-30..2**-120 magnitudes, radii equal to and one ulp around whole multiples of the cell size with float / np.float64 / '
         'np.float32 / int cell sizes, kernel call sequences (repeat, caller edits the returned array, other parameters in between), radius < cell, '
         'calc_cellsize on F / strided / read-only / dask-chunked rasters, strided and reversed coordinate views, lat/lon dims, large / tiny / '
         'negative / fractional spacing, derived rasters (copy, strided slice, assign_coords, astype, reversed) judged on their own attrs and '
         'coordinates, repeated calls, attrs and coordinates unchanged, 1x1 / 1xN / Nx1 with a res attribute.')
LEVEL_NOTE = ('Correspondence with the extracted model at large kernel sizes is limited to 200000 cells per kernel (cost); beyond that the '
              'exact-integer oracle is the only check. Trusted: Coq kernel, extraction incl. ExtrOCamlFloats, OCaml libm and float parsing, the harness; NumPy linspace/pad '
              'semantics as modelled.')

KEY_NANINF = 'get-distance-accepts-nan-inf'
KEY_MILE = 'unit-mile-rejected'
KEY_EXP = 'circle-kernel-exponent-radius'
KEY_UNSIGNED = 'manhattan-unsigned-args-wrap'
# property text: "radius strings in metres, kilometres, feet or miles convert to metres" — written independently of the source
ORACLE_UNITS = {'meter': '1', 'meters': '1', 'm': '1', 'foot': '0.3048', 'feet': '0.3048', 'ft': '0.3048',
                'mile': '1609.344', 'miles': '1609.344', 'mls': '1609.344', 'ml': '1609.344',
                'kilometer': '1000', 'kilometers': '1000', 'km': '1000'}


# ---------------------------------------------------------------------------
# facts translator (fail closed): range bounds of great_circle_distance, DEFAULT_UNIT, UNITS
# ---------------------------------------------------------------------------
def _const(node, env):
    if isinstance(node, ast.Constant) and isinstance(node.value, (int, float, str)) and not isinstance(node.value, bool):
        return node.value
    if isinstance(node, ast.UnaryOp) and isinstance(node.op, ast.USub):
        v = _const(node.operand, env)
        if isinstance(v, (int, float)):
            return -v
    if isinstance(node, ast.Name) and node.id in env:
        return env[node.id]
    raise ValueError('unrecognised constant expression: %s' % ast.dump(node))


def _chars(s):
    for ch in s:
        if not (32 <= ord(ch) < 127) or ch == '"':
            raise ValueError('non-ASCII unit name %r' % s)
    return '[' + '; '.join('"%s"%%char' % ch for ch in s) + ']'


def read_units(repo):
    src = open(os.path.join(repo, 'xrspatial', 'convolution.py')).read()
    tree = ast.parse(src)
    env = {}
    units = None
    for st in tree.body:
        if isinstance(st, ast.Assign) and len(st.targets) == 1 and isinstance(st.targets[0], ast.Name):
            name = st.targets[0].id
            if name == 'UNITS':
                if not isinstance(st.value, ast.Dict):
                    raise ValueError('UNITS is not a dict literal')
                units = []
                for k, v in zip(st.value.keys, st.value.values):
                    kk = _const(k, env)
                    vv = _const(v, env)
                    if not isinstance(kk, str) or not isinstance(vv, (int, float)):
                        raise ValueError('UNITS entry %r: %r' % (kk, vv))
                    units.append((kk, vv))
            elif name in ('DEFAULT_UNIT', 'METER', 'FOOT', 'KILOMETER', 'MILE'):
                env[name] = _const(st.value, env)
    if units is None or not isinstance(env.get('DEFAULT_UNIT'), str):
        raise ValueError('UNITS / DEFAULT_UNIT not found')
    if len({k for k, _ in units}) != len(units):
        raise ValueError('duplicate key in UNITS')
    return env['DEFAULT_UNIT'], units


def facts(repo):
    src = open(os.path.join(repo, 'xrspatial', 'proximity.py')).read()
    tree = ast.parse(src)
    fn = [n for n in tree.body if isinstance(n, ast.FunctionDef) and n.name == 'great_circle_distance']
    if len(fn) != 1:
        raise ValueError('great_circle_distance not found')
    fn = fn[0]
    args = [a.arg for a in fn.args.args]
    if args != ['x1', 'x2', 'y1', 'y2', 'radius']:
        raise ValueError('great_circle_distance signature changed: %r' % args)
    body = [s for s in fn.body if not (isinstance(s, ast.Expr) and isinstance(s.value, ast.Constant))]
    ifs = []
    for st in body:
        if isinstance(st, ast.If):
            ifs.append(st)
        else:
            break
    if len(ifs) != 4:
        raise ValueError('expected 4 leading range checks in great_circle_distance, found %d' % len(ifs))
    bounds = {}
    order = []
    for st in ifs:
        t = st.test
        if not (isinstance(t, ast.BoolOp) and isinstance(t.op, ast.Or) and len(t.values) == 2 and not st.orelse
                and len(st.body) == 1 and isinstance(st.body[0], ast.Raise)):
            raise ValueError('range check has an unexpected shape: %s' % ast.dump(t))
        a, b = t.values
        for c in (a, b):
            if not (isinstance(c, ast.Compare) and len(c.ops) == 1 and isinstance(c.left, ast.Name)):
                raise ValueError('range check comparison has an unexpected shape')
        if not (isinstance(a.ops[0], ast.Gt) and isinstance(b.ops[0], ast.Lt) and a.left.id == b.left.id):
            raise ValueError('range check is not `v > hi or v < lo`')
        hi = _const(a.comparators[0], {})
        lo = _const(b.comparators[0], {})
        if not (isinstance(hi, int) and isinstance(lo, int)):
            raise ValueError('non-integer bound')
        bounds[a.left.id] = (hi, lo)
        order.append(a.left.id)
    if order != ['x1', 'x2', 'y1', 'y2']:
        raise ValueError('range checks in unexpected order %r' % order)
    default_unit, units = read_units(repo)
    out = ['(* GENERATED by harness/props/c19.py facts() from xrspatial/proximity.py and xrspatial/convolution.py — do not edit *)',
           'Require Import Base.Prelude.', 'From Coq Require Import Ascii PrimFloat.', 'Open Scope Z_scope.']
    for v in order:
        out.append('Definition gc_%s_hi : Z := %d.' % (v, bounds[v][0]))
        out.append('Definition gc_%s_lo : Z := (%d).' % (v, bounds[v][1]))
    out.append('Definition default_unit : list ascii := %s.' % _chars(default_unit))
    out.append('Definition units_table : list (list ascii * float) :=\n  [' +
               ';\n   '.join('(%s, %s%%float)' % (_chars(k), float(v).hex()) for k, v in units) + '].')
    out.append('(* the same table with the factors as exact decimal fractions num/den of the source literals *)')
    out.append('Definition units_table_q : list (list ascii * (Z * Z)) :=\n  [' +
               ';\n   '.join('(%s, (%d, %d))' % (_chars(k), Fraction(repr(v)).numerator, Fraction(repr(v)).denominator)
                             for k, v in units) + '].')
    return {'GeneratedFacts.v': '\n'.join(out) + '\n'}


# ---------------------------------------------------------------------------
# helpers
# ---------------------------------------------------------------------------
def _impl():
    import importlib
    return importlib.import_module('xrspatial.proximity'), importlib.import_module('xrspatial.convolution')


def hx(v):
    return float(v).hex()


def sx(s):
    return 's:' + s.encode('latin-1').hex()


def fromhex(t):
    return float.fromhex(t)


def same_float(a, b):
    return (a != a and b != b) or a == b


def jf(v):
    """json-able float"""
    if isinstance(v, float) and (v != v or math.isinf(v)):
        return repr(v)
    return v


def ulp(x):
    return math.ulp(x) if hasattr(math, 'ulp') else abs(x) * 2.0 ** -52


def call(f, *a):
    try:
        return ('ok', f(*a))
    except Exception as e:  # noqa
        return ('exc', type(e).__name__, str(e)[:120])


# ---------------------------------------------------------------------------
# 1. planar metrics
# ---------------------------------------------------------------------------
def gen_plane_point(rng, kind):
    if kind == 'int':
        return (float(rng.randint(-9, 9)), float(rng.randint(-9, 9)))
    if kind == 'dyadic':
        return (rng.randint(-64, 64) / 8.0, rng.randint(-64, 64) / 8.0)
    if kind == 'big':
        return (rng.uniform(-1, 1) * 1e12, rng.uniform(-1, 1) * 1e12)
    if kind == 'small':
        return (rng.uniform(-1, 1) * 1e-6, rng.uniform(-1, 1) * 1e-6)
    if kind == 'intargs':        # Python ints: Numba compiles an integer signature (manhattan then returns an int)
        return (rng.randint(-1000, 1000), rng.randint(-1000, 1000))
    if kind == 'huge':           # squares near 1e200, still finite
        return (rng.uniform(-1, 1) * 1e100, rng.uniform(-1, 1) * 1e100)
    if kind == 'axes':           # zeros, signed zeros, points on the axes, exact 2**53 neighbours
        return (rng.choice([0.0, -0.0, 1.0, -1.0, 2.0 ** 53, -(2.0 ** 53), 2.0 ** 53 - 1, 0.5, 1e-300]),
                rng.choice([0.0, -0.0, 1.0, -1.0, 2.0 ** 53, 3.0, 1e-300]))
    return (rng.uniform(-1000, 1000), rng.uniform(-1000, 1000))


def plane_oracle(name, f, A, B, C):
    """metric axioms on the implementation's float results; exact reference with Fractions"""
    def d(P, Q):
        return f(P[0], Q[0], P[1], Q[1])
    dab, dba, dbc, dac, daa = d(A, B), d(B, A), d(B, C), d(A, C), d(A, A)
    if dab != dba:
        return '%s not symmetric: d(A,B)=%r d(B,A)=%r for A=%r B=%r' % (name, dab, dba, A, B)
    if daa != 0:
        return '%s: d(A,A)=%r for A=%r' % (name, daa, A)
    tiny = name == 'euclidean' and max(abs(A[0] - B[0]), abs(A[1] - B[1])) < 1e-150       # x*x underflows: stated assumption
    if (dab == 0) != (A == B) and not tiny:
        return '%s: d(A,B)=%r but A=%r B=%r (zero iff coincident)' % (name, dab, A, B)
    if dab < 0:
        return '%s negative: %r' % (name, dab)
    ex = [Fraction(v) for v in (A[0], A[1], B[0], B[1])]
    dx, dy = ex[0] - ex[2], ex[1] - ex[3]
    if name == 'manhattan':
        exact = abs(dx) + abs(dy)
        if abs(Fraction(dab) - exact) > 3 * Fraction(ulp(dab)):
            return 'manhattan d(A,B)=%r differs from |dx|+|dy|=%r for A=%r B=%r' % (dab, float(exact), A, B)
    else:
        exact2 = dx * dx + dy * dy
        lo = Fraction(dab) - 3 * Fraction(ulp(dab))
        hi = Fraction(dab) + 3 * Fraction(ulp(dab))
        if not tiny and not (max(lo, 0) ** 2 <= exact2 <= hi ** 2):
            return 'euclidean d(A,B)=%r: d^2 differs from dx^2+dy^2=%r for A=%r B=%r' % (dab, float(exact2), A, B)
    slack = 4 * ulp(dab + dbc)
    if dac > dab + dbc + slack:
        return '%s triangle inequality: d(A,C)=%r > d(A,B)+d(B,C)=%r for A=%r B=%r C=%r' % (name, dac, dab + dbc, A, B, C)
    return None


def run_plane(ctx, prox, lines, cmp):
    n = 1500 if ctx.quick() else 20000
    kinds = ['int', 'dyadic', 'rand', 'big', 'small', 'intargs', 'huge', 'axes']
    for i in range(n):
        rng = ctx.rng
        kind = kinds[i % len(kinds)]
        A = gen_plane_point(rng, kind)
        B = gen_plane_point(rng, kind)
        C = gen_plane_point(rng, kind)
        mode = rng.random()
        if mode < 0.12:
            B = A
        elif mode < 0.2:
            C = (A[0] + 2 * (B[0] - A[0]), A[1] + 2 * (B[1] - A[1]))     # collinear (ints stay ints)
        elif mode < 0.25:
            B = (A[0], B[1])
        for name, f in (('euclidean', prox.euclidean_distance), ('manhattan', prox.manhattan_distance)):
            case = {'family': 'plane', 'metric': name, 'A': list(A), 'B': list(B), 'C': list(C), 'kind': kind}
            ctx.case(case)
            ctx.count('plane/%s/%s' % (name, kind))
            w = plane_oracle(name, f, A, B, C)
            if w:
                ctx.violation('oracle', w, case)
            for P, Q in ((A, B), (B, C), (A, C)):
                lines.append('%s %s %s %s %s' % ('euclid' if name == 'euclidean' else 'manhattan', hx(P[0]), hx(Q[0]), hx(P[1]), hx(Q[1])))
                cmp.append(('float', float(f(P[0], Q[0], P[1], Q[1])), dict(case, pair=[list(P), list(Q)])))


# ---------------------------------------------------------------------------
# 2. great circle
# ---------------------------------------------------------------------------
R_EARTH = 6378137.0


def gen_sphere_point(rng, kind):
    if kind == 'pole':
        return (rng.choice([0.0, 37.5, -120.0, 180.0, -180.0, rng.uniform(-180, 180)]), rng.choice([90.0, -90.0]))
    if kind == 'antimeridian':
        return (rng.choice([180.0, -180.0, 179.999999, -179.999999]), rng.uniform(-90, 90))
    if kind == 'grid':
        return (float(rng.randrange(-180, 181, 15)), float(rng.randrange(-90, 91, 15)))
    if kind == 'zeros':
        return (rng.choice([0.0, -0.0, 180.0, -180.0, 1e-300, -1e-300, 90.0]), rng.choice([0.0, -0.0, 1e-300, 90.0, -90.0, 45.0]))
    return (rng.uniform(-180, 180), rng.uniform(-90, 90))


def antipode(P):
    lon = P[0] - 180.0 if P[0] > 0 else P[0] + 180.0
    return (lon, -P[1])


def gc_call(prox, P, Q, radius=None):
    try:
        if radius is None:
            return ('ok', float(prox.great_circle_distance(P[0], Q[0], P[1], Q[1])))
        return ('ok', float(prox.great_circle_distance(P[0], Q[0], P[1], Q[1], radius)))
    except ValueError as e:
        return ('exc', 'ValueError', str(e)[:60])
    except Exception as e:  # noqa
        return ('exc', type(e).__name__, str(e)[:60])


def in_range(P):
    return -180 <= P[0] <= 180 and -90 <= P[1] <= 90


def sphere_oracle(prox, A, B, C):
    pts = {'A': A, 'B': B, 'C': C}
    res = {}
    for a, b in (('A', 'B'), ('B', 'A'), ('B', 'C'), ('A', 'C'), ('A', 'A')):
        res[a + b] = gc_call(prox, pts[a], pts[b])
    for k, r in res.items():
        P, Q = pts[k[0]], pts[k[1]]
        nan_in = any(v != v for v in P + Q)
        if nan_in:
            continue
        ok = in_range(P) and in_range(Q)
        if ok and r[0] != 'ok':
            return 'great_circle rejected in-range points %r %r: %r' % (P, Q, r)
        if not ok and not (r[0] == 'exc' and r[1] == 'ValueError'):
            return 'great_circle accepted out-of-range point(s) %r %r: %r' % (P, Q, r)
    if not all(in_range(p) for p in (A, B, C)) or any(v != v for p in (A, B, C) for v in p):
        return None
    dab, dba, dbc, dac, daa = [res[k][1] for k in ('AB', 'BA', 'BC', 'AC', 'AA')]
    for nm, v in (('d(A,B)', dab), ('d(B,C)', dbc), ('d(A,C)', dac)):
        if v != v:
            return 'great_circle %s is NaN for in-range points A=%r B=%r C=%r' % (nm, A, B, C)
        if v < 0 or v > math.pi * R_EARTH * (1 + 1e-15):
            return 'great_circle %s=%r outside [0, pi*R] for A=%r B=%r C=%r' % (nm, v, A, B, C)
    if dab != dba:
        return 'great_circle not symmetric: %r vs %r for A=%r B=%r' % (dab, dba, A, B)
    if daa != 0:
        return 'great_circle d(A,A)=%r for A=%r' % (daa, A)
    # asin near 1 amplifies rounding to ~R*sqrt(eps) for far-apart points; for local triples (all within 1 km) the
    # haversine formula is accurate to nanometres, so the inequality is checked to 1e-9*R (6 mm) there
    tol = 2e-7 * R_EARTH if max(dab, dbc, dac) > 1000.0 else 1e-9 * R_EARTH
    if dac > dab + dbc + tol:
        return 'great_circle triangle inequality: d(A,C)=%r > d(A,B)+d(B,C)=%r for A=%r B=%r C=%r' % (dac, dab + dbc, A, B, C)
    same_place = (A == B) or (abs(A[1]) == 90 and A[1] == B[1]) or \
        (A[1] == B[1] and {A[0], B[0]} == {180.0, -180.0})
    if dab == 0 and not same_place and max(abs(A[0] - B[0]), abs(A[1] - B[1])) > 1e-6:
        return 'great_circle d(A,B)=0 for distinct points A=%r B=%r' % (A, B)
    if same_place and dab > tol:
        return 'great_circle d(A,B)=%r for coincident places A=%r B=%r' % (dab, A, B)
    return None


def central_angle(P, Q):
    """angle between the two points seen from the sphere's centre, from the unit vectors (atan2 of |n1 x n2| and n1 . n2:
    well conditioned everywhere, independent of the haversine formula)"""
    l1, p1, l2, p2 = (math.radians(v) for v in (P[0], P[1], Q[0], Q[1]))
    n1 = (math.cos(p1) * math.cos(l1), math.cos(p1) * math.sin(l1), math.sin(p1))
    n2 = (math.cos(p2) * math.cos(l2), math.cos(p2) * math.sin(l2), math.sin(p2))
    cx = (n1[1] * n2[2] - n1[2] * n2[1], n1[2] * n2[0] - n1[0] * n2[2], n1[0] * n2[1] - n1[1] * n2[0])
    return math.atan2(math.sqrt(cx[0] ** 2 + cx[1] ** 2 + cx[2] ** 2), n1[0] * n2[0] + n1[1] * n2[1] + n1[2] * n2[2])


def radius_oracle(P, Q, radius, r):
    """property text for the radius actually passed: 0 <= d <= pi * radius, and d is radius x central angle"""
    if r[0] != 'ok' or not (in_range(P) and in_range(Q)) or any(v != v for v in P + Q) or not (radius >= 0) or math.isinf(radius):
        return None
    d = r[1]
    if d != d:
        return 'great_circle(radius=%r) is NaN for in-range points %r %r' % (radius, P, Q)
    if d < 0 or d > math.pi * radius * (1 + 1e-15):
        return 'great_circle(radius=%r) = %r is outside [0, pi*radius = %r] for %r %r' % (radius, d, math.pi * radius, P, Q)
    exp = radius * central_angle(P, Q)
    if abs(d - exp) > radius * 4e-8 + abs(exp) * 1e-12:        # haversine loses ~sqrt(eps) rad near antipodes
        return 'great_circle(radius=%r) = %r is not radius x central angle = %r for %r %r' % (radius, d, exp, P, Q)
    return None


def run_sphere(ctx, prox, lines, cmp):
    n = 2000 if ctx.quick() else 30000
    kinds = ['rand', 'pole', 'antimeridian', 'grid', 'zeros']
    for i in range(n):
        rng = ctx.rng
        A = gen_sphere_point(rng, kinds[i % 5])
        B = gen_sphere_point(rng, kinds[(i // 5) % 5])
        C = gen_sphere_point(rng, kinds[(i // 25) % 5])
        mode = rng.random()
        tag = 'general'
        if mode < 0.15:
            B = antipode(A); tag = 'antipodes'
        elif mode < 0.25:
            B = A; tag = 'coincident'
        elif mode < 0.32:
            B = (A[0] + rng.uniform(-1e-7, 1e-7), max(-90.0, min(90.0, A[1] + rng.uniform(-1e-7, 1e-7)))); tag = 'near'
            if not in_range(B):
                B = A
        elif mode < 0.40:
            C = antipode(B); tag = 'antipodes'
        elif mode < 0.47 and in_range(A) and abs(A[1]) < 89.0 and abs(A[0]) < 179.0:
            # local triple: B is the midpoint of A and C, centimetres to metres apart (cancellation-prone range)
            d = rng.choice([1e-7, 1e-6, 3e-6, 1e-5, 1e-4])
            u, v = rng.uniform(-1, 1), rng.uniform(-1, 1)
            C = (A[0] + 2 * d * u, A[1] + 2 * d * v)
            B = (A[0] + d * u, A[1] + d * v)
            tag = 'local'
        elif mode < 0.52:
            bad = rng.choice([180.00000000000003, -180.00000000000003, 181.0, -200.0, 360.0, float('inf'), float('-inf')])
            badlat = rng.choice([90.00000000000001, -90.00000000000001, 91.0, -120.0, 180.0, float('inf')])
            w = rng.randrange(4)
            if w == 0:
                A = (bad, A[1])
            elif w == 1:
                B = (bad, B[1])
            elif w == 2:
                A = (A[0], badlat)
            else:
                B = (B[0], badlat)
            tag = 'out-of-range'
        elif mode < 0.55:
            A = (float('nan'), A[1]); tag = 'nan'
        case = {'family': 'sphere', 'A': [jf(v) for v in A], 'B': [jf(v) for v in B], 'C': [jf(v) for v in C], 'tag': tag}
        ctx.case(case, nontrivial=(tag != 'nan'))
        ctx.count('sphere/%s' % tag)
        w = sphere_oracle(prox, A, B, C)
        if w:
            ctx.violation('oracle', w, case)
        radius = R_EARTH if i % 3 == 0 else float(rng.choice([1.0, 1737400.0, 3389500.0, 6371008.8, 0.0, 1e-3, 1e12, 0.5, 6378137.0 * 2]))
        for P, Q in ((A, B), (B, C), (A, C)):
            rr = gc_call(prox, P, Q, radius)
            w = radius_oracle(P, Q, radius, rr)
            if w:
                ctx.violation('oracle', w, dict(case, pair=[[jf(v) for v in P], [jf(v) for v in Q]], radius=radius))
            lines.append('gc %s %s %s %s %s' % (hx(P[0]), hx(Q[0]), hx(P[1]), hx(Q[1]), hx(radius)))
            cmp.append(('gc', rr, dict(case, pair=[[jf(v) for v in P], [jf(v) for v in Q]], radius=radius)))


def run_sphere_int_args(ctx, prox, lines, cmp):
    """integer longitudes / latitudes (Numba compiles an integer signature; np.radians converts)"""
    for i in range(40 if ctx.quick() else 400):
        rng = ctx.rng
        pts = [(rng.randrange(-180, 181, 15), rng.randrange(-90, 91, 15)) for _ in range(3)]
        if i % 5 == 0:
            pts[1] = (rng.choice([181, -181, 360]), pts[1][1]) if i % 10 == 0 else (pts[1][0], rng.choice([91, -91, 180]))
        A, B, C = pts
        case = {'family': 'sphere', 'A': list(A), 'B': list(B), 'C': list(C), 'tag': 'int-args'}
        ctx.case(case)
        ctx.count('sphere/int-args')
        w = sphere_oracle(prox, A, B, C)
        if w:
            ctx.violation('oracle', w, case)
        for P, Q in ((A, B), (B, C), (A, C)):
            lines.append('gc %s %s %s %s %s' % (hx(P[0]), hx(Q[0]), hx(P[1]), hx(Q[1]), hx(R_EARTH)))
            cmp.append(('gc', gc_call(prox, P, Q), dict(case, pair=[list(P), list(Q)])))


GC_ERR = {'first point': {'x': 'BadX1', 'y': 'BadY1'}, 'second point': {'x': 'BadX2', 'y': 'BadY2'}}


def gc_err_class(msg):
    ax = 'x' if 'x-coordinate' in msg else 'y'
    return GC_ERR['first point' if 'first point' in msg else 'second point'][ax]


# ---------------------------------------------------------------------------
# 3. distance strings
# ---------------------------------------------------------------------------
def dist_err_class(msg):
    if msg.startswith('Invalid distance'):
        return 'invalid'
    if msg.startswith('Distance should be a positive'):
        return 'number'
    if msg.startswith('Distance unit should be'):
        return 'unit'
    return 'other:' + msg[:30]


def gen_number(rng):
    k = rng.random()
    if k < 0.3:
        return str(rng.randint(1, 999))
    if k < 0.55:
        return '%d.%s' % (rng.randint(0, 99), ''.join(rng.choice('0123456789') for _ in range(rng.randint(1, 4))))
    if k < 0.7:
        return '.' + ''.join(rng.choice('0123456789') for _ in range(rng.randint(1, 3)))
    if k < 0.8:
        return '0' * rng.randint(1, 3) + str(rng.randint(1, 99))
    if k < 0.9:
        return str(rng.randint(1, 9)) + ''.join(rng.choice('0123456789') for _ in range(rng.randint(15, 25)))
    return '%d.%s' % (rng.randint(1, 9), ''.join(rng.choice('0123456789') for _ in range(rng.randint(16, 22))))


def decorate_unit(rng, u):
    out = ''
    for ch in u:
        if rng.random() < 0.3:
            ch = ch.upper()
        out += ch
        if rng.random() < 0.15:
            out += ' '
    return out


def gen_dist_string(rng, units):
    """(string, class tag)"""
    k = rng.random()
    num = gen_number(rng)
    unit = rng.choice(units)
    if k < 0.30:
        return num + rng.choice(['', ' ', '  ']) + decorate_unit(rng, unit), 'valid-unit'
    if k < 0.38:
        return num, 'valid-bare'
    if k < 0.44:
        return rng.choice(['0', '0.0', '.0', '000', '0.000']) + rng.choice(['', ' km', 'm']), 'zero'
    if k < 0.50:
        return '-' + num + rng.choice(['', ' km']), 'negative'
    if k < 0.56:
        return num + rng.choice([' mils', ' yard', 'kms', ' k', ' metre', ' .', '.', ' km.', 'm/s', ' km\n', '\tkm', ' -', '--']), 'bad-unit'
    if k < 0.60:
        return num + rng.choice([' ', '  ', '\n']), 'blank-unit'
    if k < 0.65:
        return rng.choice([' ', '\t', '+', 'about ', 'km ', '--', '- ']) + num + rng.choice(['', ' km']), 'leading-text'
    if k < 0.72:
        return num + rng.choice(['e3', 'E-2', ' 5', '-3', ' km 2', ',5', ' 1/2', '.5.5', 'x10']), 'two-numbers'
    if k < 0.76:
        return rng.choice(['', ' ', 'km', 'five', 'meter', '-', '.', '-.', 'e', '+']), 'no-number'
    if k < 0.82:
        return rng.choice(['inf', 'nan', 'Infinity', ' +inf ', '-inf', 'NaN', '+nan', 'inf km', 'infinity', ' nan']), 'inf-nan-word'
    if k < 0.86:
        return '9' * rng.randint(309, 330) + rng.choice(['', ' km']), 'overflow'
    if k < 0.90:
        return '0.' + '0' * rng.randint(324, 340) + '1' + rng.choice(['', ' km']), 'underflow'
    if k < 0.95:
        return num + '.' + rng.choice(['', 'km', ' km']), 'trailing-dot'
    return ''.join(rng.choice('0123456789.- kmft') for _ in range(rng.randint(1, 7))), 'random'


def parse_decimal(s, i):
    """longest prefix of s[i:] of the form -?digits*(.digits+)? | -?digits+ ; returns end index or None"""
    j = i
    if j < len(s) and s[j] == '-':
        j += 1
    k = j
    while k < len(s) and s[k] in '0123456789':
        k += 1
    if k + 1 < len(s) + 0 and s[k:k + 1] == '.' and k + 1 < len(s) and s[k + 1] in '0123456789':
        m = k + 1
        while m < len(s) and s[m] in '0123456789':
            m += 1
        return m
    if k > j:
        return k
    return None


def dist_oracle(s, units_tbl, default_unit):
    """property text: number [unit], number > 0 (finite), unit in the table -> number x factor; everything else rejected.
    returns ('ok', exact Fraction metres, float number) or ('reject', why)"""
    end = parse_decimal(s, 0)
    if end is None:
        return ('reject', 'does not start with a number')
    num, rest = s[:end], s[end:]
    if any(ch in '0123456789' for ch in rest):
        return ('reject', 'more than one number')
    try:
        val = float(num)
    except ValueError:
        return ('reject', 'not a number')
    if not (val > 0) or math.isinf(val):
        return ('reject', 'not a positive finite number')
    if rest == '':
        unit = default_unit
    else:
        unit = rest.lower().replace(' ', '')
    f = ORACLE_UNITS.get(unit)
    if f is None:
        if unit in dict(units_tbl) and unit not in ORACLE_UNITS:
            return ('ok', Fraction(val) * Fraction(repr(dict(units_tbl)[unit])), val)   # a unit the text does not name
        return ('reject', 'unknown unit %r' % unit)
    return ('ok', Fraction(val) * Fraction(f), val)


def check_dist(ctx, conv, s, tag, units_tbl, default_unit, lines, cmp):
    case = {'family': 'distance-string', 'string': s, 'tag': tag}
    ctx.case(case)
    ctx.count('dist/%s' % tag)
    r = call(conv._get_distance, s)
    exp = dist_oracle(s, units_tbl, default_unit)
    if r[0] == 'ok':
        v = float(r[1])
        if exp[0] != 'ok':
            key = KEY_NANINF if (v != v or math.isinf(v)) else None
            ctx.violation('oracle', '_get_distance(%r) returned %r but the string must be rejected (%s)' % (s, v, exp[1]),
                          dict(case, got=jf(v)), key=key)
        elif abs(Fraction(v) - exp[1]) > abs(exp[1]) * Fraction(1, 10 ** 15):
            ctx.violation('oracle', '_get_distance(%r) = %r, expected %r metres' % (s, v, float(exp[1])), dict(case, got=v))
    else:
        if r[1] != 'ValueError':
            ctx.violation('oracle', '_get_distance(%r) raised %s: %s (ValueError expected for a rejected distance)' % (s, r[1], r[2]), case)
        elif exp[0] == 'ok':
            end_ = parse_decimal(s, 0)
            ctx.violation('oracle', '_get_distance(%r) rejected a valid distance (%s), expected %r metres' % (s, r[2][:40], float(exp[1])), case,
                          key=KEY_MILE if s[end_:].lower().replace(' ', '') == 'mile' else None)
    lines.append('dist %s' % sx(s))
    cmp.append(('dist', r, case))


def run_dist(ctx, conv, lines, cmp):
    default_unit, units_tbl = read_units(os.environ.get('VERIF_REPO', '/repo'))
    units = [k for k, _ in units_tbl] + [k for k in ORACLE_UNITS if k not in dict(units_tbl)]
    # every unit, bare and spaced, once
    for u in units:
        for s in ('3' + u, '2.5 ' + u.upper(), '.25 ' + ' '.join(u)):
            check_dist(ctx, conv, s, 'valid-unit', units_tbl, default_unit, lines, cmp)
    n = 3000 if ctx.quick() else 60000
    for _ in range(n):
        s, tag = gen_dist_string(ctx.rng, units)
        check_dist(ctx, conv, s, tag, units_tbl, default_unit, lines, cmp)


# ---------------------------------------------------------------------------
# 4. kernels
# ---------------------------------------------------------------------------
def ellipse_mask_oracle(k, hw, hh):
    """property text: odd shape, 0/1 mask of the ellipse equation, symmetric under both flips, centre 1"""
    k = np.asarray(k)
    if k.shape != (2 * hh + 1, 2 * hw + 1):
        return 'kernel shape %r, expected odd shape %r' % (k.shape, (2 * hh + 1, 2 * hw + 1))
    for j in range(k.shape[0]):
        for i in range(k.shape[1]):
            x, y = i - hw, j - hh
            if hw > 0 and hh > 0:
                inside = x * x * hh * hh + y * y * hw * hw <= hw * hw * hh * hh      # (x/hw)^2 + (y/hh)^2 <= 1, cross-multiplied
            elif hw == 0 and hh == 0:
                inside = True
            elif hw == 0:
                inside = (x == 0) and abs(y) <= hh
            else:
                inside = (y == 0) and abs(x) <= hw
            if k[j, i] != (1.0 if inside else 0.0):
                return 'kernel cell (%d,%d) offset (%d,%d) is %r, ellipse equation says %d (hw=%d hh=%d)' % (j, i, x, y, k[j, i], inside, hw, hh)
    if not (np.array_equal(k, k[::-1, :]) and np.array_equal(k, k[:, ::-1])):
        return 'kernel not symmetric under axis flips'
    if k[hh, hw] != 1:
        return 'kernel centre is %r' % k[hh, hw]
    return None


def radius_str(radius):
    """the string circle_kernel hands to _get_distance: numbers written positionally (str() of a small or large float is
    in exponent notation, which the distance grammar does not have)"""
    if isinstance(radius, (int, float, np.integer, np.floating)) and not isinstance(radius, bool):
        return np.format_float_positional(radius, trim='-')
    return str(radius)


def is_exponent_radius(radius):
    return isinstance(radius, (float, np.floating)) and 'e' in str(radius).lower() and math.isfinite(float(radius))


def exact_half(r, cs):
    """(int(r/cs) in float arithmetic, exact floor) — they differ only in rounding-boundary cases"""
    q = Fraction(r) / Fraction(cs)
    fl = math.floor(q)
    near = q != fl and min(q - fl, fl + 1 - q) < Fraction(1, 10 ** 9) * max(1, fl)
    return int(r / cs), (fl if not near else -1)


def kernel_tokens(k):
    k = np.asarray(k)
    return 'K %d %d %s' % (k.shape[0], k.shape[1], ' '.join(str(int(v)) for v in k.ravel()))


def run_kernels(ctx, conv, lines, cmp):
    # (a) _ellipse_kernel for all half-width pairs up to a bound
    bound = 10 if ctx.quick() else 30
    for hw in range(bound + 1):
        for hh in range(bound + 1):
            case = {'family': 'ellipse', 'hw': hw, 'hh': hh}
            ctx.case(case)
            ctx.count('ellipse/%s' % ('square' if hw == hh else 'hw!=hh'))
            k = conv._ellipse_kernel(hw, hh)
            w = ellipse_mask_oracle(k, hw, hh)
            if w:
                ctx.violation('oracle', '_ellipse_kernel(%d,%d): %s' % (hw, hh, w), case)
            lines.append('ellipse %d %d' % (hw, hh))
            cmp.append(('kernel', ('ok', k), case))
    # (b) circle_kernel / annulus_kernel with cell sizes and radii
    default_unit, units_tbl = read_units(os.environ.get('VERIF_REPO', '/repo'))
    n = 600 if ctx.quick() else 8000
    for i in range(n):
        rng = ctx.rng
        cx = rng.choice([1.0, 0.5, 2.0, 3.0, 0.25, 10.0, 30.0, rng.uniform(0.3, 4.0)])
        cy = cx if rng.random() < 0.25 else rng.choice([1.0, 0.5, 2.0, 3.0, 0.75, 10.0, 25.0, rng.uniform(0.3, 4.0)])
        kind = rng.random()
        if kind < 0.35:
            radius = rng.randint(1, 12)
        elif kind < 0.6:
            radius = round(rng.uniform(0.2, 12.0), rng.randint(1, 3))
        elif kind < 0.8:
            radius = '%s%s%s' % (gen_number(rng)[:4].rstrip('.') or '1', rng.choice(['', ' ']), rng.choice(['m', 'ft', 'meters', 'FEET', 'foot']))
        elif kind < 0.9:
            radius = '%s %s' % (rng.choice(['0.01', '0.002', '.004', '0.0125']), rng.choice(['km', 'miles', 'ml']))
        else:
            radius = rng.choice([0, -1, 'abc', '3 yards', '', '1e2'])
        if rng.random() < 0.12:
            # cell sizes that are not exact binary fractions with a radius that is a whole number of cells
            # (true division gives exactly k; floor division or truncation of a rounded quotient may give k-1)
            c0 = rng.choice([0.1, 0.3048, 0.3, 0.7, 1.1, 0.2])
            cx = c0
            cy = c0 if rng.random() < 0.6 else rng.choice([0.1, 0.3048, 0.3, 0.7, 1.1, 0.2])
            kq = rng.randint(1, 12)
            if c0 == 0.3048 and rng.random() < 0.5:
                radius = '%d%s' % (kq, rng.choice(['ft', ' ft', 'feet']))
            else:
                radius = float(repr(kq * c0)) if rng.random() < 0.5 else round(kq * c0, 4)
        wide = rng.random()
        if wide < 0.06:
            # small radii on small cells (degree-sized rasters): str(5e-05) is in exponent notation
            c0 = rng.choice([1e-5, 2.5e-6, 1e-7, 3e-5])
            cx, cy = c0, (c0 if rng.random() < 0.5 else c0 * rng.choice([0.5, 2.0, 3.0]))
            radius = float(repr(c0 * rng.choice([1, 2, 3.5, 5, 7.25])))
        elif wide < 0.10:
            # very large radii on very large cells
            c0 = rng.choice([1e15, 4e15, 2.5e16])
            cx, cy = c0, (c0 if rng.random() < 0.5 else c0 * 2)
            radius = float(c0 * rng.choice([1, 3, 6.5, 10]))
        elif wide < 0.16 and isinstance(radius, (int, float)) and not isinstance(radius, bool):
            # NumPy scalars as radius, integer cell sizes
            radius = rng.choice([np.float64, np.float32, np.int64, np.int32])(radius)
            if rng.random() < 0.5:
                cx, cy = rng.choice([1, 2, 3]), rng.choice([1, 2, 5])
        rs = radius_str(radius)
        exp = dist_oracle(rs, units_tbl, default_unit)
        if exp[0] == 'ok':
            # keep the kernel small (a 9999 ft radius on 0.25 m cells would be a 24381 x 24381 array)
            while float(exp[1]) / cx > 60:
                cx *= 4.0
            while float(exp[1]) / cy > 60:
                cy *= 4.0
        case = {'family': 'circle', 'cx': cx, 'cy': cy, 'radius': radius if isinstance(radius, (str, int, float)) else
                '%s(%r)' % (type(radius).__name__, radius.item())}
        ctx.case(case)
        r = call(conv.circle_kernel, cx, cy, radius)
        if exp[0] == 'ok':
            rm = float(exp[1])          # metres according to the property text
            (hw, hwx), (hh, hhx) = exact_half(rm, cx), exact_half(rm, cy)
            # the float product number x factor may differ from the exactly converted radius by an ulp
            end_ = parse_decimal(rs, 0)
            uu = rs[end_:].lower().replace(' ', '') or default_unit
            rm2 = float(exp[2]) * float(ORACLE_UNITS.get(uu) or dict(units_tbl)[uu])
            if (int(rm2 / cx), int(rm2 / cy)) != (hw, hh):
                hwx = hhx = -1
            ctx.count('circle/%s/%s' % ('square-cells' if cx == cy else 'non-square-cells', 'hw!=hh' if hw != hh else 'hw=hh'))
            if hw > 150 or hh > 150:
                continue
            if r[0] != 'ok':
                ctx.violation('oracle', 'circle_kernel(%r,%r,%r) raised %s: %s' % (cx, cy, radius, r[1], r[2]), case,
                              key=KEY_EXP if (is_exponent_radius(radius) and 'Invalid distance' in r[2]) else None)
            elif hw == hwx and hh == hhx:
                w = ellipse_mask_oracle(r[1], hw, hh)
                if w:
                    ctx.violation('oracle', 'circle_kernel(%r,%r,%r) with radius/cellsize = (%d,%d): %s' % (cx, cy, radius, hw, hh, w), case)
            else:
                ctx.count('circle/rounding-boundary-skipped-by-oracle')
        else:
            ctx.count('circle/rejected-radius')
            if r[0] == 'ok':
                ctx.violation('oracle', 'circle_kernel(%r,%r,%r) accepted a radius that must be rejected (%s)' % (cx, cy, radius, exp[1]), case)
        lines.append('circle %s %s %s' % (hx(cx), hx(cy), sx(rs)))
        cmp.append(('kernel', r, case))
        # annulus with an inner radius
        if exp[0] == 'ok' and r[0] == 'ok':
            inner_kind = rng.random()
            if isinstance(radius, str):
                inner = radius if inner_kind < 0.3 else rng.choice(['1', '0.5', '2 ft', '1m'])
            elif inner_kind < 0.15 or not isinstance(radius, (int, float)):
                inner = radius
            elif inner_kind < 0.85:
                inner = round(float(radius) * rng.uniform(0.05, 0.99), rng.randint(1, 3)) or radius
            else:
                inner = float(radius) * rng.choice([1.25, 1.5, 2.0, 3.0])      # relative: an absolute +1 would be 10**7 cells on tiny cell sizes
            case2 = {'family': 'annulus', 'cx': cx, 'cy': cy, 'outer': case['radius'], 'inner': inner}
            ctx.case(case2)
            ra = call(conv.annulus_kernel, cx, cy, radius, inner)
            expi = dist_oracle(radius_str(inner), units_tbl, default_unit)
            if expi[0] == 'ok':
                ki = call(conv.circle_kernel, cx, cy, inner)
                ko = np.asarray(r[1])
                if ki[0] == 'ok' and np.asarray(ki[1]).shape[0] <= ko.shape[0] and np.asarray(ki[1]).shape[1] <= ko.shape[1]:
                    ctx.count('annulus/inner<=outer')
                    kin = np.asarray(ki[1])
                    if ra[0] != 'ok':
                        ctx.violation('oracle', 'annulus_kernel(%r,%r,%r,%r) raised %s: %s' % (cx, cy, radius, inner, ra[1], ra[2]), case2)
                    else:
                        ka = np.asarray(ra[1])
                        cen = np.zeros_like(ko)
                        oy, ox = (ko.shape[0] - kin.shape[0]) // 2, (ko.shape[1] - kin.shape[1]) // 2
                        cen[oy:oy + kin.shape[0], ox:ox + kin.shape[1]] = kin
                        if ka.shape != ko.shape or not np.array_equal(ka, ko - cen):
                            ctx.violation('oracle', 'annulus_kernel(%r,%r,%r,%r) is not outer minus the centred inner circle' % (cx, cy, radius, inner), case2)
                        elif ka.min() < 0 or not np.all((ka == 0) | (ka == 1)):
                            ctx.violation('oracle', 'annulus_kernel(%r,%r,%r,%r) has cells outside {0,1}: min %r' % (cx, cy, radius, inner, ka.min()), case2)
                        elif not (np.array_equal(ka, ka[::-1, :]) and np.array_equal(ka, ka[:, ::-1])):
                            ctx.violation('oracle', 'annulus_kernel(%r,%r,%r,%r) not flip symmetric' % (cx, cy, radius, inner), case2)
                else:
                    ctx.count('annulus/inner>outer')
            lines.append('annulus %s %s %s %s' % (hx(cx), hx(cy), sx(rs), sx(radius_str(inner))))
            cmp.append(('kernel', ra, case2))


# ---------------------------------------------------------------------------
# 5. calc_cellsize
# ---------------------------------------------------------------------------
def run_cellsize(ctx, conv, lines, cmp):
    default_unit, units_tbl = read_units(os.environ.get('VERIF_REPO', '/repo'))
    tbl = dict(units_tbl)
    n = 300 if ctx.quick() else 4000
    for i in range(n):
        rng = ctx.rng
        h, w = rng.randint(2, 6), rng.randint(2, 7)
        if rng.random() < 0.05:
            h, w = rng.choice([2, 40, 257]), rng.choice([2, 33, 300])
        data = np.zeros((h, w))
        dims = list(rng.choice([('y', 'x'), ('y', 'x'), ('lat', 'lon'), ('row', 'col')]))
        if rng.random() < 0.12:          # a band axis in front: the last two dims are y, x
            data = np.zeros((2, h, w))
            dims = ['band'] + dims
        mode = rng.random()
        attrs = {}
        unit_choice = rng.random()
        if unit_choice < 0.6:
            unit = rng.choice(list(tbl))
            attrs['unit'] = unit
        elif unit_choice < 0.85:
            unit = None
        else:
            unit = rng.choice(['KM', 'mile', 'yard', ' m'])
            attrs['unit'] = unit
        if mode < 0.35:
            rx = rng.choice([0.5, 1.0, 30.0, 0.1, rng.uniform(0.01, 100)])
            ry = rng.choice([rx, -rx, 0.25, -2.0, rng.uniform(0.01, 100)])
            form = rng.random()
            if form < 0.2:
                rx, ry = rng.choice([1, 3, 30]), rng.choice([1, -2, 25])          # Python ints
            attrs['res'] = (rx, ry) if form < 0.55 else ([rx, ry] if form < 0.8 else np.array([rx, ry], dtype='float64'))
            rx, ry = float(rx), float(ry)
            src = 'res-pair'
            raster = xr.DataArray(data, dims=dims, attrs=attrs)
            resline = None
        elif mode < 0.5:
            rx = ry = rng.choice([0.5, 1.0, 30.0, 0.1, 3])
            attrs['res'] = rx
            src = 'res-scalar'
            raster = xr.DataArray(data, dims=dims, attrs=attrs)
            resline = None
            rx = ry = float(rx)
        else:
            x0, dx = rng.uniform(-100, 100), rng.choice([0.5, 1.0, 0.1, 30.0, rng.uniform(0.01, 10)])
            y0, dy = rng.uniform(-100, 100), rng.choice([0.5, 1.0, 0.1, 30.0, rng.uniform(0.01, 10)])
            xs = x0 + dx * np.arange(w)
            ys = y0 + dy * np.arange(h)
            if rng.random() < 0.15:        # uneven spacing: the resolution is still (max - min) / (n - 1)
                xs = x0 + np.cumsum([0.0] + [rng.uniform(0.1, 2.0) * dx for _ in range(w - 1)])
                ys = y0 + np.cumsum([0.0] + [rng.uniform(0.1, 2.0) * dy for _ in range(h - 1)])
            if rng.random() < 0.5:
                ys = ys[::-1]
            if rng.random() < 0.25:
                xs = xs[::-1]
            raster = xr.DataArray(data, dims=dims, coords={dims[-2]: ys, dims[-1]: xs}, attrs=attrs)
            src = 'coords'
            rx = (float(xs.max()) - float(xs.min())) / (w - 1)
            ry = (float(ys.max()) - float(ys.min())) / (h - 1)
            resline = [('res %s %s %s' % (hx(xs.min()), hx(xs.max()), hx(w - 1)), rx),
                       ('res %s %s %s' % (hx(ys.min()), hx(ys.max()), hx(h - 1)), ry)]
        case = {'family': 'cellsize', 'source': src, 'unit': unit, 'res': [rx, ry], 'shape': [h, w]}
        ctx.case(case)
        ctx.count('cellsize/%s/%s' % (src, 'no-unit' if unit is None else ('unit' if unit in tbl else 'unknown-unit')))
        r = call(conv.calc_cellsize, raster)
        u = default_unit if unit is None else unit
        if u in tbl:
            if r[0] != 'ok':
                ctx.violation('oracle', 'calc_cellsize raised %s: %s for res %r unit %r' % (r[1], r[2], (rx, ry), unit), case)
            else:
                cx, cy = float(r[1][0]), float(r[1][1])
                fac = Fraction(ORACLE_UNITS.get(u) or repr(tbl[u]))
                ex, ey = Fraction(rx) * fac, abs(Fraction(ry) * fac)
                if abs(Fraction(cx) - ex) > abs(ex) * Fraction(1, 10 ** 14) or abs(Fraction(cy) - ey) > abs(ey) * Fraction(1, 10 ** 14) or cy < 0:
                    ctx.violation('oracle', 'calc_cellsize = %r, expected (%r, %r) metres for res %r unit %r' % (
                        (cx, cy), float(ex), float(ey), (rx, ry), unit), case)
        if resline:
            for ln, v in resline:
                lines.append(ln)
                cmp.append(('float', float(v), case))
        lines.append('cellsize %s %s %s' % (hx(rx), hx(ry), sx(u)))
        cmp.append(('cellsize', r, case))
        # the whole of calc_cellsize: which resolution source is used, default unit, conversion
        if src == 'coords':
            full = 'none %s %s %s %s %s %s %s %s' % (hx(0), hx(0), hx(xs.min()), hx(xs.max()), hx(w - 1),
                                                     hx(ys.min()), hx(ys.max()), hx(h - 1))
        else:
            full = '%s %s %s %s %s %s %s %s %s' % ('pair' if src == 'res-pair' else 'scalar', hx(rx), hx(ry),
                                                   hx(0), hx(1), hx(w - 1), hx(0), hx(1), hx(h - 1))
        lines.append('cellsize_full %s %d %s' % (full, 0 if unit is None else 1, sx(unit or '')))
        cmp.append(('cellsize', r, case))


# ---------------------------------------------------------------------------
# 6. large kernels: big radius / cell-size ratios and strongly anisotropic cells
# ---------------------------------------------------------------------------
def exact_ellipse_mask(hw, hh):
    """the ellipse mask from Python-integer arithmetic only (no fixed-width products): row y holds the cells with
    x^2 * hh^2 <= hw^2 * (hh^2 - y^2), i.e. |x| <= isqrt(hw^2 (hh^2 - y^2) // hh^2)"""
    xmax = []
    for y in range(-hh, hh + 1):
        if hh == 0:
            xmax.append(hw)
        else:
            xmax.append(math.isqrt((hw * hw * (hh * hh - y * y)) // (hh * hh)))
    xs = np.abs(np.arange(-hw, hw + 1, dtype=np.int64))
    return (xs[None, :] <= np.array(xmax, dtype=np.int64)[:, None]).astype(float)


def first_diff(got, exp, hw, hh):
    got = np.asarray(got)
    if got.shape != exp.shape:
        return 'kernel shape %r, expected odd shape %r' % (got.shape, exp.shape)
    d = np.argwhere(got != exp)
    if len(d):
        j, i = (int(v) for v in d[0])
        return '%d cells differ from the ellipse mask, first: cell (%d,%d) offset (%d,%d) is %r, ellipse equation says %d (hw=%d hh=%d)' % (
            len(d), j, i, i - hw, j - hh, got[j, i], exp[j, i], hw, hh)
    return None


LARGE_MODEL_CELLS = 200000      # the extracted model is compared up to this many cells; larger kernels are oracle-only


def check_large_ellipse(ctx, conv, case, lines, cmp):
    hw, hh = case['hw'], case['hh']
    r = call(conv._ellipse_kernel, hw, hh)
    if r[0] != 'ok':
        ctx.violation('oracle', '_ellipse_kernel(%d,%d) raised %s: %s' % (hw, hh, r[1], r[2]), case)
        return
    w = first_diff(r[1], exact_ellipse_mask(hw, hh), hw, hh)
    if w:
        ctx.violation('oracle', '_ellipse_kernel(%d,%d): %s' % (hw, hh, w), case)
    if (2 * hw + 1) * (2 * hh + 1) <= LARGE_MODEL_CELLS:
        lines.append('ellipse %d %d' % (hw, hh))
        cmp.append(('kernel', r, case))


def check_large_circle(ctx, conv, case, lines, cmp):
    default_unit, units_tbl = read_units(os.environ.get('VERIF_REPO', '/repo'))
    cx, cy, radius = case['cx'], case['cy'], case['radius']
    rs = radius_str(radius)
    rm = float(dist_oracle(rs, units_tbl, default_unit)[1])
    (hw, hwx), (hh, hhx) = exact_half(rm, cx), exact_half(rm, cy)
    r = call(conv.circle_kernel, cx, cy, radius)
    if r[0] != 'ok':
        ctx.violation('oracle', 'circle_kernel(%r,%r,%r) raised %s: %s' % (cx, cy, radius, r[1], r[2]), case)
        return
    if hw == hwx and hh == hhx:
        w = first_diff(r[1], exact_ellipse_mask(hw, hh), hw, hh)
        if w:
            ctx.violation('oracle', 'circle_kernel(%r,%r,%r) with radius/cellsize = (%d,%d): %s' % (cx, cy, radius, hw, hh, w), case)
    if (2 * hw + 1) * (2 * hh + 1) <= LARGE_MODEL_CELLS:
        lines.append('circle %s %s %s' % (hx(cx), hx(cy), sx(rs)))
        cmp.append(('kernel', r, case))


def check_large_annulus(ctx, conv, case, lines, cmp):
    default_unit, units_tbl = read_units(os.environ.get('VERIF_REPO', '/repo'))
    cx, cy, outer, inner = case['cx'], case['cy'], case['outer'], case['inner']
    ro = float(dist_oracle(radius_str(outer), units_tbl, default_unit)[1])
    ri = float(dist_oracle(radius_str(inner), units_tbl, default_unit)[1])
    (how, a1), (hoh, a2) = exact_half(ro, cx), exact_half(ro, cy)
    (hiw, a3), (hih, a4) = exact_half(ri, cx), exact_half(ri, cy)
    r = call(conv.annulus_kernel, cx, cy, outer, inner)
    if r[0] != 'ok':
        ctx.violation('oracle', 'annulus_kernel(%r,%r,%r,%r) raised %s: %s' % (cx, cy, outer, inner, r[1], r[2]), case)
        return
    if (how, hoh, hiw, hih) == (a1, a2, a3, a4):
        exp = exact_ellipse_mask(how, hoh)
        oy, ox = hoh - hih, how - hiw
        exp[oy:oy + 2 * hih + 1, ox:ox + 2 * hiw + 1] -= exact_ellipse_mask(hiw, hih)
        w = first_diff(r[1], exp, how, hoh)
        if w:
            ctx.violation('oracle', 'annulus_kernel(%r,%r,%r,%r) is not outer minus the centred inner ellipse mask: %s' % (
                cx, cy, outer, inner, w), case)
        elif np.asarray(r[1]).min() < 0:
            ctx.violation('oracle', 'annulus_kernel(%r,%r,%r,%r) has negative cells' % (cx, cy, outer, inner), case)
    if (2 * how + 1) * (2 * hoh + 1) <= LARGE_MODEL_CELLS:
        lines.append('annulus %s %s %s %s' % (hx(cx), hx(cy), sx(radius_str(outer)), sx(radius_str(inner))))
        cmp.append(('kernel', r, case))


def run_large_kernels(ctx, conv, lines, cmp):
    rng = ctx.rng
    # (a) _ellipse_kernel directly: isotropic 150..400 (products x*hh pass 2**15 at 182), anisotropic pairs
    pairs = [(181, 181), (182, 182), (250, 250), (rng.randint(150, 400),) * 2, (600, 40), (40, 600), (1000, 33), (33, 1000),
             (rng.randint(400, 900), rng.randint(20, 60)), (2047, 17)]
    if not ctx.quick():
        pairs += [(rng.randint(150, 500), rng.randint(150, 500)) for _ in range(12)] + [(3000, 12), (12, 3000), (724, 724)]
    for hw, hh in pairs:
        case = {'family': 'large-ellipse', 'hw': hw, 'hh': hh}
        ctx.case(case)
        ctx.count('large/ellipse/%s' % ('isotropic' if hw == hh else 'anisotropic'))
        check_large_ellipse(ctx, conv, case, lines, cmp)
    # (b) circle_kernel / annulus_kernel: numeric radii and radii in m / km / ft / mi on unit, fine and anisotropic cells
    circles = [(1, 1, 250), (1.0, 1.0, '0.25 km'), (1, 1, '820 ft'), (1, 1, '0.2 mi'.replace('mi', 'miles')), (0.5, 8.0, 300),
               (8.0, 0.5, '300 m'), (0.3048, 0.3048, '%d ft' % rng.randint(190, 400)),
               (2.0, 2.0, '%.3f km' % (rng.randint(400, 800) / 1000.0)), (30.0, 30.0, '%d miles' % rng.randint(4, 7)),
               (1, 25, rng.randint(700, 1200))]
    for cx, cy, radius in circles:
        case = {'family': 'large-circle', 'cx': cx, 'cy': cy, 'radius': radius}
        ctx.case(case)
        ctx.count('large/circle')
        check_large_circle(ctx, conv, case, lines, cmp)
    annuli = [(1, 1, 300, 150), (2.0, 0.5, '0.4 km', '100 m'), (1, 1, '%d ft' % rng.randint(700, 1000), 60), (1.0, 6.0, 500, 499)]
    for cx, cy, outer, inner in annuli:
        case = {'family': 'large-annulus', 'cx': cx, 'cy': cy, 'outer': outer, 'inner': inner}
        ctx.case(case)
        ctx.count('large/annulus')
        check_large_annulus(ctx, conv, case, lines, cmp)


# ---------------------------------------------------------------------------
# 7. theme streams (appended): scalar dtypes / precision, thresholds one ulp around, call sequences, dask / layouts / derived
#    rasters for calc_cellsize, coordinates, degenerate shapes
# ---------------------------------------------------------------------------
def lowprec_metric_oracle(name, f, A, B, C, rel):
    """metric axioms for arguments of a narrow NumPy scalar type (Numba compiles that signature and may compute in
    float32): tolerances relative to the magnitudes involved"""
    def d(P, Q):
        return float(f(P[0], Q[0], P[1], Q[1]))
    dab, dba, dbc, dac, daa = d(A, B), d(B, A), d(B, C), d(A, C), d(A, A)
    scale = max(1.0, abs(dab), abs(dbc), abs(dac))
    if abs(dab - dba) > rel * scale:
        return '%s not symmetric: %r vs %r for A=%r B=%r' % (name, dab, dba, A, B)
    if daa != 0:
        return '%s d(A,A)=%r for A=%r' % (name, daa, A)
    if (dab == 0) != (tuple(float(v) for v in A) == tuple(float(v) for v in B)):
        return '%s d(A,B)=%r for A=%r B=%r (zero iff coincident)' % (name, dab, A, B)
    dx, dy = Fraction(float(A[0])) - Fraction(float(B[0])), Fraction(float(A[1])) - Fraction(float(B[1]))
    exact = float(abs(dx) + abs(dy)) if name == 'manhattan' else math.sqrt(float(dx * dx + dy * dy))
    if abs(dab - exact) > rel * max(1.0, exact):
        return '%s d(A,B)=%r, exact %r for A=%r B=%r (%s arguments)' % (name, dab, exact, A, B, type(A[0]).__name__)
    if dac > dab + dbc + rel * scale:
        return '%s triangle inequality: %r > %r + %r for A=%r B=%r C=%r' % (name, dac, dab, dbc, A, B, C)
    return None


def raster_cellsize_oracle(raster, default_unit, tbl):
    """property text on the raster's OWN attrs / coordinates: attrs res (pair or number) wins, else (max - min) / (n - 1);
    converted to metres; y size not negative.  Returns None (unknown unit) or (Fraction, Fraction)"""
    res = raster.attrs.get('res')
    if isinstance(res, (tuple, list, np.ndarray)) and len(res) == 2:
        rx, ry = Fraction(float(res[0])), Fraction(float(res[1]))
    elif isinstance(res, (int, float)):
        rx = ry = Fraction(float(res))
    else:
        xs = np.asarray(raster[raster.dims[-1]].values, dtype='float64')
        ys = np.asarray(raster[raster.dims[-2]].values, dtype='float64')
        rx = (Fraction(float(xs.max())) - Fraction(float(xs.min()))) / (raster.shape[-1] - 1)
        ry = (Fraction(float(ys.max())) - Fraction(float(ys.min()))) / (raster.shape[-2] - 1)
    u = raster.attrs.get('unit', default_unit)
    f = ORACLE_UNITS.get(u) or (repr(tbl[u]) if u in tbl else None)
    if f is None:
        return None
    return rx * Fraction(f), abs(ry * Fraction(f))


def raster_cellsize_line(raster):
    res = raster.attrs.get('res')
    h, w = raster.shape[-2:]
    if isinstance(res, (tuple, list, np.ndarray)) and len(res) == 2:
        full = 'pair %s %s %s %s %s %s %s %s' % (hx(res[0]), hx(res[1]), hx(0), hx(1), hx(max(w - 1, 1)), hx(0), hx(1), hx(max(h - 1, 1)))
    elif isinstance(res, (int, float)):
        full = 'scalar %s %s %s %s %s %s %s %s' % (hx(res), hx(res), hx(0), hx(1), hx(max(w - 1, 1)), hx(0), hx(1), hx(max(h - 1, 1)))
    else:
        xs = np.asarray(raster[raster.dims[-1]].values, dtype='float64')
        ys = np.asarray(raster[raster.dims[-2]].values, dtype='float64')
        full = 'none %s %s %s %s %s %s %s %s' % (hx(0), hx(0), hx(xs.min()), hx(xs.max()), hx(w - 1), hx(ys.min()), hx(ys.max()), hx(h - 1))
    u = raster.attrs.get('unit')
    return 'cellsize_full %s %d %s' % (full, 0 if u is None else 1, sx(u or ''))


def check_raster_cellsize(ctx, conv, raster, what, lines, cmp, default_unit, tbl):
    case = {'family': 'cellsize-theme', 'what': what, 'shape': list(raster.shape), 'attrs': {k: jsonable_attr(v) for k, v in raster.attrs.items()}}
    ctx.case(case)
    attrs0 = {k: (np.array(v, copy=True) if isinstance(v, np.ndarray) else v) for k, v in raster.attrs.items()}
    coords0 = {k: np.array(raster[k].values, copy=True) for k in raster.dims if k in raster.coords}
    r = call(conv.calc_cellsize, raster)
    exp = raster_cellsize_oracle(raster, default_unit, tbl)
    if exp is not None:
        if r[0] != 'ok':
            ctx.violation('oracle', 'calc_cellsize (%s) raised %s: %s' % (what, r[1], r[2]), case)
        else:
            cx, cy = float(r[1][0]), float(r[1][1])
            if abs(Fraction(cx) - exp[0]) > abs(exp[0]) * Fraction(1, 10 ** 13) or abs(Fraction(cy) - exp[1]) > abs(exp[1]) * Fraction(1, 10 ** 13) or cy < 0:
                ctx.violation('oracle', 'calc_cellsize (%s) = %r, expected (%r, %r) metres from the raster\'s own attrs / coordinates' % (
                    what, (cx, cy), float(exp[0]), float(exp[1])), case)
    for k, v in coords0.items():
        if not np.array_equal(np.asarray(raster[k].values), v):
            ctx.violation('oracle', 'calc_cellsize (%s) modified coordinate %r' % (what, k), case)
    if set(raster.attrs) != set(attrs0) or any(not np.array_equal(np.asarray(raster.attrs[k], dtype=object), np.asarray(attrs0[k], dtype=object))
                                               for k in attrs0):
        ctx.violation('oracle', 'calc_cellsize (%s) modified attrs' % what, case)
    lines.append(raster_cellsize_line(raster))
    cmp.append(('cellsize', r, case))
    return r


def jsonable_attr(v):
    if isinstance(v, np.ndarray):
        return v.tolist()
    if isinstance(v, tuple):
        return list(v)
    return v


def run_themes(ctx, prox, conv, lines, cmp):
    rng = ctx.rng
    default_unit, units_tbl = read_units(os.environ.get('VERIF_REPO', '/repo'))
    tbl = dict(units_tbl)
    quick = ctx.quick()
    # ---- (2) scalar argument types of the metric functions ----
    fns = (('euclidean', prox.euclidean_distance), ('manhattan', prox.manhattan_distance))
    for T, rel, exact in ((np.float64, 0, True), (np.int64, 0, True), (np.float32, 1e-5, False), (np.int32, 1e-12, False),
                          (np.int16, 1e-12, False), (np.uint8, 1e-12, False)):
        for q in range(6 if quick else 60):
            lo, hi = (0, 200) if T is np.uint8 else (-1000, 1000)
            if np.issubdtype(T, np.integer):
                pts = [(T(rng.randint(lo, hi)), T(rng.randint(lo, hi))) for _ in range(3)]
            else:
                pts = [(T(rng.randint(lo * 8, hi * 8) / 8.0), T(rng.randint(lo * 8, hi * 8) / 8.0)) for _ in range(3)]
            if q % 3 == 0:
                pts[1] = pts[0]
            A, B, C = pts
            for name, f in fns:
                case = {'family': 'scalar-types', 'metric': name, 'type': T.__name__, 'A': [float(v) for v in A], 'B': [float(v) for v in B],
                        'C': [float(v) for v in C]}
                ctx.case(case)
                ctx.count('theme/scalar-types/%s' % T.__name__)
                if T is np.uint8 and name in ('euclidean', 'manhattan'):
                    # unsigned differences wrap in the compiled code only if Numba keeps uint8; it promotes to int64 — checked by the oracle
                    pass
                w = lowprec_metric_oracle(name, f, A, B, C, rel or 1e-15)
                if w:
                    ctx.violation('oracle', w, case, key=KEY_UNSIGNED if (T is np.uint8 and name == 'manhattan' and '+19' in w) else None)
                if exact:
                    for P, Q in ((A, B), (B, C), (A, C)):
                        lines.append('%s %s %s %s %s' % ('euclid' if name == 'euclidean' else 'manhattan', hx(P[0]), hx(Q[0]), hx(P[1]), hx(Q[1])))
                        cmp.append(('float', float(f(P[0], Q[0], P[1], Q[1])), case))
        # great circle with that argument type
        for q in range(4 if quick else 40):
            if np.issubdtype(T, np.integer):
                P = (T(rng.randrange(0, 180, 15) if T is np.uint8 else rng.randrange(-180, 181, 15)), T(rng.randrange(0, 91, 15) if T is np.uint8 else rng.randrange(-90, 91, 15)))
                Q = (T(rng.randrange(0, 180, 15) if T is np.uint8 else rng.randrange(-180, 181, 15)), T(rng.randrange(0, 91, 15) if T is np.uint8 else rng.randrange(-90, 91, 15)))
            else:
                P = (T(rng.randrange(-1440, 1441) / 8.0), T(rng.randrange(-720, 721) / 8.0))
                Q = (T(rng.randrange(-1440, 1441) / 8.0), T(rng.randrange(-720, 721) / 8.0))
            case = {'family': 'scalar-types', 'metric': 'great_circle', 'type': T.__name__, 'P': [float(v) for v in P], 'Q': [float(v) for v in Q]}
            ctx.case(case)
            ctx.count('theme/scalar-types/%s' % T.__name__)
            r1, r2 = gc_call(prox, P, Q), gc_call(prox, Q, P)
            Pf, Qf = tuple(float(v) for v in P), tuple(float(v) for v in Q)
            if r1[0] != 'ok' or r2[0] != 'ok':
                ctx.violation('oracle', 'great_circle with %s arguments %r %r: %r' % (T.__name__, Pf, Qf, r1), case)
                continue
            tolr = 1e-5 if T in (np.float32, np.int16, np.uint8) else 4e-8      # narrow types: np.radians works in float32
            expd = R_EARTH * central_angle(Pf, Qf)
            if abs(r1[1] - r2[1]) > tolr * R_EARTH or abs(r1[1] - expd) > tolr * R_EARTH or r1[1] < 0 or r1[1] > math.pi * R_EARTH * (1 + tolr):
                ctx.violation('oracle', 'great_circle with %s arguments %r %r = %r / %r, radius x central angle = %r' % (
                    T.__name__, Pf, Qf, r1[1], r2[1], expd), case)
            if exact:
                lines.append('gc %s %s %s %s %s' % (hx(P[0]), hx(Q[0]), hx(P[1]), hx(Q[1]), hx(R_EARTH)))
                cmp.append(('gc', r1, case))
    # interleaved signatures: a float call, an int call, the float call again -> identical results
    for q in range(10 if quick else 100):
        a = (rng.uniform(-50, 50), rng.uniform(-50, 50), rng.uniform(-50, 50), rng.uniform(-50, 50))
        for name, f in fns + (('great_circle', prox.great_circle_distance),):
            v1 = f(*a)
            f(3, 4, 5, 6)
            f(np.float32(1.5), np.float32(2.5), np.float32(0.5), np.float32(1.0))
            v2 = f(*a)
            ctx.case({'family': 'interleaved-signatures', 'metric': name, 'args': list(a)})
            ctx.count('theme/interleaved-signatures')
            if not same_float(float(v1), float(v2)):
                ctx.violation('oracle', '%s%r = %r, after calls with other argument types %r' % (name, a, v1, v2),
                              {'family': 'interleaved-signatures', 'metric': name, 'args': list(a)})
    # ---- (2) tiny magnitudes for the planar metrics ----
    for q in range(30 if quick else 400):
        sc = 2.0 ** rng.choice([-30, -60, -100, -120])
        A, B, C = [(rng.randint(-64, 64) * sc, rng.randint(-64, 64) * sc) for _ in range(3)]
        for name, f in fns:
            case = {'family': 'plane', 'metric': name, 'A': list(A), 'B': list(B), 'C': list(C), 'kind': 'tiny-dyadic'}
            ctx.case(case)
            ctx.count('theme/plane-tiny')
            w = plane_oracle(name, f, A, B, C)
            if w:
                ctx.violation('oracle', w, case)
            lines.append('%s %s %s %s %s' % ('euclid' if name == 'euclidean' else 'manhattan', hx(A[0]), hx(B[0]), hx(A[1]), hx(B[1])))
            cmp.append(('float', float(f(A[0], B[0], A[1], B[1])), case))
    # ---- (2) radius equal to, and one ulp around, a whole number of cells; NumPy-scalar cell sizes ----
    for q in range(60 if quick else 800):
        cx = rng.choice([0.1, 0.3, 1.0, 2.5, 0.7, 30.0, 0.3048])
        cy = cx if rng.random() < 0.5 else rng.choice([0.1, 0.3, 1.0, 2.5, 0.7])
        k = rng.randint(1, 20)
        base = k * cx
        radius = rng.choice([base, math.nextafter(base, math.inf), math.nextafter(base, 0.0)])
        ctype = rng.choice([float, float, np.float64, np.float32, int])
        if ctype is int:
            cx, cy = float(rng.randint(1, 3)), float(rng.randint(1, 3))
            radius = rng.choice([float(k), math.nextafter(float(k), 0.0), math.nextafter(float(k), math.inf)])
            acx, acy = int(cx), int(cy)
        elif ctype is np.float32:
            cx, cy = rng.choice([0.5, 0.25, 2.0, 1.0]), rng.choice([0.5, 0.25, 2.0, 4.0])      # exact in float32
            radius = round(rng.uniform(0.3, 9.0), 3)
            acx, acy = np.float32(cx), np.float32(cy)
        else:
            acx, acy = ctype(cx), ctype(cy)
        case = {'family': 'circle-ulp', 'cx': cx, 'cy': cy, 'radius': radius, 'cellsize_type': ctype.__name__}
        ctx.case(case)
        ctx.count('theme/circle-ulp/%s' % ctype.__name__)
        r = call(conv.circle_kernel, acx, acy, radius)
        if r[0] == 'ok':
            kk = np.asarray(r[1])
            hw, hh = (kk.shape[1] - 1) // 2, (kk.shape[0] - 1) // 2
            fl_w, fl_h = math.floor(Fraction(radius) / Fraction(cx)), math.floor(Fraction(radius) / Fraction(cy))
            w = None
            if abs(hw - fl_w) > 1 or abs(hh - fl_h) > 1:          # within one cell of the exact quotient (float division at a boundary)
                w = 'half sizes (%d,%d) but radius/cellsize = (%s,%s)' % (hw, hh, float(Fraction(radius) / Fraction(cx)), float(Fraction(radius) / Fraction(cy)))
            else:
                w = first_diff(kk, exact_ellipse_mask(hw, hh), hw, hh)
            if w:
                ctx.violation('oracle', 'circle_kernel(%r,%r,%r): %s' % (acx, acy, radius, w), case)
        else:
            ctx.violation('oracle', 'circle_kernel(%r,%r,%r) raised %s: %s' % (acx, acy, radius, r[1], r[2]), case)
        lines.append('circle %s %s %s' % (hx(cx), hx(cy), sx(radius_str(radius))))
        cmp.append(('kernel', r, case))
    # ---- (4) kernel call sequences: same call repeated, returned array edited by the caller, other parameters in between ----
    for q in range(12 if quick else 150):
        cx, cy, radius = rng.choice([1.0, 0.5, 2.0]), rng.choice([1.0, 0.5, 3.0]), rng.choice([3, 2.5, '4 m', '9 ft', 5])
        inner = rng.choice([1, 0.5, '1 m'])
        case = {'family': 'kernel-sequence', 'cx': cx, 'cy': cy, 'radius': radius, 'inner': inner}
        ctx.case(case)
        ctx.count('theme/kernel-sequence')
        k1 = np.array(conv.circle_kernel(cx, cy, radius), copy=True)
        a1 = np.array(conv.annulus_kernel(cx, cy, radius, inner), copy=True)
        d1 = conv._get_distance(radius_str(radius))
        tmp = conv.circle_kernel(cx, cy, radius)
        tmp[...] = 7                                  # the caller edits what it got back
        tmp2 = conv.annulus_kernel(cx, cy, radius, inner)
        tmp2[...] = -3
        conv.circle_kernel(cy * 2, cx, 6)             # other parameters in between
        conv._get_distance('12 km')
        k2, a2, d2 = conv.circle_kernel(cx, cy, radius), conv.annulus_kernel(cx, cy, radius, inner), conv._get_distance(radius_str(radius))
        if not (np.array_equal(k1, k2) and np.array_equal(a1, a2) and d1 == d2):
            ctx.violation('oracle', 'circle_kernel / annulus_kernel / _get_distance (%r,%r,%r,%r) differ between two identical calls '
                          '(after the caller edited the first result and other calls were made)' % (cx, cy, radius, inner), case)
        lines.append('circle %s %s %s' % (hx(cx), hx(cy), sx(radius_str(radius))))
        cmp.append(('kernel', ('ok', k2), case))
        lines.append('annulus %s %s %s %s' % (hx(cx), hx(cy), sx(radius_str(radius)), sx(radius_str(inner))))
        cmp.append(('kernel', ('ok', a2), case))
    # ---- (7) radius smaller than the cell: 1x1, 1xN, Nx1 kernels ----
    for cx, cy, radius in ((2.0, 2.0, 1), (2.0, 0.5, 1), (0.5, 2.0, 1.9), (10, 10, '3 ft'), (1.0, 40.0, 5)):
        case = {'family': 'large-circle', 'cx': cx, 'cy': cy, 'radius': radius}
        ctx.case(case)
        ctx.count('theme/degenerate-kernel')
        check_large_circle(ctx, conv, case, lines, cmp)
    # ---- (1,3,4,6,7) calc_cellsize: layouts, dask, derived rasters, coordinates, degenerate shapes ----
    import dask.array as da
    for q in range(40 if quick else 500):
        h, w = rng.choice([(2, 2), (3, 5), (4, 7), (6, 3), (2, 9)])
        kind = rng.choice(['F', 'strided', 'readonly', 'dask-irregular', 'dask-ones', 'dask-single', 'plain'])
        a = np.arange(h * w, dtype=rng.choice(['float64', 'float32', 'int32', 'uint8'])).reshape(h, w)
        if kind == 'F':
            data = np.asfortranarray(a)
        elif kind == 'strided':
            data = np.zeros((2 * h, 3 * w), dtype=a.dtype)[::2, ::3]
        elif kind == 'readonly':
            data = a.copy()
            data.setflags(write=False)
        elif kind.startswith('dask'):
            ch = {'dask-irregular': (tuple([1] + [h - 1]) if h > 1 else (h,), tuple([w - 2, 2]) if w > 2 else (w,)),
                  'dask-ones': ((1,) * h, (1,) * w), 'dask-single': ((h,), (w,))}[kind]
            data = da.from_array(a, chunks=ch)
        else:
            data = a
        sp = rng.choice(['unit', 'frac', 'big', 'tiny', 'neg'])
        x0, dx, y0, dy = {'unit': (0.0, 1.0, 0.0, 1.0), 'frac': (-0.25, 0.125, 10.5, 0.37), 'big': (4.0e6, 1.0e6, -7.5e6, 2.5e5),
                          'tiny': (1.0, 2.0 ** -20, -1.0, 1.0e-6), 'neg': (-1234.5, 30.0, -99.0, 10.0)}[sp]
        xs, ys = x0 + dx * np.arange(w), y0 + dy * np.arange(h)
        if rng.random() < 0.5:
            ys = ys[::-1]                       # a reversed (negative-stride) coordinate view
        if rng.random() < 0.3:
            xs = np.repeat(xs, 2)[::2]          # a strided coordinate view
        dims = list(rng.choice([('y', 'x'), ('lat', 'lon')]))
        attrs = {}
        if rng.random() < 0.5:
            attrs['unit'] = rng.choice(['km', 'ft', 'miles', 'm', 'mile', 'foot'])
        if rng.random() < 0.3:
            attrs['res'] = rng.choice([(0.5, 0.5), (30.0, -30.0), 2.0, [0.25, 4.0]])
        raster = xr.DataArray(data, dims=dims, coords={dims[0]: ys, dims[1]: xs}, attrs=attrs)
        ctx.count('theme/cellsize/%s/%s' % (kind, sp))
        r1 = check_raster_cellsize(ctx, conv, raster, '%s data, %s coordinates' % (kind, sp), lines, cmp, default_unit, tbl)
        r2 = check_raster_cellsize(ctx, conv, raster, 'the same call repeated', lines, cmp, default_unit, tbl)
        if r1[0] == 'ok' and r2[0] == 'ok' and tuple(float(v) for v in r1[1]) != tuple(float(v) for v in r2[1]):
            ctx.violation('oracle', 'calc_cellsize differs between two identical calls: %r vs %r' % (r1[1], r2[1]), {'family': 'cellsize-theme'})
        # derived rasters: each is judged on its OWN attrs / coordinates
        dk = rng.choice(['copy', 'slice2', 'assign_coords', 'astype', 'rev'])
        if dk == 'copy':
            d = raster.copy(deep=True)
        elif dk == 'slice2' and h >= 3 and w >= 3:
            d = raster.isel({dims[0]: slice(None, None, 2), dims[1]: slice(0, None, 2)})
        elif dk == 'assign_coords':
            d = raster.assign_coords({dims[1]: np.arange(w) * 7.0 + 3, dims[0]: np.arange(h) * -2.0})
        elif dk == 'astype':
            d = raster.astype('float32')
        else:
            d = raster.isel({dims[0]: slice(None, None, -1)})
        if d.shape[-1] >= 2 and d.shape[-2] >= 2:
            check_raster_cellsize(ctx, conv, d, 'raster derived by %s from an already processed one' % dk, lines, cmp, default_unit, tbl)
    # degenerate shapes with a res attribute (no coordinate spacing exists for one row / column)
    for shape in ((1, 1), (1, 5), (4, 1)):
        raster = xr.DataArray(np.zeros(shape), dims=['y', 'x'], attrs={'res': (0.5, -2.0), 'unit': 'km'})
        ctx.count('theme/cellsize/degenerate-shape')
        check_raster_cellsize(ctx, conv, raster, 'shape %r with a res attribute' % (shape,), lines, cmp, default_unit, tbl)


# ---------------------------------------------------------------------------
# model comparison
# ---------------------------------------------------------------------------
def compare(kind, impl, mo):
    if mo.startswith('ERR') or 'FUEL' in mo:
        return 'model returned %s' % mo[:80]
    if kind == 'float':
        return None if same_float(impl, fromhex(mo)) else 'implementation %r vs model %r' % (impl, fromhex(mo))
    if kind == 'gc':
        if impl[0] == 'ok':
            if mo.startswith('E '):
                return 'implementation returned %r, model rejects (%s)' % (impl[1], mo)
            return None if same_float(impl[1], fromhex(mo)) else 'implementation %r vs model %r' % (impl[1], fromhex(mo))
        if impl[1] != 'ValueError':
            return 'implementation raised %s' % impl[1]
        if not mo.startswith('E '):
            return 'implementation raised ValueError (%s), model returned %s' % (impl[2], mo)
        return None if gc_err_class(impl[2]) == mo[2:] else 'error class: implementation %r vs model %s' % (impl[2], mo)
    if kind == 'dist':
        if impl[0] == 'ok':
            if not mo.startswith('OK '):
                return 'implementation returned %r, model %s' % (impl[1], mo)
            return None if same_float(float(impl[1]), fromhex(mo[3:])) else 'implementation %r vs model %r' % (impl[1], fromhex(mo[3:]))
        if mo.startswith('OK '):
            return 'implementation raised %s (%s), model accepts with %r' % (impl[1], impl[2][:40], fromhex(mo[3:]))
        if impl[1] != 'ValueError':
            return 'implementation raised %s' % impl[1]
        return None if 'E ' + dist_err_class(impl[2]) == mo else 'error class: implementation %r vs model %s' % (impl[2][:50], mo)
    if kind == 'kernel':
        if impl[0] == 'ok':
            t = kernel_tokens(impl[1])
            return None if t == mo else 'kernel differs: implementation %s vs model %s' % (t[:200], mo[:200])
        if mo.startswith('K '):
            return 'implementation raised %s (%s), model returned a kernel' % (impl[1], impl[2][:50])
        if mo == 'PADERR':
            return None if impl[1] == 'ValueError' else 'model: negative pad width, implementation raised %s' % impl[1]
        if impl[1] != 'ValueError':
            return 'implementation raised %s, model %s' % (impl[1], mo)
        return None if 'E ' + dist_err_class(impl[2]) == mo else 'error class: implementation %r vs model %s' % (impl[2][:50], mo)
    if kind == 'cellsize':
        if impl[0] == 'ok':
            if mo == 'KEYERR':
                return 'implementation returned %r, model KeyError' % (impl[1],)
            a, b = mo.split()
            ok = same_float(float(impl[1][0]), fromhex(a)) and same_float(float(impl[1][1]), fromhex(b))
            return None if ok else 'implementation %r vs model (%r, %r)' % (impl[1], fromhex(a), fromhex(b))
        return None if (mo == 'KEYERR' and impl[1] == 'KeyError') else 'implementation raised %s, model %s' % (impl[1], mo)
    return 'unknown comparison kind'


def flush(ctx, lines, cmp):
    if ctx.model is None or not lines:
        return
    outs = ctx.model.run(lines)
    for ln, (kind, impl, case), mo in zip(lines, cmp, outs):
        ctx.traces += 1
        d = compare(kind, impl, mo)
        if d is not None:
            key = None
            if kind in ('dist', 'kernel') and impl[0] == 'ok' and kind == 'dist' and (float(impl[1]) != float(impl[1]) or math.isinf(float(impl[1]))):
                key = KEY_NANINF
            ctx.violation('correspondence', '%s: %s' % (ln.split()[0], d), dict(case, model=mo[:300]), key=key)


def run(ctx):
    prox, conv = _impl()
    lines, cmp = [], []
    run_plane(ctx, prox, lines, cmp)
    run_sphere(ctx, prox, lines, cmp)
    run_sphere_int_args(ctx, prox, lines, cmp)
    run_dist(ctx, conv, lines, cmp)
    run_kernels(ctx, conv, lines, cmp)
    run_cellsize(ctx, conv, lines, cmp)
    run_large_kernels(ctx, conv, lines, cmp)
    run_themes(ctx, prox, conv, lines, cmp)
    flush(ctx, lines, cmp)
    ctx.exhaustive = False


def search(ctx):
    old, model = ctx.tier, ctx.model
    ctx.tier = 'thorough'
    ctx.model = None
    try:
        run(ctx)
    finally:
        ctx.tier, ctx.model = old, model


def _pf(v):
    return float(v) if isinstance(v, str) else v


def replay_case(ctx, case):
    prox, conv = _impl()
    fam = case.get('family')
    lines, cmp = [], []
    ctx.case(case)
    if fam == 'plane':
        f = prox.euclidean_distance if case['metric'] == 'euclidean' else prox.manhattan_distance
        w = plane_oracle(case['metric'], f, tuple(case['A']), tuple(case['B']), tuple(case['C']))
        if w:
            ctx.violation('oracle', w, case)
    elif fam == 'sphere':
        A, B, C = [tuple(_pf(v) for v in case[k]) for k in 'ABC']
        w = sphere_oracle(prox, A, B, C)
        if w:
            ctx.violation('oracle', w, case)
        if 'radius' in case and 'pair' in case:
            P, Q = [tuple(_pf(v) for v in pt) for pt in case['pair']]
            w = radius_oracle(P, Q, float(case['radius']), gc_call(prox, P, Q, float(case['radius'])))
            if w:
                ctx.violation('oracle', w, case)
    elif fam == 'distance-string':
        default_unit, units_tbl = read_units(os.environ.get('VERIF_REPO', '/repo'))
        check_dist(ctx, conv, case['string'], case.get('tag', 'replay'), units_tbl, default_unit, lines, cmp)
    elif fam == 'scalar-types' and case.get('metric') in ('euclidean', 'manhattan'):
        T = getattr(np, case['type'])
        A, B, C = [tuple(T(v) for v in case[k]) for k in 'ABC']
        f = prox.euclidean_distance if case['metric'] == 'euclidean' else prox.manhattan_distance
        rel = {'float32': 1e-5}.get(case['type'], 1e-12)
        w = lowprec_metric_oracle(case['metric'], f, A, B, C, rel)
        if w:
            ctx.violation('oracle', w, case, key=KEY_UNSIGNED if (case['type'].startswith('uint') and case['metric'] == 'manhattan' and '+19' in w) else None)
    elif fam in ('scalar-types', 'interleaved-signatures', 'circle-ulp', 'kernel-sequence', 'cellsize-theme'):
        run_themes(ctx, prox, conv, lines, cmp)          # the (cheap) theme streams as a whole
    elif fam == 'large-ellipse':
        check_large_ellipse(ctx, conv, case, lines, cmp)
    elif fam == 'large-circle':
        check_large_circle(ctx, conv, case, lines, cmp)
    elif fam == 'large-annulus':
        check_large_annulus(ctx, conv, case, lines, cmp)
    else:
        # kernels / cellsize: re-run the whole (cheap) family
        run_kernels(ctx, conv, lines, cmp)
        run_cellsize(ctx, conv, lines, cmp)
    flush(ctx, lines, cmp)
