"""C11 — results depend only on the arguments, not on earlier calls or thread timing.

Static part: `facts(repo)` regenerates from the source, on every run, the inventory of everything a call could
read from or leave behind in the process (module-level mutable objects, mutable default arguments, global-RNG use,
jitted closures and what they capture, caching decorators, `global` statements, function-attribute stores,
parallel=True decorators / prange users) and the per-function `fninfo` records of coq/C11/Model.v.
coq/C11 proves `history_independent` for the state machine under the obligations and discharges the obligations
on the generated facts by vm_compute.

Dynamic part (oracle + correspondence): seeded random sequences of public calls in one process, every call issued
twice in a row, each result compared bit-for-bit with the same call alone in a fresh subprocess, re-run under
NUMBA_NUM_THREADS / Dask threads in {1, 4, 16}.
"""
import ast
import hashlib
import json
import os
import random
import subprocess
import sys
import time

from harness.props import c10 as ir

ID = 'C11'

MODULES = ir.MODULES
RNG_DRAWS = {'permutation', 'choice', 'rand', 'randn', 'randint', 'random', 'random_sample', 'shuffle', 'normal',
             'uniform', 'standard_normal', 'sample', 'ranf', 'bytes', 'poisson', 'binomial', 'beta', 'gamma'}
CACHE_DECOS = ('lru_cache', 'functools.cache', 'cache', 'memoize', 'cached', 'cachedmethod')
JIT_NAMES = ('ngjit', 'jit', 'njit', 'nb.jit', 'nb.njit', 'numba.jit', 'numba.njit', 'generated_jit', 'vectorize',
             'guvectorize', 'stencil')
MUTATING_METHODS = ir.METH_WRITE | ir.METH_CONT_WRITE | {'setdefault', 'pop', 'popitem', '__setitem__', '__delitem__'}


class Facts(object):
    pass


def _is_mutable_value(v):
    """a module-level / default value that can be modified in place"""
    if isinstance(v, (ast.Dict, ast.List, ast.Set, ast.ListComp, ast.DictComp, ast.SetComp)):
        return True
    if isinstance(v, ast.Call):
        fn = ast.unparse(v.func)
        last = fn.split('.')[-1]
        # calls known to produce immutable values / decorators; every other call may build a mutable object
        if last in IMMUTABLE_CALLS:
            return False
        return True
    return False


IMMUTABLE_CALLS = {'jit', 'njit', 'ngjit', 'float', 'int', 'str', 'bool', 'tuple', 'frozenset', 'float32', 'float64',
                   'int8', 'int16', 'int32', 'int64', 'uint8', 'uint16', 'uint32', 'uint64', 'dtype', 'iinfo', 'finfo',
                   'compile', 'namedtuple', 'TypeVar', 'getLogger', 'radians', 'sqrt'}


def _deco_text(d):
    return ast.unparse(d)


def _kw_true(call, name):
    for k in call.keywords:
        if k.arg == name and isinstance(k.value, ast.Constant) and k.value.value is True:
            return True
    return False


def collect(repo):
    """the C11 inventory, regenerated from the source (fail closed: anything unclassifiable raises)"""
    F = Facts()
    ir.check_module_list(repo)
    base = os.path.join(repo, 'xrspatial')
    trees = {m: ast.parse(open(os.path.join(base, m + '.py')).read()) for m in MODULES}
    F.module_tables = []          # (module, name, line)
    F.mutable_defaults = []       # (module, function, param, line)
    F.module_writes = []          # (module, function, line, what)
    F.global_rebinds = []         # (module, function, line, names)
    F.func_attr_writes = []       # (module, function, line, what)
    F.cache_decorated = []        # (module, function, line, decorator)
    F.parallel_kernels = []       # (module, function/alias, line, decorator)
    F.jit_aliases = []            # (module, name, line, text, parallel?)
    F.prange_users = []           # (module, function, line, decorator, under non-parallel jit?)
    F.jit_closures = []           # (module, closure, enclosing, line, captured names, recreated per call?)
    F.rng_functions = []          # (module, function, mode 1 seed-then-draw / 2 unseeded, lines)
    F.rng_state_writers = []      # functions calling np.random.seed
    F.functions = []              # (module, qualname, line)
    parallel_alias = {}           # module -> {alias name: parallel?}

    for m, tree in trees.items():
        mod_tables = {}
        mod_funcs = {}
        parallel_alias[m] = {}
        # ---- module level -----------------------------------------------------------------
        for n in tree.body:
            if isinstance(n, ast.Assign):
                for t in n.targets:
                    if isinstance(t, ast.Name):
                        if _is_mutable_value(n.value):
                            mod_tables[t.id] = n.lineno
                            F.module_tables.append((m, t.id, n.lineno))
                        v = n.value
                        if isinstance(v, ast.Call) and ast.unparse(v.func).split('.')[-1] in ('jit', 'njit'):
                            par = _kw_true(v, 'parallel')
                            parallel_alias[m][t.id] = par
                            F.jit_aliases.append((m, t.id, n.lineno, ast.unparse(v), par))
                            if par:
                                F.parallel_kernels.append((m, t.id, n.lineno, ast.unparse(v)))
            elif isinstance(n, ast.AugAssign) and isinstance(n.target, ast.Name) and n.target.id in mod_tables:
                F.module_writes.append((m, '<module>', n.lineno, 'augmented assignment to %s' % n.target.id))
            elif isinstance(n, (ast.FunctionDef, ast.ClassDef)):
                mod_funcs[n.name] = n
        F._mod_tables = getattr(F, '_mod_tables', {})
        F._mod_tables[m] = mod_tables
        F._mod_funcs = getattr(F, '_mod_funcs', {})
        F._mod_funcs[m] = mod_funcs

    # jit aliases imported from utils (ngjit)
    util_alias = parallel_alias.get('utils', {})

    def deco_is_parallel(m, d):
        if isinstance(d, ast.Call):
            if _kw_true(d, 'parallel'):
                return True
            return False
        nm = ast.unparse(d)
        if nm in parallel_alias[m]:
            return parallel_alias[m][nm]
        if nm in util_alias:
            return util_alias[nm]
        return False

    def deco_is_jit(d):
        t = ast.unparse(d.func if isinstance(d, ast.Call) else d)
        return t in JIT_NAMES or t.split('.')[-1] in ('jit', 'njit', 'ngjit', 'generated_jit')

    def walk_funcs(m, node, qual, enclosing):
        for n in ast.iter_child_nodes(node):
            if isinstance(n, (ast.FunctionDef, ast.AsyncFunctionDef)):
                q = (qual + '.' if qual else '') + n.name
                handle_func(m, n, q, enclosing)
                walk_funcs(m, n, q, n)
            elif isinstance(n, ast.ClassDef):
                walk_funcs(m, n, (qual + '.' if qual else '') + n.name, enclosing)
            elif not isinstance(n, ast.Lambda):
                walk_funcs(m, n, qual, enclosing)

    def local_names(fn):
        """names bound inside fn (params, assignments, loops, imports, defs) — not in nested functions"""
        names = set(a.arg for a in fn.args.posonlyargs + fn.args.args + fn.args.kwonlyargs)
        if fn.args.vararg:
            names.add(fn.args.vararg.arg)
        if fn.args.kwarg:
            names.add(fn.args.kwarg.arg)

        def visit(n):
            for c in ast.iter_child_nodes(n):
                if isinstance(c, (ast.FunctionDef, ast.ClassDef)):
                    names.add(c.name)
                    continue
                if isinstance(c, ast.Lambda):
                    continue
                if isinstance(c, ast.Name) and isinstance(c.ctx, (ast.Store, ast.Del)):
                    names.add(c.id)
                if isinstance(c, (ast.Import, ast.ImportFrom)):
                    for a in c.names:
                        names.add((a.asname or a.name).split('.')[0])
                if isinstance(c, ast.ExceptHandler) and c.name:
                    names.add(c.name)
                visit(c)
        visit(fn)
        return names

    def handle_func(m, fn, qual, enclosing):
        F.functions.append((m, qual, fn.lineno))
        gpu = any('cuda' in _deco_text(d) for d in fn.decorator_list)
        # ---- decorators: caches, parallel ---------------------------------------------------
        for d in fn.decorator_list:
            t = _deco_text(d)
            head = ast.unparse(d.func) if isinstance(d, ast.Call) else t
            if head in CACHE_DECOS or head.split('.')[-1] in CACHE_DECOS:
                F.cache_decorated.append((m, qual, fn.lineno, t))
            if isinstance(d, ast.Call) and _kw_true(d, 'cache') and enclosing is not None:
                F.cache_decorated.append((m, qual, fn.lineno, t + '  (on-disk cache of a closure)'))
            if deco_is_parallel(m, d):
                F.parallel_kernels.append((m, qual, fn.lineno, t))
        # ---- mutable defaults -----------------------------------------------------------------
        a = fn.args
        pos = a.posonlyargs + a.args
        for p, dv in list(zip(pos[len(pos) - len(a.defaults):], a.defaults)) + \
                [(p, dv) for p, dv in zip(a.kwonlyargs, a.kw_defaults) if dv is not None]:
            if _is_mutable_value(dv):
                F.mutable_defaults.append((m, qual, p.arg, fn.lineno))
        if gpu:
            return
        loc = local_names(fn)
        tables = F._mod_tables[m]
        # ---- statements of this function (not nested ones) ---------------------------------------
        draws = []
        seeds = []
        # local names that ARE the global RNG (g = np.random) or an entropy-seeded generator (RandomState() / default_rng())
        rng_alias = set()
        for n in ast.walk(fn):
            if isinstance(n, ast.Assign) and len(n.targets) == 1 and isinstance(n.targets[0], ast.Name):
                v = n.value
                t = ast.unparse(v.func) if isinstance(v, ast.Call) else ast.unparse(v)
                if t in ('np.random', 'numpy.random', 'random'):
                    rng_alias.add(n.targets[0].id)
                elif isinstance(v, ast.Call) and t.split('.')[-1] in ('RandomState', 'default_rng', 'Generator', 'Random') and \
                        not v.args and not v.keywords:
                    rng_alias.add(n.targets[0].id)

        def own_nodes(n):
            for c in ast.iter_child_nodes(n):
                if isinstance(c, (ast.FunctionDef, ast.ClassDef, ast.Lambda)):
                    continue
                yield c
                for x in own_nodes(c):
                    yield x
        uses_prange = False
        for n in own_nodes(fn):
            if isinstance(n, (ast.Global, ast.Nonlocal)):
                F.global_rebinds.append((m, qual, n.lineno, ','.join(n.names)))
            # in-place modification of a module-level table
            tgt = None
            what = None
            if isinstance(n, (ast.Assign, ast.AugAssign, ast.AnnAssign, ast.Delete)):
                ts = n.targets if isinstance(n, (ast.Assign, ast.Delete)) else [n.target]
                for t in ts:
                    b = t
                    while isinstance(b, (ast.Subscript, ast.Attribute)):
                        b = b.value
                    if isinstance(b, ast.Name) and b is not t and b.id not in loc:
                        if b.id in tables:
                            F.module_writes.append((m, qual, n.lineno, 'store into module table %s' % b.id))
                        elif b.id in F._mod_funcs[m] and isinstance(t, ast.Attribute):
                            F.func_attr_writes.append((m, qual, n.lineno, 'attribute store on module object %s' % b.id))
                    if isinstance(n, ast.AugAssign) and isinstance(t, ast.Name) and t.id in tables and t.id not in loc:
                        F.module_writes.append((m, qual, n.lineno, 'augmented assignment to module table %s' % t.id))
            if isinstance(n, ast.Call) and isinstance(n.func, ast.Attribute):
                b = n.func.value
                while isinstance(b, (ast.Subscript, ast.Attribute)):
                    b = b.value
                if isinstance(b, ast.Name) and b.id in tables and b.id not in loc and n.func.attr in MUTATING_METHODS:
                    F.module_writes.append((m, qual, n.lineno, '%s.%s() on a module table' % (b.id, n.func.attr)))
                # global RNG
                txt = ast.unparse(n.func)
                if isinstance(n.func.value, ast.Name) and n.func.value.id in rng_alias and n.func.value.id in loc:
                    txt = 'np.random.' + n.func.attr
                    n._rng_alias = True
                if txt.startswith(('np.random.', 'numpy.random.', 'random.')):
                    meth = n.func.attr
                    if meth == 'seed':
                        seeds.append(n)
                    elif meth in RNG_DRAWS:
                        draws.append(n)
                    elif meth in ('RandomState', 'default_rng', 'Generator', 'get_state'):
                        pass
                    else:
                        raise ir.Unsupported('unclassified RNG call %s at %s.py:%d' % (txt, m, n.lineno))
            if isinstance(n, ast.Call) and ast.unparse(n.func).split('.')[-1] == 'prange':
                uses_prange = True
        if uses_prange:
            jd = [d for d in fn.decorator_list if deco_is_jit(d)]
            F.prange_users.append((m, qual, fn.lineno, ', '.join(_deco_text(d) for d in fn.decorator_list),
                                   bool(jd) and not any(deco_is_parallel(m, d) for d in fn.decorator_list)))
        # ---- RNG discipline: every draw is immediately dominated by seed(<expr of a `seed` parameter>) ---------
        if draws or seeds:
            params = set(x.arg for x in pos + a.kwonlyargs)

            def is_rng_call(c):
                return isinstance(c, ast.Call) and isinstance(c.func, ast.Attribute) and \
                    (ast.unparse(c.func).startswith(('np.random.', 'numpy.random.', 'random.')) or
                     getattr(c, '_rng_alias', False)) and \
                    (c.func.attr == 'seed' or c.func.attr in RNG_DRAWS)

            def seeds_from_param(c):
                names = set(x.id for x in ast.walk(c) if isinstance(x, ast.Name))
                return c.func.attr == 'seed' and ('seed' in names) and ('seed' in params)
            # (a) every draw is immediately dominated, in its own block, by np.random.seed(<seed parameter>)
            mode = 1
            for blk in blocks_of(fn):
                seeded_now = False
                for st in blk:
                    if isinstance(st, (ast.For, ast.While, ast.If, ast.With, ast.Try)):
                        seeded_now = False
                        continue
                    for c in [c for c in ast.walk(st) if is_rng_call(c)]:
                        if c.func.attr == 'seed':
                            seeded_now = seeds_from_param(c)
                        elif not seeded_now:
                            mode = 2
            # (b) or: the first RNG operation of the function, at the top level of its body, seeds from the parameter
            if mode == 2:
                first = None
                for st in fn.body:
                    cs = [c for c in ast.walk(st) if is_rng_call(c)]
                    if cs:
                        first = (st, cs)
                        break
                if first is not None and not isinstance(first[0], (ast.For, ast.While, ast.If, ast.With, ast.Try)) and \
                        seeds_from_param(first[1][0]) and isinstance(first[0], ast.Expr):
                    mode = 1
            if draws:
                F.rng_functions.append((m, qual, mode, sorted(set(d.lineno for d in draws))))
            if seeds:
                F.rng_state_writers.append((m, qual, sorted(set(s.lineno for s in seeds))))
        # ---- jitted closures ------------------------------------------------------------------------
        if enclosing is not None and any(deco_is_jit(d) for d in fn.decorator_list):
            used = set(x.id for x in ast.walk(fn) if isinstance(x, ast.Name) and isinstance(x.ctx, ast.Load))
            enc_loc = local_names(enclosing)
            captured = sorted((used - loc) & enc_loc)
            enc_cached = any((ast.unparse(d.func) if isinstance(d, ast.Call) else ast.unparse(d)).split('.')[-1] in CACHE_DECOS
                             for d in enclosing.decorator_list)
            # stored somewhere that outlives the call?
            escapes = False
            for n in ast.walk(enclosing):
                if isinstance(n, ast.Assign) and any(isinstance(x, ast.Name) and x.id == fn.name for x in ast.walk(n.value)):
                    for t in n.targets:
                        b = t
                        while isinstance(b, (ast.Subscript, ast.Attribute)):
                            b = b.value
                        if isinstance(b, ast.Name) and (b.id in tables or b.id in F._mod_funcs[m]) and b.id not in enc_loc:
                            escapes = True
                if isinstance(n, ast.Global) and fn.name in n.names:
                    escapes = True
            F.jit_closures.append((m, qual, enclosing.name, fn.lineno, captured, not (enc_cached or escapes)))

    def blocks_of(fn):
        out = []

        def visit(n):
            for f in ('body', 'orelse', 'finalbody'):
                b = getattr(n, f, None)
                if isinstance(b, list) and b and isinstance(b[0], ast.stmt):
                    out.append(b)
                    for s in b:
                        if not isinstance(s, (ast.FunctionDef, ast.ClassDef)):
                            visit(s)
            for h in getattr(n, 'handlers', []) or []:
                out.append(h.body)
                for s in h.body:
                    visit(s)
        visit(fn)
        return out

    for m, tree in trees.items():
        walk_funcs(m, tree, '', None)

    # ---- in-place modification of a mutable default through any alias: reuse the C10 effect IR --------------
    F.default_arg_writes = []
    tr, info, _ = ir.build(repo)
    F._tr = tr
    by_key = {}
    for k, fi in tr.funcs.items():
        by_key[(fi.module, fi.qual)] = fi
    for (m, qual, p, line) in F.mutable_defaults:
        fi = by_key.get((m, qual))
        if fi is None:
            raise ir.Unsupported('function %s.%s with a mutable default not found in the IR' % (m, qual))
        if fi.gpu:
            continue
        keys = ir.reachable(tr, fi)
        instrs = []
        for k in keys:
            instrs += tr.funcs[k].instrs
        roots = list(tr.param_pair(fi, p))
        _S, hits, _ret = ir.analyse_py(instrs, roots)
        for (s, kind) in hits:
            st = tr.sites[s]
            F.default_arg_writes.append((m, qual, p, st['file'], st['line'], st['what']))
    F.public = sorted(info)
    # in-place modification of a (raster / array / list) ARGUMENT by a raster function, outside the documented
    # exceptions (C10's static verdict): the next call that is handed the same objects would see other values
    F.argument_writes = []
    for p in ir.static_verdicts(tr, info):
        if 'site' in p:
            st = p['site']
            F.argument_writes.append((p['func'], p.get('param', ''), st['file'], st['line'], st['what']))
    return F


# ---- per public function fninfo (what the Coq state machine is instantiated with) -------------------------------
def call_graph(F):
    tr = F._tr
    g = {}
    for k, fi in tr.funcs.items():
        g[k] = set(fi.calls)
    return g


def fninfos(F):
    """public function -> (wr_tbl, wr_dflt, rng mode, jit mode, parallel) aggregated over everything it can reach"""
    tr = F._tr
    table_id = {(m, n): i + 1 for i, (m, n, _l) in enumerate(F.module_tables)}
    dflt_id = {(m, q, p): i + 1 for i, (m, q, p, _l) in enumerate(F.mutable_defaults)}
    by_mq = {(fi.module, fi.qual): fi for fi in tr.funcs.values()}
    out = []
    pubs = ir.public_functions(tr)
    for idx, fi in enumerate(pubs):
        name = fi.module.replace('/', '.') + '.' + fi.qual
        reach = set()
        for k in ir.reachable(tr, fi):
            f2 = tr.funcs[k]
            reach.add((f2.module, f2.qual))
        wr_tbl = sorted(set(table_id[(m, w.split()[-1])] for (m, q, _l, w) in F.module_writes
                            if (m, q) in reach and (m, w.split()[-1]) in table_id))
        if any((m, q) in reach for (m, q, _l, _n) in F.global_rebinds) or \
                any((m, q) in reach for (m, q, _l, _w) in F.func_attr_writes):
            wr_tbl = wr_tbl or [0]
        wr_dflt = sorted(set(dflt_id[(m, q, p)] for (m, q, p, _f, _l, _w) in F.default_arg_writes if (m, q) in reach))
        modes = [mode for (m, q, mode, _l) in F.rng_functions if (m, q) in reach]
        rng = 'DrawUnseeded' if 2 in modes else ('SeedThenDraw' if 1 in modes else 'NoRng')
        jit = 'NoClosure'
        for (m, q, enc, _l, cap, percall) in F.jit_closures:
            if (m, q) in reach:
                jit = 'PerCall' if percall and jit != 'Cached false' else 'Cached false'
        if any((m, q) in reach for (m, q, _l, _d) in F.cache_decorated):
            jit = 'Cached false'
        par = any((m, q) in reach for (m, q, _l, _d) in F.parallel_kernels if q in [x[1] for x in F.functions if x[0] == m]) or \
            any(par_alias for (m, _n, _l, _t, par_alias) in F.jit_aliases if par_alias)
        out.append((idx + 1, name, wr_tbl, wr_dflt, rng, jit, par))
    return out


def coq_str(s):
    return '"%s"' % s.replace('"', "'")


def facts(repo):
    F = collect(repo)
    infos = fninfos(F)
    o = []
    w = o.append
    w('(* GENERATED by harness/props/c11.py facts() from the xrspatial sources of the checked tree — do not edit. *)')
    w('Require Import Base.Prelude C11.Model.')
    w('Require Import String.')
    w('Local Open Scope string_scope.')
    w('Local Open Scope Z_scope.')
    w('')

    def lst(name, ty, items, comment):
        w('(* %s *)' % comment)
        w('Definition %s : list (%s) := [' % (name, ty))
        w(';\n'.join('  ' + x for x in items))
        w('].')
        w('')
    lst('module_tables', 'string * string * Z', ['(%s, %s, %d)' % (coq_str(m), coq_str(n), l) for m, n, l in F.module_tables],
        'every module-level mutable object (module, name, line)')
    lst('mutable_defaults', 'string * string * string * Z',
        ['(%s, %s, %s, %d)' % (coq_str(m), coq_str(q), coq_str(p), l) for m, q, p, l in F.mutable_defaults],
        'every mutable default argument (module, function, parameter, line)')
    lst('module_writes', 'string * string * Z * string',
        ['(%s, %s, %d, %s)' % (coq_str(m), coq_str(q), l, coq_str(x)) for m, q, l, x in F.module_writes],
        'in-place modifications of a module-level mutable object from any function')
    lst('default_arg_writes', 'string * string * string * Z * string',
        ['(%s, %s, %s, %d, %s)' % (coq_str(m), coq_str(q), coq_str(p), l, coq_str(x)) for m, q, p, _f, l, x in F.default_arg_writes],
        'in-place modifications (through any alias, any callee: C10 effect IR) of a mutable default argument')
    lst('argument_writes', 'string * string * string * Z * string',
        ['(%s, %s, %s, %d, %s)' % (coq_str(f), coq_str(p), coq_str(fl), l, coq_str(x)) for f, p, fl, l, x in F.argument_writes],
        'in-place modifications of an argument by a public raster function outside the documented exceptions (C10 effect IR)')
    lst('global_rebinds', 'string * string * Z * string',
        ['(%s, %s, %d, %s)' % (coq_str(m), coq_str(q), l, coq_str(x)) for m, q, l, x in F.global_rebinds],
        'global / nonlocal statements')
    lst('func_attr_writes', 'string * string * Z * string',
        ['(%s, %s, %d, %s)' % (coq_str(m), coq_str(q), l, coq_str(x)) for m, q, l, x in F.func_attr_writes],
        'attribute stores on module-level functions / classes (hidden caches)')
    lst('cache_decorated', 'string * string * Z * string',
        ['(%s, %s, %d, %s)' % (coq_str(m), coq_str(q), l, coq_str(x)) for m, q, l, x in F.cache_decorated],
        'memoising decorators (lru_cache & co; cache=True on a jitted closure)')
    lst('parallel_kernels', 'string * string * Z * string',
        ['(%s, %s, %d, %s)' % (coq_str(m), coq_str(q), l, coq_str(x)) for m, q, l, x in F.parallel_kernels],
        'decorators / decorator aliases with parallel=True')
    lst('jit_aliases', 'string * string * Z * string * bool',
        ['(%s, %s, %d, %s, %s)' % (coq_str(m), coq_str(n), l, coq_str(t), 'true' if p else 'false') for m, n, l, t, p in F.jit_aliases],
        'module-level jit aliases (ngjit = jit(nopython=True, nogil=True)) and whether they are parallel')
    lst('prange_users', 'string * string * Z * string * bool',
        ['(%s, %s, %d, %s, %s)' % (coq_str(m), coq_str(q), l, coq_str(d), 'true' if ok else 'false') for m, q, l, d, ok in F.prange_users],
        'functions using prange, their decorators, and whether they are jitted WITHOUT parallel=True (sequential prange)')
    lst('jit_closures', 'string * string * string * Z * list string * bool',
        ['(%s, %s, %s, %d, [%s], %s)' % (coq_str(m), coq_str(q), coq_str(e), l, '; '.join(coq_str(c) for c in cap),
                                          'true' if pc else 'false') for m, q, e, l, cap, pc in F.jit_closures],
        'jitted inner functions: (module, closure, enclosing function, line, captured names, re-created on every call?)')
    lst('rng_functions', 'string * string * Z * list Z',
        ['(%s, %s, %d, [%s])' % (coq_str(m), coq_str(q), mode, '; '.join(str(x) for x in ls)) for m, q, mode, ls in F.rng_functions],
        'functions drawing from the global NumPy RNG: mode 1 = np.random.seed(<seed parameter>) immediately before every draw, 2 = unseeded')
    w('(* per public function: (id, name, info) aggregated over every function it can reach *)')
    w('Definition public_infos : list (Z * string * fninfo) := [')
    w(';\n'.join('  (%d, %s, mkInfo [%s] [%s] %s %s %s)' % (
        i, coq_str(n), '; '.join(map(str, wt)), '; '.join(map(str, wd)), rng,
        ('(%s)' % jit) if ' ' in jit else jit, 'true' if par else 'false') for i, n, wt, wd, rng, jit, par in infos))
    w('].')
    return {'Generated.v': '\n'.join(o) + '\n'}


# =====================================================================================================
#  Dynamic part: call sequences in one process vs the same call alone in a fresh process, 1/4/16 threads
# =====================================================================================================
RULE = ('seeded random sequences of public calls (catalogue below, ~200 entries: every public function with each backend it supports and falsy / edge parameter values (k=1, passes=0, max_distance=0, empty lists, seed 0, zfactor 0); proximity/allocation/direction with varying targets, '
        'max_distance, metric; focal mean/apply/focal_stats/hotspots/convolution with varying kernels, passes, excludes; '
        'classifiers with varying k; zonal stats/crosstab/regions/trim/crop/binary/polygonize on int then float rasters and '
        'exclusion tuples; surface functions on int32/float64/float32; perlin/generate_terrain with varying seeds; bump) '
        'executed in ONE process, every call issued twice in a row; each result (sha256 of dtype, shape and raw bytes) '
        'compared with the same call executed alone in a FRESH subprocess, and the whole sequence re-run under '
        'NUMBA_NUM_THREADS = Dask threads in {1, 2, 4, 16} with the threaded and the synchronous Dask scheduler; thorough tier: every catalogue entry at least once and both orders (a, b, a) of every pair of variants of the same function (at most 6 seeded pairs per function). Sequences alternate argument TYPES for the type-specialised code '
        '(int -> float -> int). Theme entries: memory layouts (F, transposed, strided, reversed, read-only) of each array argument in turn, '
        'Dask chunkings (irregular, 1-wide, single, rows, per-argument different splits), several lazy results computed by ONE '
        'dask.compute after later calls, rasters derived (slice, copy, astype, assign_coords, reversed) from a shared, already '
        'processed raster, list parameters unsorted / duplicated / as ndarrays, big kernels and unit strings, values beyond '
        '2**24 / 2**31 / 2**53 and 2**+-100 scales, other coordinate systems, degenerate shapes and fills. '
        'A case is one call position in one sequence under one thread setting.')
TRUSTED = [
    'the AST inventory translator of harness/props/c11.py (module-level mutable objects, mutable defaults, RNG use, jitted '
    'closures, decorators) and the C10 effect IR it reuses for writes through aliases of a mutable default (unverified; '
    'regenerated every run)',
    'that the per-function fninfo records describe the real process state: Numba\'s dispatcher caches specialisations per '
    'argument TYPES (keyed completely by types) and freezes closure/global VALUES at compile time; NumPy global RNG semantics',
    'the result digest (sha256 over dtype, shape, bytes of the computed result) as the notion of "identical result"',
]
ASSUMPTIONS = ['CPU backends only (NumPy, Dask+NumPy); thread counts 1, 4, 16 on this 16-core machine',
               'bump() has no seed parameter and draws from the global RNG by design: excluded from the theorem\'s conclusion '
               '(seeded = false) and reported as known finding bump-unseeded-global-rng']
PARTIAL = [
    'proof/partial by nature: the theorem is about the state machine; that the generated facts capture every piece of process '
    'state (C extensions, Numba internals, Dask scheduler, OS) is not proved; thread timing and the Numba dispatcher are runtime '
    'behaviour the model cannot exhibit — covered only by the sequence-vs-fresh-process runs under 1/4/16 threads',
    'the RNG discipline check is syntactic (np.random.seed(<expr mentioning the `seed` parameter>) immediately before each draw '
    'in the same block)',
    'type-specialised dispatch (Numba per-dtype specialisation, polygonize._is_close chosen per type at compile time) is modelled '
    'as a cache keyed completely by argument types; its correctness is exercised dynamically by int->float->int alternation only',
]
LEVEL_TEXT = ('Proved for all interpretations of the numerical code / RNG / captured values, all per-function descriptions meeting '
              'the obligations, all reachable states (any finite call sequences under any schedules): a call that does not draw '
              'unseeded random numbers returns the same result from any two reachable states (C11_history_independent, '
              'C11_same_as_fresh, C11_seeded_generator_ignores_rng), with each obligation shown necessary by a refuting machine. '
              'Instantiated by vm_compute on the inventory regenerated from the checked tree (C11_generated_obligations: no '
              'module-table / mutable-default writes, no memoised closure, no parallel kernel, generators reseed; '
              'C11_history_independent_tree). That the inventory is the whole process state, and thread timing, are NOT proved: '
              'they are tested on every run by call sequences compared bit-for-bit with fresh subprocesses under 1/4/16 threads.')
LEVEL_NOTE = ('Trusted: Coq kernel + vm_compute; the inventory translator (and the C10 IR for alias-aware default-argument writes); '
              'the dynamic harness and its digest. Not modelled: Numba dispatcher internals, Dask scheduler, OS-level state.')
OCAML_UTILS = []


_ROPTS = {'list': None, 'pos': 0, 'scale': None}


def _raster(seed, dtype, backend, shape=(6, 7), kind='data'):
    import numpy as np
    import xarray as xr
    rng = random.Random(seed)
    h, w = shape
    opts = {}
    if _ROPTS['list']:
        opts = _ROPTS['list'][_ROPTS['pos']] if _ROPTS['pos'] < len(_ROPTS['list']) else {}
        _ROPTS['pos'] += 1
    if kind == 'zones':
        vals = [[1 + (r * 2 // h) * 2 + (c * 2 // w) for c in range(w)] for r in range(h)]
    elif kind == 'terrain':
        vals = [[rng.randint(0, 60) for c in range(w)] for r in range(h)]
    elif kind in ('zeros', 'ones', 'const'):
        v = {'zeros': 0, 'ones': 1, 'const': 3}[kind]
        vals = [[v for c in range(w)] for r in range(h)]
    elif kind == 'ramp':
        vals = [[(r * w + c) % 7 + 1 for c in range(w)] for r in range(h)]
    else:
        vals = [[rng.randint(0, 4) for c in range(w)] for r in range(h)]
    a = np.array(vals, dtype=dtype)
    if dtype.startswith('float') and kind == 'data':
        a[rng.randrange(h), rng.randrange(w)] = np.nan
    sc = _ROPTS.get('scale')
    if sc and kind not in ('zones',):
        if sc == 'big24':
            a = (a.astype('float64') * 2 + (2 ** 24 + 1)).astype(dtype)
        elif sc == 'big31':
            a = (a.astype('float64') * 2 + (2 ** 31 + 7)).astype(dtype)
        elif sc == 'big53':
            a = (a.astype('float64') * 4 + 2.0 ** 53).astype(dtype)
        elif sc == 'tiny' and a.dtype.kind == 'f':
            a = a * 2.0 ** -100
        elif sc == 'huge' and a.dtype.kind == 'f':
            a = a * 2.0 ** 100
    if opts.get('fill') == 'allequal':
        a[...] = 3
    elif opts.get('fill') == 'allnan' and a.dtype.kind == 'f':
        a[...] = np.nan
    lay = opts.get('layout')
    if lay == 'F':
        a = np.asfortranarray(a)
    elif lay == 'transposed':
        a = np.ascontiguousarray(a.T).T
    elif lay == 'reversed':
        a = np.ascontiguousarray(a[::-1, ::-1])[::-1, ::-1]
    elif lay == 'strided':
        big = np.zeros((2 * h, 3 * w), dtype=a.dtype)
        big[::2, ::3] = a
        a = big[::2, ::3]
    elif lay == 'readonly':
        a.flags.writeable = False
    data = a
    if backend == 'dask':
        import dask.array as da
        ch = opts.get('chunks')
        data = da.from_array(a, chunks=ir._chunks_for(ch, h, w) if ch else (max(1, h // 2), max(1, (w + 1) // 2)))
    ys, xs = ir._axis_coords(opts.get('coords', 'desc2'), h, w)
    attrs = {'res': tuple(opts.get('res', (2.0, 2.0)))} if opts.get('coords', 'desc2') == 'desc2' else {}
    return xr.DataArray(data, dims=['y', 'x'], name='r', coords={'y': ys, 'x': xs}, attrs=attrs)


def catalogue():
    """every call the sequences draw from: (key, fn, descriptor) — deterministic, so a fresh process can rebuild it"""
    C = []

    def add(fn, **kw):
        d = dict(fn=fn, backend=kw.pop('backend', 'numpy'), dtype=kw.pop('dtype', 'float64'), seed=kw.pop('seed', 11),
                 shape=kw.pop('shape', [6, 7]), kw=kw)
        C.append(d)
    for fn in ('proximity.proximity', 'proximity.allocation', 'proximity.direction'):
        add(fn, target_values=[1], max_distance='inf', distance_metric='EUCLIDEAN', dtype='int32')
        add(fn, target_values=[2, 3], max_distance=4.0, distance_metric='EUCLIDEAN', dtype='float64')
        add(fn, target_values=[1], max_distance=4.0, distance_metric='MANHATTAN', dtype='int32')
        add(fn, target_values=[], max_distance=6.0, distance_metric='EUCLIDEAN', dtype='float32')
    add('proximity.proximity', target_values=[3], max_distance='inf', distance_metric='MANHATTAN', dtype='float64')
    add('proximity.proximity', target_values=[1], max_distance='inf', distance_metric='EUCLIDEAN', dtype='int32', backend='dask')
    add('proximity.proximity', target_values=[1], max_distance=4.0, distance_metric='EUCLIDEAN', dtype='int32', backend='dask')
    for dt in ('int32', 'float64', 'float32'):
        for fn in ('slope.slope', 'aspect.aspect', 'curvature.curvature', 'hillshade.hillshade'):
            add(fn, dtype=dt)
        add('focal.apply', dtype=dt, kernel='cross3', shape=[40, 48])
        add('convolution.convolution_2d', dtype=dt, kernel='cross3', shape=[40, 48])
        add('focal.hotspots', dtype=dt, kernel='cross3', shape=[40, 48])
        add('zonal.regions', dtype=dt, neighborhood=4)
        add('experimental.polygonize.polygonize', dtype=dt, connectivity=4)
        add('classify.binary', dtype=dt, values=[1, 2] if dt == 'int32' else [1.0, 3.0])
        add('zonal.trim', dtype=dt, values=[0] if dt == 'int32' else [0.0, 1.0])
    add('focal.apply', dtype='float64', kernel='box5x3', shape=[40, 48])
    add('focal.apply', dtype='float64', kernel='cross3', shape=[40, 48], backend='dask')
    add('convolution.convolution_2d', dtype='float64', kernel='box5x3', shape=[40, 48])
    add('focal.mean', passes=1)
    add('focal.mean', passes=2, excludes=[0.0])
    add('focal.mean', passes=1, dtype='int32')
    add('focal.mean', passes=1, backend='dask')
    add('focal.focal_stats', kernel='cross3')
    add('focal.focal_stats', kernel='cross3', stats_funcs=['mean', 'sum'])
    for k in (2, 3, 5):
        add('classify.quantile', k=k)
        add('classify.equal_interval', k=k)
    add('classify.natural_breaks', k=3)
    add('classify.natural_breaks', k=3, num_sample=20)
    add('classify.natural_breaks', k=3, num_sample=20, shape=[9, 10])     # same num_sample, larger raster
    add('classify.natural_breaks', k=3, num_sample=20, shape=[5, 5])      # same num_sample, smaller raster
    add('classify.reclassify', bins=[1, 3, 5], new_values=[10, 20, 30])
    add('zonal.stats', dtype='float64')
    add('zonal.stats', dtype='int32', stats_funcs=['mean', 'sum'])
    add('zonal.stats', dtype='float64', backend='dask')
    add('zonal.crosstab', dtype='int32')
    add('zonal.crosstab', dtype='int32', zone_ids=[1, 2], cat_ids=[1, 2, 3])
    add('zonal.crop', dtype='int32', zones_ids=[1])
    add('zonal.crop', dtype='float64', zones_ids=[2.0, 4.0])
    add('experimental.polygonize.polygonize', dtype='int32', connectivity=8)
    add('zonal.regions', dtype='float64', neighborhood=8)
    for seed in (3, 5, 0):                                                # 0: a falsy but valid seed
        add('perlin.perlin', seed_arg=seed)
        add('terrain.generate_terrain', seed_arg=seed)
    add('perlin.perlin', seed_arg=5, backend='dask')
    add('perlin.perlin', seed_arg=5, freq=[2, 3])
    add('multispectral.ndvi', dtype='float64')
    add('multispectral.evi', dtype='int32')
    add('multispectral.true_color', dtype='float64')
    add('viewshed.viewshed', dtype='float64', x=4.0, y=6.0)
    add('pathfinding.a_star_search', dtype='float64', barriers=[0])
    add('pathfinding.a_star_search', dtype='float64')
    add('bump.bump')
    # 3-D values, category (layer) dimension first, C-contiguous, zones not sorted: every layer row is re-ordered by zone
    add('zonal.crosstab', dtype='float64', stack3=True, agg='sum')
    add('zonal.crosstab', dtype='int32', stack3=True, layer=0, agg='mean')
    # big rasters (>= 512*512 cells): only drawn by search() when a parallel / prange obligation broke
    add('focal.apply', dtype='float64', kernel='cross3', shape=[600, 700], big=True)
    add('focal.focal_stats', dtype='float64', kernel='cross3', shape=[600, 700], stats_funcs=['mean', 'max'], big=True)
    add('focal.hotspots', dtype='float64', kernel='cross3', shape=[600, 700], big=True)
    add('convolution.convolution_2d', dtype='float64', kernel='cross3', shape=[600, 700], big=True)
    # ---- quantifier audit: every public function, each backend it supports, falsy / edge parameter values ----
    for fn in ('proximity.allocation', 'proximity.direction'):
        add(fn, target_values=[1], max_distance=4.0, distance_metric='EUCLIDEAN', dtype='int32', backend='dask')
    add('proximity.proximity', target_values=[0], max_distance=0, distance_metric='EUCLIDEAN', dtype='int32')      # falsy values
    add('proximity.proximity', target_values=[1], max_distance='inf', distance_metric='GREAT_CIRCLE', dtype='float64')
    for fn in ('slope.slope', 'aspect.aspect', 'curvature.curvature', 'hillshade.hillshade'):
        add(fn, dtype='float64', backend='dask')
    add('hillshade.hillshade', dtype='float64', azimuth=0, angle_altitude=0)
    add('classify.quantile', k=3, backend='dask')
    add('classify.equal_interval', k=3, backend='dask')
    add('classify.reclassify', bins=[1, 3, 5], new_values=[10, 20, 30], backend='dask')
    add('classify.binary', dtype='float64', values=[1.0, 3.0], backend='dask')
    add('classify.binary', dtype='int32', values=[])
    add('classify.quantile', k=1)
    add('classify.equal_interval', k=1)
    add('classify.natural_breaks', k=1)
    add('classify.natural_breaks', k=3, num_sample=0)
    add('classify.natural_breaks', k=7, dtype='int32')
    add('focal.mean', passes=0)
    add('focal.mean', passes=1, excludes=[])
    add('focal.focal_stats', kernel='cross3', backend='dask')
    add('focal.focal_stats', kernel='cross3', stats_funcs=[])
    add('focal.hotspots', dtype='float64', kernel='cross3', shape=[40, 48], backend='dask')
    add('focal.apply', dtype='float64', kernel='cross3', func='max', shape=[12, 14])
    add('convolution.convolution_2d', dtype='float64', kernel='cross3', shape=[40, 48], backend='dask')
    add('convolution.custom_kernel', kernel='cross3')
    add('terrain.generate_terrain', seed_arg=5, backend='dask')
    add('terrain.generate_terrain', seed_arg=5, zfactor=0)
    add('perlin.perlin', seed_arg=5, freq=[0, 0])
    add('bump.bump', count=0, spread=0)
    for fn in ('arvi', 'gci', 'nbr', 'nbr2', 'ndmi', 'savi', 'sipi', 'ebbi'):
        add('multispectral.' + fn, dtype='float64')
    add('multispectral.ndvi', dtype='float64', backend='dask')
    add('multispectral.savi', dtype='float64', soil_factor=0.0)
    add('multispectral.true_color', dtype='float64', backend='dask')
    add('multispectral.true_color', dtype='int32', nodata=0, c=0.0, th=0.0)
    add('zonal.stats', dtype='float64', nodata_values=0)
    add('zonal.stats', dtype='float64', zone_ids=[])
    add('zonal.stats', dtype='float64', stats_funcs='custom')
    add('zonal.stats', dtype='float64', return_type='xarray.DataArray', stats_funcs=['mean', 'sum'])
    add('zonal.crosstab', dtype='int32', backend='dask')
    add('zonal.crosstab', dtype='int32', agg='percentage', nodata_values=0)
    add('zonal.crosstab', dtype='int32', zone_ids=[], cat_ids=[])
    add('zonal.apply', dtype='int32')
    add('zonal.trim', dtype='float64', values=[])
    add('zonal.crop', dtype='int32', zones_ids=[])
    add('zonal.regions', dtype='int32', neighborhood=8)
    add('pathfinding.a_star_search', dtype='float64', connectivity=4, snap_start=True, snap_goal=True, barriers=[0, 1])
    add('viewshed.viewshed', dtype='int32', x=0.0, y=0.0, observer_elev=0, target_elev=0)
    add('viewshed.viewshed', dtype='float64', x=4.0, y=6.0, observer_elev=10.0, target_elev=2.0)
    for fn, ref in [('cell_stats', False), ('combine', False), ('lesser_frequency', True), ('equal_frequency', True),
                    ('greater_frequency', True), ('lowest_position', False), ('highest_position', False), ('popularity', True),
                    ('rank', True)]:
        add('local.' + fn, dtype='int32', **({'ref_var': 'a'} if ref else {}))
    add('local.cell_stats', dtype='float64', func='max', data_vars=['a', 'c'])
    for fn in ('utils.get_dataarray_resolution', 'utils.calc_res', 'utils.get_xy_range', 'convolution.calc_cellsize',
               'analytics.summarize_terrain'):
        add(fn, dtype='float64')
        add(fn, dtype='int32', backend='dask')
    # ---- theme audit streams ----
    # 1. memory layouts (Numba specialises per layout) of each array argument separately
    for li, lay in enumerate(['F', 'transposed', 'strided', 'reversed', 'readonly']):
        add('slope.slope', dtype='float64', ropts=[{'layout': lay}])
        add('focal.apply', dtype='float32', kernel='cross3', shape=[12, 14], ropts=[{'layout': lay}])
        add('zonal.stats', dtype='float64', ropts=[{'layout': lay}, {}] if li % 2 else [{}, {'layout': lay}])
        add('proximity.proximity', target_values=[1], max_distance=4.0, dtype='int32', ropts=[{'layout': lay}])
        add('multispectral.evi', dtype='float64', ropts=[{}, {'layout': lay}, {}] if li % 2 else [{}, {}, {'layout': lay}])
    # 3. Dask chunkings: irregular, 1-wide, single, rows, per-argument different splits with the same maximum
    for ck in ('irregular', 'onewide', 'single', 'rows1'):
        add('slope.slope', dtype='float64', backend='dask', ropts=[{'chunks': ck}])
        add('focal.apply', dtype='float64', kernel='cross3', shape=[12, 14], backend='dask', ropts=[{'chunks': ck}])
        add('focal.mean', passes=2, backend='dask', ropts=[{'chunks': ck}])
        add('proximity.proximity', target_values=[1], max_distance=4.0, dtype='int32', backend='dask', ropts=[{'chunks': ck}])
        add('classify.quantile', k=3, backend='dask', ropts=[{'chunks': ck}])
        add('zonal.stats', dtype='float64', backend='dask', ropts=[{'chunks': ck}, {'chunks': 'samemax-a'}])
    add('multispectral.evi', dtype='float64', backend='dask', ropts=[{'chunks': 'samemax-a'}, {'chunks': 'samemax-b'}, {'chunks': 'samemax-a'}])
    add('multispectral.ndvi', dtype='float64', backend='dask', ropts=[{'chunks': 'samemax-a'}, {'chunks': 'samemax-b'}])
    add('multispectral.true_color', dtype='float64', backend='dask', ropts=[{'chunks': 'irregular'}, {'chunks': 'rows1'}, {'chunks': 'single'}])
    add('zonal.crosstab', dtype='int32', backend='dask', ropts=[{'chunks': 'samemax-b'}, {'chunks': 'samemax-a'}])
    # 5. list-valued parameters: unsorted, duplicates, absent entries, given as arrays of another dtype; big kernels; units
    add('zonal.stats', dtype='float64', zone_ids=[4, 1, 1, 9], stats_funcs=['sum', 'mean', 'count'])
    add('zonal.stats', dtype='float64', zone_ids=[1, 4, 9], stats_funcs=['count', 'sum', 'mean'])
    add('zonal.crosstab', dtype='int32', zone_ids=[4, 2, 2, 7], cat_ids=[3, 1, 1, 8])
    add('proximity.proximity', target_values=[3, 1, 1, 9], max_distance=4.0, dtype='int32')
    add('proximity.proximity', target_values=[1, 3], max_distance=4.0, dtype='int32', as_array=['target_values'], target_values_dtype='float32')
    add('classify.binary', dtype='float64', values=[3.0, 1.0, 1.0, 7.5])
    add('classify.binary', dtype='float32', values=[1, 3], as_array=['values'], values_dtype='int64')
    add('classify.reclassify', bins=[1, 3, 5], new_values=[10, 20, 30], as_array=['bins', 'new_values'], bins_dtype='float32', new_values_dtype='int16')
    add('zonal.trim', dtype='int32', values=[1, 0, 0])
    add('focal.mean', passes=1, excludes=[0.0, 2.0, 0.0])
    add('pathfinding.a_star_search', dtype='float64', barriers=[3, 0, 0], as_array=['barriers'], barriers_dtype='int32')
    add('convolution.circle_kernel', cellsize_x=1, cellsize_y=1, radius=12)
    add('convolution.circle_kernel', cellsize_x=1000, cellsize_y=1000, radius='3km')
    add('convolution.circle_kernel', cellsize_x=1, cellsize_y=1, radius='3 m')
    add('convolution.annulus_kernel', cellsize_x=0.5, cellsize_y=1, outer_radius='12ft', inner_radius='1 m')
    add('focal.apply', dtype='float64', kernel='circle:1,1,12', shape=[40, 48])
    add('focal.hotspots', dtype='float64', kernel='circle:1,1,12', shape=[40, 48])
    # 2. values: beyond float32 / int32 / 2**53, tiny and huge magnitudes (offset / scale of the data)
    for sc in ('big24', 'big31', 'big53', 'tiny', 'huge'):
        add('zonal.stats', dtype='float64' if sc not in ('big31',) else 'int64', scale=sc)
        add('slope.slope', dtype='float64', scale=sc)
        add('classify.equal_interval', k=3, scale=sc)
        add('multispectral.ndvi', dtype='float64', scale=sc)
    # 6. coordinate systems: ascending / negative / fractional, large spacing, x != y
    for ck in ('asc-frac', 'large'):
        for fn_, kw_ in [('slope.slope', {}), ('curvature.curvature', {}), ('convolution.calc_cellsize', {}), ('hillshade.hillshade', {}),
                         ('proximity.proximity', {'target_values': [1], 'max_distance': 'inf'}), ('viewshed.viewshed', {'coordpoint': True}),
                         ('pathfinding.a_star_search', {}), ('focal.hotspots', {'kernel': 'cross3'})]:
            add(fn_, dtype='float64' if fn_ != 'proximity.proximity' else 'int32', ropts=[{'coords': ck}], **kw_)
        add('slope.slope', dtype='float64', backend='dask', ropts=[{'coords': ck}])
    # 7. degenerate shapes and fills
    for shp in ([1, 1], [1, 5], [5, 1], [2, 2]):
        for fn_, kw_ in [('slope.slope', {}), ('aspect.aspect', {}), ('focal.mean', {'passes': 1}), ('focal.apply', {'kernel': 'cross3'}),
                         ('classify.quantile', {'k': 2}), ('classify.natural_breaks', {'k': 2}), ('zonal.regions', {}),
                         ('zonal.stats', {}), ('proximity.proximity', {'target_values': [1]}), ('perlin.perlin', {'seed_arg': 2}),
                         ('terrain.generate_terrain', {'seed_arg': 2, 'template': 'zeros'}), ('experimental.polygonize.polygonize', {}),
                         ('multispectral.ndvi', {}), ('zonal.trim', {'values': [0]}), ('hillshade.hillshade', {})]:
            add(fn_, dtype='float64' if fn_ not in ('zonal.regions', 'experimental.polygonize.polygonize', 'zonal.trim') else 'int32',
                shape=shp, **kw_)
        add('slope.slope', dtype='float64', backend='dask', shape=shp, ropts=[{'chunks': 'onewide'}])
    for fill in ('allnan', 'allequal'):
        for fn_, kw_ in [('slope.slope', {}), ('classify.quantile', {'k': 3}), ('classify.equal_interval', {'k': 3}),
                         ('classify.natural_breaks', {'k': 3}), ('focal.hotspots', {'kernel': 'cross3'}), ('zonal.stats', {}),
                         ('perlin.perlin', {'seed_arg': 2}), ('multispectral.ndvi', {}), ('zonal.trim', {'values': [3.0]})]:
            add(fn_, dtype='float64', ropts=[{'fill': fill}, {'fill': fill}], **kw_)
    # 4. rasters DERIVED from a shared, already processed raster (slice / shallow copy / cast / re-coordinated / reversed)
    for dv in ('slice', 'copy', 'astype', 'assign_coords', 'isel_rev'):
        for fn_, kw_ in [('convolution.calc_cellsize', {}), ('slope.slope', {}), ('focal.hotspots', {'kernel': 'cross3'}),
                         ('curvature.curvature', {})]:
            add(fn_, dtype='float64', share='A', shape=[12, 14], derive=dv, **kw_)
            add(fn_, dtype='int32', share='B', shape=[12, 14], backend='dask', derive=dv, **kw_)
    # seeded generators are functions of seed, shape and extent ONLY: templates holding zeros / ones / an existing
    # raster (no NaN, so that the min-max normalisation cannot hide a difference) must give the same bits (`equiv`)
    for tmpl in ('zeros', 'ones', 'ramp'):
        add('terrain.generate_terrain', seed_arg=7, template=tmpl, shape=[12, 14], equiv='terrain-seed7-f64')
        add('perlin.perlin', seed_arg=7, template=tmpl, shape=[12, 14], equiv='perlin-seed7-f64')
    add('terrain.generate_terrain', seed_arg=7, template='ones', shape=[12, 14], dtype='float32', equiv='terrain-seed7-f32')
    add('terrain.generate_terrain', seed_arg=7, template='zeros', shape=[12, 14], dtype='float32', equiv='terrain-seed7-f32')
    add('terrain.generate_terrain', seed_arg=7, template='ramp', shape=[12, 14], backend='dask', equiv='terrain-seed7-dask')
    add('terrain.generate_terrain', seed_arg=7, template='zeros', shape=[12, 14], backend='dask', equiv='terrain-seed7-dask')
    add('perlin.perlin', seed_arg=3, backend='dask')
    add('perlin.perlin', seed_arg=0, backend='dask')
    add('terrain.generate_terrain', seed_arg=3, backend='dask', template='ramp', shape=[12, 14])   # NaN-free template
    # true_color with a CONSTANT band (max == min: the normalisation kernel writes nothing for it)
    for cb in (0, 1, 2):
        add('multispectral.true_color', dtype='float64', const_band=cb, shape=[40, 48])
    add('multispectral.true_color', dtype='int32', const_band=1, shape=[40, 48], backend='dask')
    add('multispectral.true_color', dtype='float64', shape=[40, 48])
    # kernel constructors (no raster argument), repeated and interleaved with the same and other shapes, and focal
    # results built on freshly constructed kernels
    add('convolution.annulus_kernel', cellsize_x=1, cellsize_y=1, outer_radius=3, inner_radius=1)
    add('convolution.circle_kernel', cellsize_x=1, cellsize_y=1, radius=3)
    add('convolution.circle_kernel', cellsize_x=1, cellsize_y=1, radius=2)
    add('convolution.annulus_kernel', cellsize_x=1, cellsize_y=1, outer_radius=3, inner_radius=2)
    add('convolution.annulus_kernel', cellsize_x=1, cellsize_y=1, outer_radius=4, inner_radius=2)
    add('convolution.circle_kernel', cellsize_x=2, cellsize_y=1, radius=4)
    add('focal.apply', dtype='float64', kernel='circle:1,1,3', shape=[12, 14])
    add('convolution.convolution_2d', dtype='float64', kernel='annulus:1,1,3,1', shape=[12, 14])
    add('focal.focal_stats', dtype='float64', kernel='circle:1,1,2', stats_funcs=['mean', 'sum'], shape=[12, 14])
    # calls that share ONE raster object per process (share=<name>): a function that leaves something behind on
    # its input (attrs, coords, dtype) changes what later calls on that object return
    for fn, kw in [('convolution.calc_cellsize', {}), ('slope.slope', {}), ('focal.hotspots', {'kernel': 'cross3'}),
                   ('curvature.curvature', {}), ('aspect.aspect', {}), ('classify.quantile', {'k': 3}),
                   ('focal.mean', {'passes': 1}), ('proximity.proximity', {'target_values': [1], 'max_distance': 4.0})]:
        add(fn, dtype='float64', share='A', shape=[12, 14], **kw)
        add(fn, dtype='int32', share='B', shape=[12, 14], backend='dask', **kw)
    for i, d in enumerate(C):
        d['id'] = i
    return C


def _kernel(name):
    import numpy as np
    if name.startswith(('circle:', 'annulus:')):
        from xrspatial import convolution
        a = [int(x) for x in name.split(':')[1].split(',')]
        return convolution.circle_kernel(*a) if name.startswith('circle:') else convolution.annulus_kernel(*a)
    if name == 'cross3':
        return np.array([[0., 1., 0.], [1., 1., 1.], [0., 1., 0.]])
    if name == 'box5x3':
        return np.ones((5, 3))
    raise ValueError(name)


def _stack3(seed, dtype, shape):
    import numpy as np
    import xarray as xr
    rng = random.Random(seed)
    h, w = shape
    a = np.array([[[rng.randint(0, 4) for c in range(w)] for r in range(h)] for _l in range(3)], dtype=dtype)
    return xr.DataArray(a, dims=['layer', 'y', 'x'], name='v',
                        coords={'layer': np.array([10, 20, 30]), 'y': np.arange(h, dtype='float64')[::-1] * 2.0,
                                'x': np.arange(w, dtype='float64') * 2.0}, attrs={'res': (2.0, 2.0)})


def _plus_one(x):
    return x + 1


def _zrange(z):
    return z.max() - z.min()


def _zmean(z):
    return z.mean()


_SHARED = {}


def _shared_raster(d):
    """the one raster object calls with the same share name / dtype / backend / shape are all handed in this process"""
    k = (d['kw'].get('share'), d['dtype'], d['backend'], tuple(d['shape']), d['seed'])
    if k not in _SHARED:
        r = _raster(d['seed'], d['dtype'], d['backend'], tuple(d['shape']))
        r.attrs = {'crs': 'EPSG:3857'}          # no res / unit attribute: derived from the coordinates
        _SHARED[k] = r
    return _SHARED[k]


def prepare(d):
    """build the function and its argument objects for one catalogue call -> (f, args, kwargs)"""
    import importlib
    import numpy as np
    fn = d['fn']
    modname, fname = fn.rsplit('.', 1)
    f = getattr(importlib.import_module('xrspatial.' + modname), fname)
    kw = dict(d['kw'])
    kw.pop('big', None)
    stack3 = kw.pop('stack3', False)
    share = kw.pop('share', None)
    kw.pop('equiv', None)
    template = kw.pop('template', None)
    const_band = kw.pop('const_band', None)
    _ROPTS['list'] = kw.pop('ropts', None)
    _ROPTS['pos'] = 0
    derive = kw.pop('derive', None)
    _ROPTS['scale'] = kw.pop('scale', None)
    coordpoint = kw.pop('coordpoint', False)
    for k in kw.pop('as_array', None) or []:
        kw[k] = np.array(kw[k], dtype=kw.pop(k + '_dtype', None))
    shape = tuple(d['shape'])
    be, dt, seed = d['backend'], d['dtype'], d['seed']
    for k in list(kw):
        if isinstance(kw[k], str) and kw[k] == 'inf':
            kw[k] = np.inf
    if 'kernel' in kw:
        kw['kernel'] = _kernel(kw['kernel'])
    if 'seed_arg' in kw:
        kw['seed'] = kw.pop('seed_arg')
    if 'freq' in kw:
        kw['freq'] = tuple(kw['freq'])
    for k in ('x_range', 'y_range', 'full_extent'):
        if k in kw:
            kw[k] = tuple(kw[k])
    if 'values' in kw and fn == 'zonal.trim':
        kw['values'] = tuple(kw['values'])
    if 'zones_ids' in kw:
        kw['zones_ids'] = tuple(kw['zones_ids'])
    if fn == 'bump.bump':
        return f, (12, 10), dict(dict(count=8, spread=2), **kw)
    if fn == 'convolution.custom_kernel':
        return f, (kw['kernel'],), {}
    if fn.startswith('local.'):
        import xarray as xr
        return f, (xr.Dataset({n: _raster(seed + i, dt, be, shape) for i, n in enumerate('abc')}),), kw
    if fn == 'zonal.apply':
        return f, (_raster(seed, 'int32', be, shape, 'zones'), _raster(seed + 1, dt, be, shape), _plus_one), kw
    if kw.get('stats_funcs') == 'custom':
        kw['stats_funcs'] = {'range': _zrange, 'mean': _zmean}
    if fn == 'focal.apply' and 'func' in kw:
        from xrspatial import focal
        kw['func'] = {'max': focal._calc_max}[kw['func']]
    if fn in ('convolution.circle_kernel', 'convolution.annulus_kernel'):
        return f, (), kw
    if share:
        r = _shared_raster(d)
        # theme 4: a raster DERIVED from the shared (already processed) one inherits its attrs / coords / buffer
        if derive == 'slice':
            r = r[1:, 1:]
        elif derive == 'copy':
            r = r.copy(deep=False)
        elif derive == 'astype':
            r = r.astype('float32')
        elif derive == 'assign_coords':
            r = r.assign_coords(x=r['x'] * 3.0)
        elif derive == 'isel_rev':
            r = r.isel(y=slice(None, None, -1))
        return f, (r,), kw
    if fn == 'zonal.crosstab' and stack3:
        return f, (_raster(seed, 'int32' if dt.startswith('float') else dt, be, shape, 'zones'), _stack3(seed + 1, dt, shape)), kw
    if fn in ('zonal.stats', 'zonal.crosstab', 'zonal.crop'):
        return f, (_raster(seed, dt, be, shape, 'zones'), _raster(seed + 1, dt, be, shape)), kw
    if fn.startswith('multispectral.'):
        n = {'ndvi': 2, 'evi': 3, 'true_color': 3, 'arvi': 3, 'gci': 2, 'nbr': 2, 'nbr2': 2, 'ndmi': 2, 'savi': 2,
             'sipi': 3, 'ebbi': 3}[fname]
        return f, tuple(_raster(seed + i, dt, be, shape, 'const' if i == const_band else 'data') for i in range(n)), kw
    if fn == 'viewshed.viewshed':
        r = _raster(seed, dt, be, shape, 'terrain')
        if coordpoint:
            kw = dict(kw, x=float(r.x.values[2]), y=float(r.y.values[3]), observer_elev=3.0)
        return f, (r,), kw
    if template:
        return f, (_raster(seed, dt, be, shape, template),), kw
    if fn == 'pathfinding.a_star_search':
        r = _raster(seed, dt, be, shape)
        return f, (r, (float(r.y.values[0]), float(r.x.values[0])), (float(r.y.values[-1]), float(r.x.values[-1]))), kw
    return f, (_raster(seed, dt, be, shape),), kw


def call_prepared(f, args, kw):
    import contextlib
    import io
    import warnings
    warnings.filterwarnings('ignore')
    try:
        with contextlib.redirect_stdout(io.StringIO()), contextlib.redirect_stderr(io.StringIO()):
            res = f(*args, **kw)
        if res is None and getattr(f, '__name__', '') == 'apply' and len(args) >= 2:
            res = args[1]                 # zonal.apply: the result is the updated `values` raster (by contract)
        return digest(res)
    except Exception as e:
        return 'ERR:%s' % type(e).__name__, '%s: %s' % (type(e).__name__, str(e)[:80])


def lazy_call(f, args, kw):
    """invoke without computing: the (possibly lazy Dask) result object, or an exception marker"""
    import contextlib
    import io
    try:
        with contextlib.redirect_stdout(io.StringIO()), contextlib.redirect_stderr(io.StringIO()):
            return f(*args, **kw)
    except Exception as e:
        return RuntimeError('ERR:%s' % type(e).__name__)


def lazy_digest(res):
    if isinstance(res, RuntimeError):
        return str(res)
    try:
        return digest(res)[0]
    except Exception as e:
        return 'ERR:%s' % type(e).__name__


def args_digest(args, kw):
    """values, coordinates, attrs and name of every raster argument, plus the plain arguments"""
    import xarray as xr
    parts = []
    for a in list(args) + [kw[k] for k in sorted(kw)]:
        if isinstance(a, xr.DataArray):
            parts.append(digest([a, {k: v.values for k, v in a.coords.items()}.__repr__(), repr(sorted(a.attrs.items())), a.name])[0])
        elif callable(a):
            parts.append('callable')
        else:
            parts.append(digest(a)[0])
    return '|'.join(parts)


def execute(d):
    """run one catalogue call in this process on freshly built arguments -> (digest, short description)"""
    try:
        f, args, kw = prepare(d)
    except Exception as e:
        return 'ERR:prepare:%s' % type(e).__name__, str(e)[:80]
    return call_prepared(f, args, kw)


def digest(res, mark_dask=False):
    import numpy as np
    h = hashlib.sha256()
    desc = []
    first = [mark_dask]

    def feed(x):
        import xarray as xr
        import pandas as pd
        if isinstance(x, xr.DataArray):
            v = x.data
            if type(v).__module__.startswith('dask'):
                h.update(b'dask')
                v = v.compute()
            elif first[0]:
                h.update(b'dask')          # a Dask-backed result that was already computed jointly with others
            first[0] = False
            h.update(repr((tuple(x.dims), sorted(x.coords.keys()), sorted((str(k), repr(v)) for k, v in x.attrs.items()))).encode())
            feed(np.asarray(v))
        elif isinstance(x, xr.Dataset):
            for k in sorted(x.data_vars):
                feed(x[k])
        elif isinstance(x, np.ndarray):
            a = np.ascontiguousarray(x)
            h.update(repr((str(a.dtype), a.shape)).encode())
            h.update(a.tobytes())
            if not desc:
                desc.append('%s%s %s' % (a.dtype, a.shape, np.array2string(a.ravel()[:6], precision=6)))
        elif isinstance(x, pd.DataFrame):
            h.update(repr(list(map(str, x.columns))).encode())
            for c in x.columns:
                feed(np.asarray(x[c].to_numpy()))
        elif type(x).__module__.startswith('dask'):
            feed(x.compute())
        elif isinstance(x, (list, tuple)):
            h.update(('seq%d' % len(x)).encode())
            for y in x:
                feed(y)
        elif isinstance(x, (np.generic,)):
            feed(np.asarray(x))
        else:
            h.update(repr(x).encode())
            if not desc:
                desc.append(repr(x)[:60])
    feed(res)
    return h.hexdigest()[:32], (desc[0] if desc else '')


def worker_main():
    """stdin: {"calls": [descriptor...], "twice": bool, "threads": n}; stdout: JSON list of [digest, digest2, descr]"""
    req = json.load(sys.stdin)
    n = int(req.get('threads', 1))
    try:
        import dask
        sched = req.get('scheduler') or ('synchronous' if n == 1 else 'threads')
        dask.config.set(scheduler=sched, num_workers=n)
    except Exception:
        pass
    out = []
    pending = []                      # (row index, lazy result, calls still to wait for)
    LAG = 2

    def flush(all_=False):
        for item in pending:
            item[2] -= 1
        if pending and (all_ or any(item[2] < 0 for item in pending)):
            # when the oldest lazy result is due, EVERY pending lazy result is computed by ONE dask.compute
            items = list(pending)
            del pending[:]
            lazies = [it[1] for it in items]
            joint = None
            try:
                import dask
                import xarray as xr
                if len(lazies) > 1 and all(isinstance(x, xr.DataArray) for x in lazies):
                    joint = dask.compute(*lazies)
            except Exception:         # noqa
                joint = None
            for n_, it in enumerate(items):
                if joint is not None:
                    try:
                        out[it[0]].append(digest(joint[n_], mark_dask=True)[0])
                        continue
                    except Exception:  # noqa
                        pass
                out[it[0]].append(lazy_digest(it[1]))
    for d in req['calls']:
        flush()
        try:
            f, args, kw = prepare(d)
        except Exception as e:
            out.append(['ERR:prepare:%s' % type(e).__name__, None, str(e)[:80], False])
            continue
        a0 = args_digest(args, kw)
        r1 = call_prepared(f, args, kw)
        if req.get('twice'):
            # "repeating any call": the very same argument objects are passed again
            if d['fn'] == 'zonal.apply':
                # updates `values` in place BY CONTRACT: the same call means the same argument values, so rebuild them
                f, args, kw = prepare(d)
                a0 = args_digest(args, kw)
                r2 = call_prepared(f, args, kw)
                out.append([r1[0], r2[0], r1[1], False])
                continue
            r2 = call_prepared(f, args, kw)
            out.append([r1[0], r2[0], r1[1], args_digest(args, kw) != a0])
            if d['backend'] == 'dask' and not r1[0].startswith('ERR'):
                # deferred compute: request the lazy result now, compute it only after the next LAG calls were made
                pending.append([len(out) - 1, lazy_call(f, args, kw), LAG])
        else:
            out.append([r1[0], None, r1[1], args_digest(args, kw) != a0])
    flush(all_=True)
    sys.stdout.write('\n@@RESULT@@' + json.dumps(out) + '\n')


def run_proc(calls, twice, threads, timeout=2400, scheduler=None):
    env = dict(os.environ)
    env['NUMBA_NUM_THREADS'] = str(threads)
    env['OMP_NUM_THREADS'] = str(threads)
    env['NUMBA_DISABLE_PERFORMANCE_WARNINGS'] = '1'
    p = subprocess.run([sys.executable, '-c', 'from harness.props import c11; c11.worker_main()'],
                       input=json.dumps(dict(calls=calls, twice=twice, threads=threads, scheduler=scheduler)).encode(),
                       stdout=subprocess.PIPE, stderr=subprocess.PIPE, env=env, timeout=timeout)
    txt = p.stdout.decode('utf-8', 'replace')
    i = txt.rfind('@@RESULT@@')
    if i < 0:
        raise RuntimeError('worker failed rc=%s: %s' % (p.returncode, p.stderr.decode('utf-8', 'replace')[-500:]))
    return json.loads(txt[i + len('@@RESULT@@'):])


ALTERNATE = ['experimental.polygonize.polygonize', 'zonal.regions', 'zonal.trim', 'classify.binary', 'focal.apply',
             'convolution.convolution_2d', 'slope.slope', 'zonal.crop']


def gen_sequence(rng, cat, n):
    """n catalogue indices; type-alternation triples (int -> float -> int) for the type-specialised functions"""
    by_fn = {}
    for d in [x for x in cat if not x['kw'].get('big')]:
        by_fn.setdefault(d['fn'], []).append(d['id'])
    seq = []
    heavy = [d['id'] for d in cat if d['fn'].startswith('proximity.')]
    small = [d['id'] for d in cat if not d['kw'].get('big')]
    while len(seq) < n:
        u = rng.random()
        if u < 0.3:
            fn = rng.choice(ALTERNATE)
            ids = by_fn[fn]
            ints = [i for i in ids if cat[i]['dtype'].startswith('int')]
            flts = [i for i in ids if not cat[i]['dtype'].startswith('int')]
            if ints and flts:
                a = rng.choice(ints)
                seq += [a, rng.choice(flts), a]
                continue
        if u < 0.5:
            # same function, different parameters back to back (targets / max_distance / metric / k / kernel / seed)
            fn = rng.choice(sorted(by_fn))
            ids = by_fn[fn]
            if len(ids) >= 2:
                a, b = rng.sample(ids, 2)
                seq += [a, b, a]
                continue
        x = rng.choice(small)
        if cat[x]['kw'].get('share'):
            grp = [j for j in small if cat[j]['kw'].get('share') == cat[x]['kw']['share']]
            seq += [rng.choice(grp) for _ in range(3)]
            continue
        seq.append(x)
    seq = seq[:n]
    # keep the number of proximity-family calls (each re-JITs its closure, ~1 s) bounded
    cnt = 0
    for i, x in enumerate(seq):
        if x in heavy:
            cnt += 1
            if cnt > max(4, n // 4):
                seq[i] = rng.choice([j for j in small if j not in heavy])
    return seq


def static_part(ctx, repo):
    try:
        F = collect(repo)
    except Exception as e:
        ctx.violation('proof', 'inventory translator failed (fail closed): %s: %s' % (type(e).__name__, e), dict(error=str(e)))
        return None
    probs = []
    for (m, q, l, w) in F.module_writes:
        probs.append('module_writes: %s.py:%d in %s: %s' % (m, l, q, w))
    for (m, q, p, f, l, w) in F.default_arg_writes:
        probs.append('default_arg_writes: mutable default `%s` of %s.%s may be modified at %s:%d (%s)' % (p, m, q, f, l, w))
    for (f, p, fl, l, w) in F.argument_writes:
        probs.append('argument_writes: %s may modify its argument `%s` in place at %s:%d (%s): repeating the call on the same '
                     'objects passes other values' % (f, p, fl, l, w))
    for (m, q, l, n) in F.global_rebinds:
        probs.append('global_rebinds: %s.py:%d in %s: global %s' % (m, l, q, n))
    for (m, q, l, w) in F.func_attr_writes:
        probs.append('func_attr_writes: %s.py:%d in %s: %s' % (m, l, q, w))
    for (m, q, l, d) in F.cache_decorated:
        probs.append('cache_decorated: %s.py:%d %s is decorated with %s' % (m, l, q, d))
    for (m, q, l, d) in F.parallel_kernels:
        probs.append('parallel_kernels: %s.py:%d %s: %s' % (m, l, q, d))
    for (m, q, l, d, ok) in F.prange_users:
        if not ok:
            probs.append('prange_users: %s.py:%d %s uses prange under %s' % (m, l, q, d or 'no jit decorator'))
    for (m, q, e, l, cap, pc) in F.jit_closures:
        if not pc:
            probs.append('jit_closures: %s.py:%d closure %s capturing %s is kept between calls' % (m, l, q, cap))
    for (m, q, mode, ls) in F.rng_functions:
        if mode != 1 and (m, q) != ('bump', 'bump'):
            probs.append('rng_functions: %s.%s draws from the global RNG at lines %s without np.random.seed(seed) just before' % (m, q, ls))
    for p in probs:
        ctx.violation('proof', 'generated obligation broken — ' + p, dict(obligation=p))
    ctx.extra['static'] = dict(module_tables=['%s.%s' % (m, n) for m, n, _ in F.module_tables],
                               mutable_defaults=['%s.%s(%s)' % (m, q, p) for m, q, p, _ in F.mutable_defaults],
                               jit_closures=['%s.%s captures %s' % (m, q, cap) for m, q, _e, _l, cap, _pc in F.jit_closures],
                               prange_users=['%s.%s [%s]' % (m, q, d) for m, q, _l, d, _ok in F.prange_users],
                               rng_functions=['%s.%s mode %d' % (m, q, mode) for m, q, mode, _ in F.rng_functions],
                               functions_scanned=len(F.functions))
    return F


def joint_groups():
    """key-collision stream: for every function with a Dask path, a base lazy call and variants that differ from it in
    exactly ONE parameter (extent, zfactor, seed, kernel, bins, k, nodata, cellsize attr, the data, the dtype ...).
    All members of a group are evaluated in ONE graph and each must equal its result computed alone."""
    G = []

    def group(fn, base, variants, always=False, **top):
        def desc(kw, t):
            t = dict(top, **t)
            return dict(fn=fn, backend='dask', dtype=t.pop('dtype', 'float64'), seed=t.pop('seed', 11),
                        shape=t.pop('shape', [12, 14]), kw=kw)
        members = [desc(dict(base), {})]
        labels = ['base']
        for lab, delta in variants:
            t = {k[1:]: v for k, v in delta.items() if k.startswith('@')}          # '@seed', '@dtype': the DATA / dtype
            kw = dict(base, **{k: v for k, v in delta.items() if not k.startswith('@')})
            members.append(desc(kw, t))
            labels.append(lab)
        G.append(dict(fn=fn, members=members, labels=labels, always=always))
    FE = [0, 0, 500, 500]
    tb = dict(seed_arg=7, template='zeros', x_range=[0, 250], y_range=[0, 250], full_extent=FE, zfactor=4000)
    group('terrain.generate_terrain', tb, [
        ('x_range (tile to the east)', {'x_range': [250, 500]}), ('y_range (tile to the north)', {'y_range': [250, 500]}),
        ('full_extent', {'full_extent': [0, 0, 1000, 1000]}), ('zfactor', {'zfactor': 100}), ('seed', {'seed_arg': 8}),
        ('dtype of the template', {'@dtype': 'float32'})], always=True)
    group('perlin.perlin', dict(seed_arg=7, template='zeros'), [('seed', {'seed_arg': 8}), ('freq', {'freq': [2, 3]}),
                                                                 ('dtype of the template', {'@dtype': 'float32'})], always=True)
    data = [('the data (same shape and chunks)', {'@seed': 12}), ('dtype (same values)', {'@dtype': 'float32'})]
    for fn in ('slope.slope', 'curvature.curvature'):
        group(fn, {}, data + [('cell size (res attribute)', {'ropts': [{'res': [4.0, 4.0]}]})])
    group('aspect.aspect', {}, data)
    group('hillshade.hillshade', {}, data + [('azimuth', {'azimuth': 100}), ('angle_altitude', {'angle_altitude': 60})])
    group('focal.mean', {'passes': 1}, data + [('passes', {'passes': 2}), ('excludes', {'excludes': [0.0]})])
    group('focal.apply', {'kernel': 'cross3'}, data + [('kernel', {'kernel': 'box5x3'}), ('func', {'func': 'max'})])
    group('focal.focal_stats', {'kernel': 'cross3', 'stats_funcs': ['mean', 'max']}, data + [('kernel', {'kernel': 'box5x3'})])
    group('focal.hotspots', {'kernel': 'cross3'}, data + [('kernel', {'kernel': 'box5x3'})])
    group('convolution.convolution_2d', {'kernel': 'cross3'}, data + [('kernel', {'kernel': 'box5x3'})])
    group('classify.reclassify', {'bins': [1, 3, 5], 'new_values': [10, 20, 30]},
          data + [('bins', {'bins': [1, 2, 5]}), ('new_values', {'new_values': [10, 20, 31]})])
    group('classify.binary', {'values': [1.0, 3.0]}, data + [('values', {'values': [1.0, 2.0]})])
    group('classify.quantile', {'k': 3}, data + [('k', {'k': 4})])
    group('classify.equal_interval', {'k': 3}, data + [('k', {'k': 4})])
    for fn in ('proximity.proximity', 'proximity.allocation', 'proximity.direction'):
        group(fn, {'target_values': [1], 'max_distance': 4.0, 'distance_metric': 'EUCLIDEAN'},
              [('the data (same shape and chunks)', {'@seed': 12}), ('target_values', {'target_values': [2]}),
               ('max_distance', {'max_distance': 6.0}), ('distance_metric', {'distance_metric': 'MANHATTAN'})], dtype='int32')
    group('multispectral.ndvi', {}, data)
    group('multispectral.evi', {}, data + [('c1', {'c1': 5.0}), ('gain', {'gain': 2.0}), ('soil_factor', {'soil_factor': 0.5})])
    group('multispectral.savi', {}, data + [('soil_factor', {'soil_factor': 0.5})])
    group('multispectral.true_color', {}, data + [('nodata', {'nodata': 2}), ('c', {'c': 5.0}), ('th', {'th': 0.3})])
    group('zonal.stats', {'stats_funcs': ['mean', 'sum']}, [('the data (same shape and chunks)', {'@seed': 13}),
                                                            ('nodata_values', {'nodata_values': 2}), ('zone_ids', {'zone_ids': [1, 2]})])
    group('zonal.crosstab', {}, [('the data (same shape and chunks)', {'@seed': 13}), ('nodata_values', {'nodata_values': 2}),
                                 ('cat_ids', {'cat_ids': [1, 2]})], dtype='int32')
    return G


def joint_main():
    """stdin: {"groups": [group...], "threads": n}; for every group: each member computed ALONE (its own graph), then
    all members built lazily again and evaluated in ONE graph by dask.compute(*members) and, for rasters, by
    xr.Dataset({...}).compute(); prints the digests"""
    req = json.load(sys.stdin)
    n = int(req.get('threads', 1))
    import dask
    import xarray as xr
    dask.config.set(scheduler='synchronous' if n == 1 else 'threads', num_workers=n)
    out = []
    for g in req['groups']:
        row = dict(alone=[], compute=[], dataset=[], descr=[])
        lazies = []
        for d in g['members']:
            try:
                f, args, kw = prepare(d)
                r = call_prepared(f, args, kw)
                row['alone'].append(r[0])
                row['descr'].append(r[1])
            except Exception as e:
                row['alone'].append('ERR:prepare:%s' % type(e).__name__)
                row['descr'].append(str(e)[:60])
        for d in g['members']:
            try:
                f, args, kw = prepare(d)
                lazies.append(lazy_call(f, args, kw))
            except Exception as e:
                lazies.append(RuntimeError('ERR:prepare:%s' % type(e).__name__))
        ok = [i for i, x in enumerate(lazies) if not isinstance(x, RuntimeError)]
        row['compute'] = [str(x) if isinstance(x, RuntimeError) else None for x in lazies]
        row['dataset'] = [None] * len(lazies)
        try:
            joint = dask.compute(*[lazies[i] for i in ok])
            for i, r in zip(ok, joint):
                row['compute'][i] = digest(r, mark_dask=isinstance(lazies[i], xr.DataArray))[0]
        except Exception as e:
            for i in ok:
                row['compute'][i] = 'ERR:%s' % type(e).__name__
        das = [i for i in ok if isinstance(lazies[i], xr.DataArray)]
        if len(das) == len(ok) and len(das) > 1:
            try:
                # rebuild: the same lazy objects were just computed, take new ones for the merged Dataset graph
                fresh_l = []
                for i in das:
                    f, args, kw = prepare(g['members'][i])
                    fresh_l.append(lazy_call(f, args, kw))
                ds = xr.Dataset({'m%d' % k: x.reset_coords(drop=True).rename(None).drop_vars(list(x.coords), errors='ignore')
                                 for k, x in enumerate(fresh_l)}).compute()
                for k, i in enumerate(das):
                    row['dataset'][i] = digest(np_of(ds['m%d' % k]))[0]
                    row.setdefault('alone_values', {})[i] = digest(np_of(dask.compute(lazies[i])[0]))[0]
            except Exception as e:
                row['dataset_error'] = '%s: %s' % (type(e).__name__, str(e)[:80])
        out.append(row)
    sys.stdout.write('\n@@RESULT@@' + json.dumps(out) + '\n')


def np_of(x):
    import numpy as np
    return np.asarray(x.data)


def run_joint(groups, threads, timeout=2400):
    env = dict(os.environ)
    env['NUMBA_NUM_THREADS'] = str(threads)
    env['NUMBA_DISABLE_PERFORMANCE_WARNINGS'] = '1'
    p = subprocess.run([sys.executable, '-c', 'from harness.props import c11; c11.joint_main()'],
                       input=json.dumps(dict(groups=groups, threads=threads)).encode(),
                       stdout=subprocess.PIPE, stderr=subprocess.PIPE, env=env, timeout=timeout)
    txt = p.stdout.decode('utf-8', 'replace')
    i = txt.rfind('@@RESULT@@')
    if i < 0:
        raise RuntimeError('joint worker failed rc=%s: %s' % (p.returncode, p.stderr.decode('utf-8', 'replace')[-500:]))
    return json.loads(txt[i + len('@@RESULT@@'):])


def joint_stream(ctx, groups, threads_list, futs=None):
    """several lazy Dask results that differ in ONE parameter evaluated in one graph: each must be what it is alone"""
    import concurrent.futures as cf
    with cf.ThreadPoolExecutor(max_workers=3) as ex:
        futs = futs or {t: ex.submit(run_joint, groups, t) for t in threads_list}
        for t, fu in futs.items():
            try:
                res = fu.result()
            except Exception as e:
                ctx.violation('correspondence', 'harness: joint-graph subprocess failed: %s' % str(e)[:300], dict(threads=t))
                continue
            for g, row in zip(groups, res):
                base = g['members'][0]
                for i, d in enumerate(g['members']):
                    ctx.case(dict(joint=g['fn'], member=g['labels'][i], threads=t))
                    ctx.count('one-graph evaluation/%s' % g['fn'].split('.')[-1])
                    ctx.traces += 1
                    alone = row['alone'][i]
                    for how, got in (('dask.compute(a, b, ...)', row['compute'][i]),
                                     ('xr.Dataset({...}).compute()', row['dataset'][i])):
                        if got is None:
                            continue
                        ref = alone if how.startswith('dask.compute') else (row.get('alone_values') or {}).get(str(i),
                                                                            (row.get('alone_values') or {}).get(i))
                        if ref is None or got == ref:
                            continue
                        others = [j for j in range(len(g['members'])) if j != i and
                                  (row['compute'][j] if how.startswith('dask.compute') else row['dataset'][j]) == got]
                        ctx.violation('oracle', '%s: %d lazy Dask results that differ from the first only in ONE parameter each (%s) were '
                                                'evaluated in one graph by %s: member `%s` %s comes out as %s, computed alone it is %s [%s]%s '
                                                '(%d threads)' % (
                                                    g['fn'], len(g['members']), ', '.join(g['labels'][1:]), how, g['labels'][i],
                                                    json.dumps(d['kw'], sort_keys=True), got, ref, row['descr'][i],
                                                    ('; it is identical to member `%s`' % g['labels'][others[0]]) if others else '', t),
                                      dict(kind='joint-graph', group=g, member=i, threads=t))
                        break


def run_sequences(ctx, seqs, threads_list, baseline_ids=None):
    """seqs: list of lists of catalogue ids.  Runs every sequence under every thread count (each call twice) and one
    fresh process per distinct call; compares."""
    import concurrent.futures as cf
    cat = catalogue()
    distinct = sorted(set(x for s in seqs for x in s))
    jobs = {}
    with cf.ThreadPoolExecutor(max_workers=6) as ex:
        def settings(si):
            tl = threads_list[si] if isinstance(threads_list, dict) else threads_list
            return [(t, None) if isinstance(t, int) else tuple(t) for t in tl]
        for si, s in enumerate(seqs):
            for (t, sc) in settings(si):
                jobs[('seq', si, (t, sc))] = ex.submit(run_proc, [cat[i] for i in s], True, t, 2400, sc)
        for i in distinct:
            jobs[('fresh', i)] = ex.submit(run_proc, [cat[i]], False, 1)
        res = {}
        for k, f in jobs.items():
            try:
                res[k] = f.result()
            except Exception as e:
                ctx.violation('correspondence', 'harness: subprocess %r failed: %s' % (k, str(e)[:300]), dict(job=list(map(str, k))))
                res[k] = None
    fresh = {i: res[('fresh', i)][0] for i in distinct if res.get(('fresh', i))}
    groups = {}
    for i in distinct:
        g = cat[i]['kw'].get('equiv')
        if g and i in fresh:
            groups.setdefault(g, []).append(i)
    for g, ids_ in sorted(groups.items()):
        for i in ids_[1:]:
            ctx.traces += 1
            if fresh[i][0] != fresh[ids_[0]][0]:
                a, b = cat[ids_[0]], cat[i]
                ctx.violation('oracle', '%s(seed=%s) is not a function of seed, shape and extent only: template `%s` gives %s [%s], '
                                        'template `%s` gives %s [%s] (fresh process each, %s %s)' % (
                                            a['fn'], a['kw'].get('seed_arg'), a['kw'].get('template'), fresh[ids_[0]][0], fresh[ids_[0]][2],
                                            b['kw'].get('template'), fresh[i][0], fresh[i][2], b['backend'], b['dtype']),
                              dict(kind='sequence-position', sequence=[b], position=0, threads=1, scheduler=None, call=b,
                                   equiv_with=a))
    for si, s in enumerate(seqs):
        for (t, sc) in settings(si):
            r = res.get(('seq', si, (t, sc)))
            if r is None:
                continue
            for pos, (i, rr) in enumerate(zip(s, r)):
                d1, d2, descr = rr[0], rr[1], rr[2]
                args_changed = bool(rr[3]) if len(rr) > 3 else False
                d = cat[i]
                case = dict(kind='sequence-position', sequence=[cat[j] for j in s[:pos + 1]], position=pos, threads=t, scheduler=sc, call=d)
                ctx.case(dict(call=d['id'], fn=d['fn'], position=pos, threads=t, seq=si))
                ctx.count('%s/%s/%s' % (d['fn'].split('.')[-1], d['backend'], d['dtype']))
                ctx.count('threads/%d' % t)
                ctx.count('dask scheduler/%s' % (sc or ('synchronous' if t == 1 else 'threads')))
                bump = d['fn'] == 'bump.bump'
                key = 'bump-unseeded-global-rng' if bump else None
                what_call = '%s(%s, %s, %s)' % (d['fn'], d['backend'], d['dtype'], json.dumps(d['kw'], sort_keys=True))
                if d1 != d2:
                    ctx.violation('oracle', 'repeating %s immediately (same argument objects) gives a different result (%s vs %s) '
                                            'at position %d of the sequence, %d threads%s' % (
                                                what_call, d1, d2, pos, t,
                                                '; the call changed its own arguments' if args_changed else ''), case, key=key)
                if i in fresh:
                    ctx.traces += 1
                    if fresh[i][0] != d1:
                        ctx.violation('oracle', '%s at position %d (after %s) under %d threads returns %s [%s]; a fresh process returns '
                                                '%s [%s] for that call alone' % (
                                                    what_call, pos, [cat[j]['fn'].split('.')[-1] for j in s[max(0, pos - 3):pos]], t, d1, descr,
                                                    fresh[i][0], fresh[i][2]), case, key=key)
                        if not bump:
                            ctx.violation('correspondence', 'the model predicts history independence for %s; observed dependence' % d['fn'],
                                          case)
                # deferred compute after interleaving: the lazy Dask result requested at this position and computed only
                # after the next two calls must be the result of the call computed at once / in a fresh history
                if len(rr) > 4 and rr[4] is not None:
                    ctx.count('deferred dask compute/%s' % d['fn'].split('.')[-1])
                    ref = fresh[i][0] if i in fresh else d1
                    if rr[4] != ref:
                        later = [cat[j]['fn'].split('.')[-1] + json.dumps(cat[j]['kw'], sort_keys=True) for j in s[pos + 1:pos + 3]]
                        ctx.violation('oracle', 'the lazy Dask result of %s requested at position %d and computed after the next calls %s '
                                                'is %s; computed at once / in a fresh process it is %s (%d threads)' % (
                                                    what_call, pos, later, rr[4], ref, t),
                                      dict(case, sequence=[cat[j] for j in s[:pos + 3]], deferred=True), key=key)
    return res


def run(ctx):
    from harness import common
    static_part(ctx, common.REPO)
    cat = catalogue()
    rng = ctx.rng
    if ctx.quick():
        seqs = [gen_sequence(rng, cat, 22), gen_sequence(rng, cat, 10)]
        # thread counts {1, 2, 4, 16}; Dask schedulers: synchronous (also with 4 Numba threads) and threaded
        threads = {0: [1, 4, 16], 1: [2, (4, 'synchronous')]}
    else:
        seqs = [gen_sequence(rng, cat, rng.randint(40, 60)) for _ in range(3)]
        threads = {i: [1, 2, 4, 16, (4, 'synchronous')] for i in range(3)}
        # every catalogue entry at least once (each function with each backend it supports, every edge value)
        allc = [d['id'] for d in cat if not d['kw'].get('big')]
        rng.shuffle(allc)
        seqs.append(allc)
        threads[len(seqs) - 1] = [1, 16]
        # both orders of every pair of calls to the same function with different parameters: a, b, a
        fam = {}
        for d in cat:
            if not d['kw'].get('big') and not d['kw'].get('share'):
                fam.setdefault(d['fn'], []).append(d['id'])
        pairs = []
        for fn_, ids_ in sorted(fam.items()):
            prs = [(ids_[x], ids_[y]) for x in range(len(ids_)) for y in range(x + 1, len(ids_))]
            if len(prs) > 6:                  # a seeded subset of the pairs (the proximity family re-JITs per call)
                prs = rng.sample(prs, 6)
            for (x, y) in prs:
                pairs += [x, y, x]
        half = len(pairs) // 2 // 3 * 3
        for part in (pairs[:half], pairs[half:]):
            if part:
                seqs.append(part)
                threads[len(seqs) - 1] = [1, 4]
    # make sure bump (documented unseeded generator) and a seeded generator after it are in every run
    bump = [d['id'] for d in cat if d['fn'] == 'bump.bump'][0]
    perl = [d['id'] for d in cat if d['fn'] == 'perlin.perlin'][0]
    xt3 = [d['id'] for d in cat if d['fn'] == 'zonal.crosstab' and d['kw'].get('stack3')]
    def ids(fn, **kw):
        return [d['id'] for d in cat if d['fn'] == fn and all(d['kw'].get(k, d.get(k)) == v for k, v in kw.items())]
    kern = ids('convolution.annulus_kernel', outer_radius=3, inner_radius=1) + ids('convolution.circle_kernel', cellsize_x=1, radius=3) + \
        ids('focal.apply', kernel='circle:1,1,3') + ids('convolution.annulus_kernel', outer_radius=3, inner_radius=2) + \
        ids('convolution.convolution_2d', kernel='annulus:1,1,3,1')
    sh = rng.choice(['A', 'B'])
    before = ids('convolution.calc_cellsize', share=sh, derive=None) + ids('slope.slope', share=sh, derive=None)
    shared = before + ids('focal.hotspots', share=sh, derive=None) + before + ids('curvature.curvature', share=sh, derive=None)
    gen = ids('terrain.generate_terrain', template='zeros', dtype='float64', backend='numpy', seed_arg=7) + \
        ids('terrain.generate_terrain', template='ones', dtype='float64', backend='numpy', seed_arg=7) + \
        ids('perlin.perlin', template='zeros', seed_arg=7) + ids('perlin.perlin', template='ramp', seed_arg=7)
    tc = ids('multispectral.true_color', const_band=None, shape=[40, 48], backend='numpy')
    # a constant FIRST or LAST band (and the Dask kernel) after other float32 results of the same size, and repeated:
    # uninitialised memory shows (a constant middle band happens to pick up the previous band's buffer deterministically)
    tcblock = tc + ids('focal.apply', kernel='cross3', dtype='float64', backend='numpy', func=None)[:1] + \
        ids('multispectral.true_color', const_band=0, backend='numpy') + tc + \
        ids('multispectral.true_color', const_band=2, backend='numpy') + ids('multispectral.true_color', const_band=1, backend='dask')
    # lazy Dask results of the same function with other parameters (and a NumPy call) requested back to back: each is
    # computed only after the next two calls (deferred compute after interleaving)
    lazyblock = ids('perlin.perlin', seed_arg=5, backend='dask', freq=None, template=None) + ids('perlin.perlin', seed_arg=3, backend='numpy') + \
        ids('perlin.perlin', seed_arg=3, backend='dask') + ids('terrain.generate_terrain', seed_arg=7, backend='dask', template='zeros') + \
        ids('terrain.generate_terrain', seed_arg=3, backend='dask', template='ramp')
    seqs[0] = seqs[0][:max(0, len(seqs[0]) - 24)] + [perl, bump, perl] + xt3 + kern + shared + gen + tcblock + lazyblock
    # theme streams (appended after every earlier draw): a rotating sample of the layout / chunking / list-parameter /
    # degenerate-shape entries and calls on rasters derived from the shared, already processed raster
    def pick(pred, n):
        pool = [d['id'] for d in cat if pred(d) and not d['fn'].startswith('proximity.')]
        return rng.sample(pool, min(n, len(pool)))
    ro = lambda d, key: any(key in o for o in (d['kw'].get('ropts') or []))       # noqa: E731
    themeblock = pick(lambda d: ro(d, 'layout'), 1) + pick(lambda d: ro(d, 'chunks'), 2) + \
        pick(lambda d: d['kw'].get('derive') and d['kw'].get('share') == sh, 2) + \
        pick(lambda d: d['shape'] in ([1, 1], [1, 5], [5, 1], [2, 2]) or ro(d, 'fill'), 1) + \
        pick(lambda d: d['kw'].get('as_array') or d['kw'].get('scale') or ro(d, 'coords'), 1)
    seqs[0] = seqs[0] + themeblock
    # key-collision stream (appended): groups of lazy Dask results differing in one parameter, evaluated in one graph.
    # Quick: the seeded generators (terrain tiles by x_range / y_range / seed, perlin) always and a seeded sample of the
    # other functions, in ONE subprocess running alongside the sequences; thorough: every group under 1 / 4 / 16 threads.
    import concurrent.futures as cf
    G = joint_groups()
    jrng = random.Random(ctx.seed * 7919 + 11)          # own generator: earlier draws do not shift
    if ctx.quick():
        sel = []
        for g in G:
            if g['always']:
                keep = [0, 1, 2, 5] if g['fn'].startswith('terrain') else list(range(len(g['members'])))
                sel.append(dict(g, members=[g['members'][i] for i in keep], labels=[g['labels'][i] for i in keep]))
        sel += jrng.sample([g for g in G if not g['always'] and not g['fn'].startswith('proximity.')], 3)
        jset = [4]
    else:
        sel, jset = G, [1, 4, 16]
    jex = cf.ThreadPoolExecutor(max_workers=3)
    jfuts = {t: jex.submit(run_joint, sel, t) for t in jset}
    run_sequences(ctx, seqs, threads)
    joint_stream(ctx, sel, jset, futs=jfuts)
    jex.shutdown()
    ctx.exhaustive = False
    # ./check only widens the search when NO oracle violation was seen; the known bump finding is always seen, so
    # do it here when an obligation/correspondence broke and no failing input other than the known one was found
    if any(v['kind'] != 'oracle' for v in ctx.violations) and \
            not any(v['kind'] == 'oracle' and v['key'] is None for v in ctx.violations):
        search(ctx)


def search(ctx):
    """an obligation broke without a failing input: longer sequences biased to the functions named in the obligations"""
    if getattr(ctx, '_c11_searched', False):
        return
    ctx._c11_searched = True
    cat = catalogue()
    rng = ctx.rng
    names = ' '.join(v['what'] for v in ctx.violations)
    focus = [d['id'] for d in cat if d['fn'].split('.')[0] in names or d['fn'].split('.')[-1] in names]
    seqs = []
    for _ in range(3):
        s = gen_sequence(rng, cat, 30)
        if focus:
            for k in range(0, len(s), 2):
                s[k] = rng.choice(focus)
        seqs.append(s)
    # every variant of each focused function back to back, in both orders (stale state keyed on part of the arguments)
    fam = {}
    for i in focus:
        fam.setdefault(cat[i]['fn'], []).append(i)
    for fn_, ids in sorted(fam.items()):
        if len(ids) >= 2:
            seqs.append(ids + ids[::-1])
    if 'parallel' in names or 'prange' in names:
        # thread-count dependence may only show on rasters large enough to take a parallel code path
        big = [d['id'] for d in cat if d['kw'].get('big')]
        seqs.append(big + big)
    run_sequences(ctx, seqs, [1, 4, 16])
    joint_stream(ctx, joint_groups(), [4])


def replay_case(ctx, case):
    if case.get('kind') == 'joint-graph':
        joint_stream(ctx, [case['group']], [int(case.get('threads', 4))])
        return
    cat = catalogue()
    seq = case.get('sequence') or [case.get('call')]
    t = int(case.get('threads', 4))
    r = run_proc(seq, True, t, scheduler=case.get('scheduler'))
    f = run_proc([seq[-1]], False, 1)
    if case.get('deferred'):
        pos = int(case['position'])
        d = seq[pos]
        fr = run_proc([d], False, 1)
        ctx.case(dict(replay=True, fn=d['fn'], deferred=True))
        ctx.traces += 1
        got = r[pos][4] if len(r[pos]) > 4 else None
        if got is not None and got != fr[0][0]:
            ctx.violation('oracle', 'the lazy Dask result of %s computed after the next calls is %s, a fresh process gives %s' % (
                d['fn'], got, fr[0][0]), case)
        return
    d = seq[-1]
    ctx.case(dict(replay=True, fn=d['fn']))
    key = 'bump-unseeded-global-rng' if d['fn'] == 'bump.bump' else None
    d1, d2, descr = r[-1][0], r[-1][1], r[-1][2]
    ctx.traces += 1
    if d1 != d2:
        ctx.violation('oracle', 'repeating %s gives a different result (%s vs %s)' % (d['fn'], d1, d2), case, key=key)
    if f[0][0] != d1:
        ctx.violation('oracle', '%s after the recorded history returns %s, a fresh process %s' % (d['fn'], d1, f[0][0]), case, key=key)
