"""C12 — classifiers label every finite cell, in order, within [0, k-1].
Correspondence: xrspatial.classify (reclassify, binary, quantile, equal_interval, natural_breaks)
vs the extracted Coq model coq/C12/Model.v; oracle: the property text evaluated with exact arithmetic."""
import itertools
import math
from fractions import Fraction

import numpy as np
import xarray as xr

from harness import xvio

ID = 'C12'
LEVEL_TEXT = ('Proved in Coq for all inputs (any ascending NaN-free bin list of any length, +-inf bins and ties allowed, any value): the '
              'hand-written binary search of _cpu_bin (modelled with Numba\'s wrapping negative index and explicit fuel) terminates and returns '
              'the FIRST bin >= the value, NaN only above the last bin and on NaN/inf cells (C12_reclassify_first_bin); binary is 1 exactly on '
              'listed values, 0 on other finite cells, NaN otherwise (C12_binary_spec); for bins whose last element is >= the value every finite '
              'cell gets an integer class in [0,k-1] (C12_class_range), classes are order preserving (C12_class_monotone) and unique; '
              'equal_interval over exact cuts gives class i exactly on the i-th equal-width interval (C12_equal_interval_bands). '
              'natural_breaks: a faithful imperative model of _run_numpy_jenks_matrices (the triple loop over both matrices, the `>=` tie rule, '
              '+inf / zero initial entries, the skipped start 0, running w/sum/sum_squares) and of the back-tracking in _run_jenks, over exact '
              'rationals, is proved for EVERY data list and EVERY k >= 1 to compute the Fisher-Jenks recurrence cell by cell '
              '(C12_jenks_imp_var_combinations, _lower_class_limits, _tie_rule, _untouched, _variance_is_ssd, _min), that recurrence is the '
              'minimum within-class SSD over all partitions into k contiguous classes (C12_jenks_min_lower_bound / _attained), and on ascending '
              'data with at least k distinct values (what _run_natural_break guarantees) no back-tracking index underflows '
              '(C12_jenks_imp_no_underflow) and the back-tracked cuts are a partition into exactly k non-empty classes attaining that minimum, '
              'the returned breaks being the class maxima (C12_jenks_imp_backtrack_optimal, _breaks, _optimal_on_sorted_distinct). '
              'The tie to the code is the correspondence (all five public classifiers vs the extracted model, bins captured at the _bin call, '
              'exhaustive value-vs-bin positions for 1..12 (24 thorough) bins; _run_numpy_jenks_matrices / _run_jenks from the working tree vs the '
              'extracted imperative model: every cell of lower_class_limits exactly except exact/near ties, var_combinations to 1e-5, the breaks exactly). '
              'Oracle-only (exact arithmetic in Python, not Coq theorems): the float cut construction of equal_interval/quantile.')
LEVEL_NOTE = ('Trusted: Coq kernel; extraction (ExtrOcamlBasic); the order-preserving embedding of one case\'s finite doubles into Z; the harness/oracle; '
              'Numba compiles _cpu_bin/_cpu_binary/_run_numpy_jenks_matrices as the models read them (checked by correspondence only); '
              'np.percentile/np.arange/np.unique/ndarray.sort are not modelled; the Jenks model computes in exact rationals, the code in '
              'float64 with float32 squares and float32 matrices. All C12 theorems are closed under the global context (no axioms).')
RULE = ('reclassify: for every bin count 1..N every position of a value relative to the bins (below first, equal to each '
        'bin, between each pair, above last, NaN, +-inf) x bin lists with ties / +-inf ends x dtypes; binary: random value '
        'lists incl. NaN/inf; quantile/equal_interval/natural_breaks: random rasters (ties, NaN/inf, float32/float64/int, '
        'values not representable in float32) for k=2..9 with the bins captured at the _bin call; Jenks matrices: sorted '
        'integer/dyadic lists of 2..10 (14 thorough) points, k=1..5, all-distinct / tie-heavy / fewer distinct values than k. '
        'A case is non-trivial when it has >= 1 finite cell and distinct from the others by its JSON encoding.')
TRUSTED = [
    'finite doubles of one case are embedded into Z by a common power-of-two scale (exact, order preserving); the model '
    'only compares values, so this embedding is faithful',
    'the bins of quantile / equal_interval (np.percentile, np.arange) are taken from the implementation '
    '(captured at its _bin call) and checked by the Python oracle, not modelled in Coq',
    'natural_breaks: the Jenks model (coq/C12/JenksImp.v) is over exact rationals; the code accumulates sum/sum_squares in float64 from '
    'float32-rounded values (val*val in float32), stores both matrices in float32 and compares float32 entries with float64 candidates. '
    'That the code and the model agree is checked by correspondence on data whose arithmetic is exact or within 1e-5 '
    '(small integers / dyadics), cells where two candidates tie or lie within 1e-6 relative being skipped for lower_class_limits',
    'natural_breaks: ndarray.sort, np.unique (the `uvk < k` test), the sampling and `bins[-1] = max` are read from the source, not modelled; '
    'the theorems take ascending data with >= k distinct values as hypotheses',
]
ASSUMPTIONS = ['equal_interval needs two distinct finite values (min < max; otherwise the k intervals are undefined and np.arange raises)', 'NumPy backend only (Dask equality is C01); bins passed to reclassify are ascending and NaN-free (the property\'s domain)',
               'natural_breaks optimality theorems: the data handed to _run_jenks are ascending with at least k distinct values '
               '(sortedQ, distinct_upto) — established by _run_natural_break before the call; without it the back-tracking reads data[-1]/row 0 '
               '(modelled: C12_jenks_imp_underflow_example) and nothing is claimed']
PARTIAL = [
    'natural_breaks: proved for the exact-rational imperative model; the float32/float64 rounding of the real matrices is not modelled '
    '(on inputs where rounding changes which candidate wins, the returned partition may be optimal only up to that rounding) — '
    'correspondence + oracle on small exact inputs',
    'natural_breaks: that classification by `first break >= value` reproduces the back-tracked partition (i.e. that an optimal cut never '
    'separates equal values) is not proved; the oracle checks the SSD of the classes the breaks induce against the exact minimum',
    'quantile bin construction: proved for the exact-rational model of linspace/np.percentile(linear)/np.unique (Quantile.v, 5 theorems); the float '
    'rounding of the real cuts (an ulp either side of the exact cut, which can leave two equal cuts un-merged) is not modelled — the captured '
    'cuts are compared with the model\'s up to a stated tolerance and classes only off the cuts',
    'equal_interval bin construction: exact band theorem (ei_cuts); the float arange cuts are compared by the oracle only',
]


def _impl():
    from xrspatial import classify
    return classify


class BinCapture:
    """records the (bins, new_values) the public classifier hands to _bin"""

    def __init__(self, classify):
        self.c = classify
        self.calls = []

    def __enter__(self):
        self.orig = self.c._bin

        def rec(agg, bins, new_values):
            self.calls.append((np.array(bins, copy=True), np.array(new_values, copy=True)))
            return self.orig(agg, bins, new_values)
        self.c._bin = rec
        return self

    def __exit__(self, *a):
        self.c._bin = self.orig


def to_floats(a):
    return [[float(v) for v in row] for row in np.asarray(a).tolist()]


def first_bin_oracle(bins, v):
    """property text: index of the first bin whose upper bound is >= v, None above the last"""
    for i, b in enumerate(bins):
        if v <= b:
            return i
    return None


def check_reclass_oracle(ctx, data, bins, nv, out, case, what):
    ok = True
    for r, row in enumerate(data):
        for c, v in enumerate(row):
            o = out[r][c]
            if math.isnan(v) or math.isinf(v):
                exp = float('nan')
            else:
                i = first_bin_oracle(bins, v)
                exp = float('nan') if i is None else float(nv[i])
            if not (o == exp or (math.isnan(o) and math.isnan(exp))):
                ctx.violation('oracle', '%s: cell value %r with bins %r got %r, expected %r (first bin >= value)' % (
                    what, v, bins, o, exp), dict(case, cell=[r, c], got=o, expected=exp), key=None)
                ok = False
                return ok
    return ok


def run_model_cases(ctx, pending):
    """pending: list of (line, scale, impl_out(list of list float), case, what)"""
    if ctx.model is None or not pending:
        return
    outs = ctx.model.run([p[0] for p in pending])
    for (line, s, impl_out, case, what), mo in zip(pending, outs):
        ctx.traces += 1
        flat = [v for row in impl_out for v in row]
        if mo.startswith('ERR') or 'FUEL' in mo:
            ctx.violation('correspondence', '%s: model returned %s' % (what, mo[:80]), case)
            continue
        mt = mo.split()
        if len(mt) != len(flat):
            ctx.violation('correspondence', '%s: model returned %d cells for %d' % (what, len(mt), len(flat)), case)
            continue
        for i, (a, t) in enumerate(zip(flat, mt)):
            if not xvio.same(a, xvio.parse(t, 1)):
                ctx.violation('correspondence', '%s: implementation %r vs model %s at flat index %d' % (what, a, t, i),
                              dict(case, flat_index=i, impl=a, model=t))
                break


DT = ['float64', 'float32', 'int32', 'int64', 'uint8']


def gen_reclass_cases(ctx):
    rng = ctx.rng
    nmax = 12 if ctx.quick() else 24
    for nb in range(1, nmax + 1):
        variants = 2 if ctx.quick() else 6
        for var in range(variants):
            # ascending bins with gaps of 2 (so "between" is an integer) and occasional ties
            bins = []
            cur = rng.randint(-6, 3) * 2
            for i in range(nb):
                if i > 0:
                    cur += 0 if rng.random() < 0.2 else 2 * rng.randint(1, 3)
                bins.append(float(cur))
            if var % 3 == 1 and nb >= 1:
                bins[-1] = float('inf')
            if var % 3 == 2 and nb >= 2:
                bins[0] = float('-inf')
            nv = [float(rng.randint(-5, 40)) for _ in range(nb)]
            fin = [b for b in bins if not math.isinf(b)]
            vals = set()
            for b in fin:
                vals.update([b - 1, b, b + 1])
            if not fin:
                vals.update([0.0, 1.0])
            vals = sorted(vals)
            dtype = DT[(nb + var) % len(DT)]
            if dtype == 'uint8':
                off = max(0, -min(vals)) if vals else 0
                bins = [b + off for b in bins]
                vals = [v + off for v in vals]
            data = list(vals)
            if dtype.startswith('float'):
                data += [float('nan'), float('inf'), float('-inf')]
                if var % 2 == 0:
                    data += [v + 0.5 for v in vals[:3]]
            yield dict(fn='reclassify', bins=bins, new_values=nv, data=[data], dtype=dtype)


def rand_raster(rng, dtype, rows, cols, kind):
    n = rows * cols
    if kind == 'small':
        vals = [float(rng.randint(0, 6)) for _ in range(n)]
    elif kind == 'wide':
        vals = [float(rng.randint(-50, 200)) for _ in range(n)]
    elif kind == 'frac':
        vals = [rng.randint(-40, 80) / 8.0 for _ in range(n)]
    elif kind == 'nonf32':
        vals = [rng.randint(1, 99) / 10.0 for _ in range(n)]      # 9.7 etc: not float32 representable
    else:
        vals = [rng.random() * 100 for _ in range(n)]
    if dtype.startswith('float'):
        for i in range(n):
            u = rng.random()
            if u < 0.06:
                vals[i] = float('nan')
            elif u < 0.09:
                vals[i] = float('inf')
            elif u < 0.11:
                vals[i] = float('-inf')
    else:
        vals = [float(int(abs(v) if dtype.startswith('u') else v)) for v in vals]
    a = np.array(vals, dtype='float64').reshape(rows, cols).astype(dtype)
    return a


def ssd(xs):
    if not xs:
        return Fraction(0)
    m = sum(xs) / len(xs)
    return sum((x - m) ** 2 for x in xs)


def min_ssd_partition(sorted_vals, k):
    """exact minimum within-class SSD over all contiguous partitions into k non-empty classes"""
    n = len(sorted_vals)
    INF = None
    pre = {}
    for i in range(n):
        for j in range(i, n):
            pre[(i, j)] = ssd(sorted_vals[i:j + 1])
    best = [[INF] * (k + 1) for _ in range(n + 1)]
    best[0][0] = Fraction(0)
    for i in range(1, n + 1):
        for c in range(1, min(i, k) + 1):
            cands = [best[j][c - 1] + pre[(j, i - 1)] for j in range(c - 1, i) if best[j][c - 1] is not None]
            best[i][c] = min(cands) if cands else None
    return best[n][k]


def check_datadriven_oracle(ctx, fn, a, k, out, bins, case):
    """property text for quantile / equal_interval / natural_breaks, on the implementation's output"""
    data = to_floats(a)
    flat = [(v, o) for rv, ro in zip(data, out) for v, o in zip(rv, ro)]
    fin = [(v, o) for v, o in flat if not (math.isnan(v) or math.isinf(v))]
    what = fn
    for v, o in flat:
        if (math.isnan(v) or math.isinf(v)) and not math.isnan(o):
            ctx.violation('oracle', '%s: non-finite cell %r got class %r (expected NaN)' % (what, v, o),
                          dict(case, value=v, got=o))
            return
    for v, o in fin:
        if math.isnan(o):
            key = None
            if fn == 'natural_breaks' and v == max(x for x, _ in fin) and \
                    float(np.float32(v)) < v:
                key = 'natural_breaks-float32-breaks-drop-max'
            ctx.violation('oracle', '%s: finite cell %r got NaN (every finite cell must get a class)' % (what, v),
                          dict(case, value=v, got=o), key=key)
            return
        if o != int(o) or not (0 <= o <= k - 1):
            ctx.violation('oracle', '%s: finite cell %r got class %r outside [0, %d]' % (what, v, o, k - 1),
                          dict(case, value=v, got=o))
            return
    s = sorted(fin)
    for (v1, o1), (v2, o2) in zip(s, s[1:]):
        if o1 > o2 and v1 < v2 or (v1 == v2 and o1 != o2):
            ctx.violation('oracle', '%s: not order preserving: %r -> %r but %r -> %r' % (what, v1, o1, v2, o2),
                          dict(case, pair=[v1, o1, v2, o2]))
            return
    if not fin:
        return
    vals = [Fraction(v) for v, _ in fin]
    lo, hi = min(vals), max(vals)
    def close(x, y):
        tol = Fraction(1, 10 ** 5) if case.get('dtype') == 'float32' else Fraction(1, 10 ** 9)
        return abs(Fraction(x) - Fraction(y)) <= (max(abs(lo), abs(hi)) + 1) * tol
    if bins is not None:
        # every class must be the first captured bin >= value (ties the output to the cuts), and the cuts
        # must be the ones the property names (up to float rounding of the cut positions)
        for v, o in fin:
            i = first_bin_oracle(bins, v)
            if i is None or int(o) != i:
                ctx.violation('oracle', '%s: value %r got class %r but the first cut >= value is #%r (cuts %r)' % (
                    what, v, o, i, bins), dict(case, value=v, got=o, expected=i, bins=bins))
                return
        if len(bins) > k:
            ctx.violation('oracle', '%s: %d cuts for k=%d' % (what, len(bins), k), dict(case, bins=bins))
            return
    if fn == 'equal_interval' and hi > lo and bins is not None:
        w = (hi - lo) / k
        exact = [lo + (i + 1) * w for i in range(k)]
        if len(bins) != k or not all(close(b, e) for b, e in zip(bins, exact)) or Fraction(bins[-1]) != hi:
            ctx.violation('oracle', 'equal_interval: cuts %r are not the %d equal-width cuts %r of [%s, %s]' % (
                bins, k, [float(e) for e in exact], float(lo), float(hi)), dict(case, bins=bins))
            return
    if fn == 'quantile' and bins is not None:
        sv = sorted(vals)
        n = len(sv)
        cuts = []
        for j in range(1, k + 1):
            pos = Fraction(j, k) * (n - 1)
            i = math.floor(pos)
            fr = pos - i
            cuts.append(sv[i] if i + 1 >= n else sv[i] + (sv[i + 1] - sv[i]) * fr)
        ucuts = sorted(set(cuts))
        ok = all(any(close(b, c) for c in ucuts) for b in bins) and all(any(close(b, c) for b in bins) for c in ucuts) \
            and Fraction(bins[-1]) == sv[-1]
        if not ok:
            ctx.violation('oracle', 'quantile: cuts %r are not the de-duplicated %d-quantiles %r' % (
                bins, k, [float(c) for c in ucuts]), dict(case, bins=bins))
            return
    if fn == 'natural_breaks':
        sv = sorted(vals)
        if bins is not None and Fraction(bins[-1]) != hi:
            ctx.violation('oracle', 'natural_breaks: last break %r is not the maximum %r' % (bins[-1], float(hi)), dict(case, bins=bins))
            return
        uniq = sorted(set(sv))
        if len(uniq) < k:
            # fewer distinct values than classes: the minimum within-class SSD is 0 - every distinct value its own class
            cls = {}
            for v, o in fin:
                cls.setdefault(int(o), set()).add(Fraction(v))
            mixed = [sorted(float(x) for x in vs) for vs in cls.values() if len(vs) > 1]
            if mixed:
                ctx.violation('oracle', 'natural_breaks: only %d distinct values for k=%d, yet the distinct values %r share one class '
                              '(within-class SSD > 0 where the minimum is 0)' % (len(uniq), k, mixed[0]), dict(case, shared=mixed[0]))
                return
        if len(uniq) >= k and len(sv) <= 14 and case.get('f32exact', False) and case.get('dtype') != 'float32x':
            groups = {}
            for v, o in fin:
                groups.setdefault(int(o), []).append(Fraction(v))
            got = sum(ssd(g) for g in groups.values())
            best = min_ssd_partition(sv, k)
            if got > best * (1 + Fraction(1, 10 ** 5)) + Fraction(1, 10 ** 9):
                ctx.violation('oracle', 'natural_breaks: partition SSD %s exceeds the minimum %s over all %d-class partitions' % (
                    float(got), float(best), k), dict(case, got_ssd=float(got), min_ssd=float(best)))
                return


# ---- _run_numpy_jenks_matrices / _run_jenks vs the extracted IMPERATIVE model (coq/C12/JenksImp.v) ----------
def gen_jenks_imp_cases(ctx):
    """sorted small integer / dyadic data (exact in float32, squares too), n = 2..10 (14 thorough), k = 1..5;
    kinds: all-distinct, tie-heavy (few distinct values, skewed multiplicities), fewer distinct values than k
    (the back-tracking underflows: natural_breaks never gets there, _run_jenks does what the model says)"""
    rng = ctx.rng
    count = 160 if ctx.quick() else 3000
    nmax = 10 if ctx.quick() else 14
    for i in range(count):
        kind = ['distinct', 'ties', 'dyadic', 'ints', 'fewdistinct'][i % 5]
        n = rng.randint(2, nmax)
        k = rng.choice([1, 2, 2, 3, 3, 4, 4, 5])
        if kind == 'distinct':
            vals = [float(v) for v in rng.sample(range(-30, 90), n)]
        elif kind == 'ties':
            distinct = rng.sample(range(0, 40), rng.randint(2, 5))
            vals = []
            for d_ in distinct:
                vals += [float(d_)] * rng.choice([1, 1, 2, 2, 3, 5])
            rng.shuffle(vals)
            vals = vals[:nmax]
            if len(vals) < 2:
                vals = vals + vals
        elif kind == 'dyadic':
            vals = [rng.randint(-80, 160) / 8.0 for _ in range(n)]
        elif kind == 'ints':
            vals = [float(rng.randint(0, 12)) for _ in range(n)]
        else:
            distinct = rng.sample(range(0, 20), rng.randint(1, 2))
            vals = [float(rng.choice(distinct)) for _ in range(n)]
            k = rng.randint(2, 5)
        yield dict(fn='jenks_matrices', k=k, data=sorted(vals), kind=kind)


def run_jenks_impl(classify, case):
    arr = np.array(case['data'], dtype='float64')
    L, V = classify._run_numpy_jenks_matrices(arr.copy(), case['k'])
    kclass = classify._run_jenks(arr.copy(), case['k'])
    return np.asarray(L), np.asarray(V), [float(x) for x in np.asarray(kclass).tolist()]


def check_jenks_breaks_oracle(ctx, case, kclass):
    """property text on _run_jenks' own output: with at least k distinct values the breaks kclass[1:] (last := max),
    used as 'first bin >= value', split the data into classes of minimum within-class SSD (exact brute force)"""
    vals = [Fraction(v) for v in case['data']]
    k = case['k']
    if len(set(vals)) < k:
        return
    bins = list(kclass[1:])
    bins[-1] = float(max(vals))
    groups = {}
    for v in vals:
        i = first_bin_oracle(bins, v)
        if i is None:
            ctx.violation('oracle', '_run_jenks: value %r above the last break (breaks %r)' % (float(v), bins), dict(case, kclass=kclass))
            return
        groups.setdefault(i, []).append(v)
    got = sum(ssd(g) for g in groups.values())
    best = min_ssd_partition(sorted(vals), k)
    if got != best:
        ctx.violation('oracle', '_run_jenks: breaks %r give within-class SSD %s, the minimum over all %d-class partitions is %s' % (
            bins, float(got), k, float(best)), dict(case, kclass=kclass, got_ssd=float(got), min_ssd=float(best)))


def compare_jenks_imp(ctx, case, impl, mo):
    """impl = (L, V, kclass) from the working tree; mo = the model's output line"""
    L, V, kclass = impl
    k = case['k']
    n = len(case['data'])
    sc = xvio.scale_for(case['data'])
    try:
        cells_s, ok_s, breaks_s, cuts_s = [p.strip() for p in mo.split('|')]
        cells = [c.split(',') for c in cells_s.split()]
        assert len(cells) == (n + 1) * (k + 1)
        m_ok = ok_s == '1'
        m_breaks = [Fraction(int(t.split('/')[0], 0), int(t.split('/')[1], 0)) / sc for t in breaks_s.split()]
        m_cuts = [int(t) for t in cuts_s.split()]
    except Exception:
        ctx.violation('correspondence', 'jenks matrices: model returned %s' % mo[:120], case)
        return
    if L.shape != (n + 1, k + 1) or V.shape != (n + 1, k + 1):
        ctx.violation('correspondence', 'jenks matrices: implementation shapes %r %r, expected %r' % (L.shape, V.shape, (n + 1, k + 1)), case)
        return
    any_tie = False
    tie = {}
    compared = 0
    for r in range(n + 1):
        for c in range(k + 1):
            ml, mv, mt = cells[r * (k + 1) + c]
            tie[(r, c)] = mt == '1'
            any_tie = any_tie or mt == '1'
            iv = float(V[r, c])
            if mv == 'inf':
                okv = math.isinf(iv) and iv > 0
                mvf = float('inf')
            else:
                num, den = mv.split('/')
                mvq = Fraction(int(num, 0), int(den, 0)) / (sc * sc)
                mvf = float(mvq)
                okv = (not math.isinf(iv)) and (not math.isnan(iv)) and abs(Fraction(iv) - mvq) <= abs(mvq) * Fraction(1, 10 ** 5) + Fraction(1, 10 ** 7)
            if not okv:
                ctx.violation('correspondence', 'jenks matrices: var_combinations[%d][%d] = %r, imperative model %r (data %r, k=%d)' % (
                    r, c, iv, mvf, case['data'], k), dict(case, cell=[r, c], impl=iv, model=mvf))
                return
            if mt == '1':
                continue            # exact tie / near-tie between two candidates: float32 storage may pick either
            compared += 1
            if float(L[r, c]) != float(int(ml, 0)):
                ctx.violation('correspondence', 'jenks matrices: lower_class_limits[%d][%d] = %r, imperative model %s (data %r, k=%d)' % (
                    r, c, float(L[r, c]), ml, case['data'], k), dict(case, cell=[r, c], impl=float(L[r, c]), model=ml))
                return
    ctx.count('jenksimp/cells-compared', compared)
    # back-tracked breaks: compared exactly unless the path runs through a tied cell
    if m_ok:
        rows = [n] + m_cuts
        on_path_tie = any(tie.get((rows[t], k - t), False) for t in range(min(len(rows), max(k - 1, 0))))
    else:
        on_path_tie = any_tie
    if not on_path_tie:
        if len(kclass) != len(m_breaks) or any(Fraction(a) != b for a, b in zip(kclass, m_breaks)):
            ctx.violation('correspondence', '_run_jenks: breaks %r, imperative model %r (data %r, k=%d, bt_ok=%s)' % (
                kclass, [float(b) for b in m_breaks], case['data'], k, m_ok), dict(case, impl=kclass, model=[float(b) for b in m_breaks]))
            return
        ctx.count('jenksimp/breaks-compared')
    # C12_jenks_imp_no_underflow: ascending data with >= k distinct values never underflow (a failure here means the
    # extracted model and the theorem disagree, i.e. the build is inconsistent)
    if len(set(case['data'])) >= k and not m_ok:
        ctx.violation('correspondence', 'jenks back-tracking: data %r have >= %d distinct values but the model\'s back-tracking '
                      'underflows (jenks_bt_ok = false)' % (case['data'], k), case)


def run_jenks_imp_stream(ctx, classify):
    pend = []
    for case in gen_jenks_imp_cases(ctx):
        ctx.case(case)
        ctx.count('jenksimp/%s/k=%d' % (case['kind'], case['k']))
        try:
            impl = run_jenks_impl(classify, case)
        except Exception as e:
            ctx.violation('oracle', '_run_jenks raised %s: %s (data %r, k=%d)' % (type(e).__name__, e, case['data'], case['k']), case)
            continue
        check_jenks_breaks_oracle(ctx, case, impl[2])
        sc = xvio.scale_for(case['data'])
        pend.append(('jenksimp %d %s' % (case['k'], xvio.lst(case['data'], sc)), case, impl))
    if ctx.model is None or not pend:
        return
    outs = ctx.model.run([p[0] for p in pend])
    for (line, case, impl), mo in zip(pend, outs):
        ctx.traces += 1
        if mo.startswith('ERR'):
            ctx.violation('correspondence', 'jenks matrices: model returned %s' % mo[:80], case)
            continue
        compare_jenks_imp(ctx, case, impl, mo)


# ---- quantile's cut construction vs the extracted exact model (coq/C12/Quantile.v) ----------------------------
def gen_quantile_cut_cases(ctx):
    """integer / dyadic rasters (exact in every dtype used) with ties, NaN/inf cells, k = 2..9 (sometimes up to 24,
    sometimes larger than the number of cells); the model works on the sorted finite cells scaled to integers"""
    rng = ctx.rng
    count = 120 if ctx.quick() else 2400
    for i in range(count):
        kind = ['ints', 'ties', 'dyadic', 'wide', 'tiny'][i % 5]
        dtype = ['float64', 'float32', 'int32', 'int64', 'float64'][(i // 5) % 5]
        rows, cols = rng.randint(1, 6), rng.randint(1, 6)
        if kind == 'tiny':
            rows, cols = 1, rng.randint(1, 3)
        n = rows * cols
        if kind == 'ints':
            vals = [float(rng.randint(-20, 40)) for _ in range(n)]
        elif kind == 'ties':
            pool = rng.sample(range(-5, 30), rng.randint(1, 4))
            vals = [float(rng.choice(pool)) for _ in range(n)]
        elif kind == 'dyadic':
            vals = [rng.randint(-64, 160) / (4.0 if dtype.startswith('f') else 1.0) for _ in range(n)]
        elif kind == 'wide':
            vals = [float(rng.choice([-1, 1]) * rng.randint(0, 2 ** 20)) for _ in range(n)]
        else:
            vals = [float(rng.randint(0, 5)) for _ in range(n)]
        if dtype.startswith('f') and n > 2 and rng.random() < 0.5:
            for _ in range(rng.randint(1, max(1, n // 4))):
                vals[rng.randrange(n)] = rng.choice([float('nan'), float('inf'), float('-inf')])
        if not any(math.isfinite(v) for v in vals):
            vals[0] = 3.0
        k = rng.choice([2, 3, 4, 4, 5, 6, 7, 8, 9, rng.randint(10, 24)])
        data = [vals[r * cols:(r + 1) * cols] for r in range(rows)]
        yield dict(fn='quantile', k=k, data=data, dtype=dtype, kind='qcuts/' + kind)


def run_quantile_cuts_stream(ctx, classify):
    import contextlib
    import io
    pend = []
    for case in gen_quantile_cut_cases(ctx):
        ctx.case(case)
        ctx.count('quantile-cuts/%s/%s' % (case['kind'], case['dtype']))
        a = np.array(case['data'], dtype='float64')
        a = a.astype(case['dtype']) if case['dtype'].startswith('f') else np.nan_to_num(a).astype(case['dtype'])
        k = case['k']
        try:
            with BinCapture(classify) as cap:
                with contextlib.redirect_stdout(io.StringIO()), contextlib.redirect_stderr(io.StringIO()):
                    out = to_floats(classify.quantile(xr.DataArray(a, dims=['y', 'x']), k=k).data)
        except Exception as e:
            ctx.violation('oracle', 'quantile raised %s: %s' % (type(e).__name__, e), case)
            continue
        if len(cap.calls) != 1:
            ctx.violation('correspondence', 'quantile no longer classifies through exactly one _bin call (%d calls)' % len(cap.calls), case)
            continue
        bins = [float(b) for b in cap.calls[0][0].tolist()]
        check_datadriven_oracle(ctx, 'quantile', a, k, out, bins, case)
        fin = sorted(v for r in to_floats(a) for v in r if math.isfinite(v))
        sc = xvio.scale_for(fin)
        pend.append(('qcuts %d %s' % (k, xvio.lst(fin, sc)), case, sc, fin, bins, to_floats(a), out))
    if ctx.model is None or not pend:
        return
    outs = ctx.model.run([p[0] for p in pend])
    for (line, case, sc, fin, bins, data, out), mo in zip(pend, outs):
        ctx.traces += 1
        k = case['k']
        try:
            cuts_s, cls_s = [t.strip() for t in mo.split('|')]
            mcuts = [Fraction(int(t, 0), k * sc) for t in cuts_s.split()]
            mcls = [xvio.parse(t, 1) for t in cls_s.split()]
            assert len(mcls) == len(fin) and mcuts
        except Exception:
            ctx.violation('correspondence', 'quantile cuts: model returned %s' % mo[:120], case)
            continue
        span = max(abs(Fraction(fin[0])), abs(Fraction(fin[-1]))) + 1
        tol = span * (Fraction(1, 10 ** 5) if case['dtype'] == 'float32' else Fraction(1, 10 ** 9))
        def near(x, y):
            return abs(Fraction(x) - Fraction(y)) <= tol
        ok = all(any(near(b, c) for c in mcuts) for b in bins) and all(any(near(b, c) for b in bins) for c in mcuts) \
            and Fraction(bins[-1]) == mcuts[-1]
        if not ok:
            ctx.violation('correspondence', 'quantile: the cuts handed to _bin %r are not the model\'s de-duplicated percentile cuts %r '
                          '(k=%d, sorted finite data %r)' % (bins, [float(c) for c in mcuts], k, fin),
                          dict(case, bins=bins, model_cuts=[float(c) for c in mcuts]))
            continue
        ctx.count('quantile-cuts/cuts-compared')
        if len(bins) != len(mcuts):
            continue        # float rounding left two nearly-equal cuts un-merged (or merged): class numbers shift, cuts agree
        mclass = {}
        for v, c in zip(fin, mcls):
            mclass[v] = c
        bad = None
        for rv, ro in zip(data, out):
            for v, o in zip(rv, ro):
                if not math.isfinite(v) or any(near(v, c) for c in mcuts):
                    continue     # a value sitting on a cut: the float cut may fall an ulp to either side
                if not (o == mclass[v]):
                    bad = (v, o, mclass[v])
        if bad:
            ctx.violation('correspondence', 'quantile: value %r got class %r, the model (first percentile cut >= value) says %r '
                          '(k=%d, cuts %r)' % (bad[0], bad[1], bad[2], k, bins), dict(case, bins=bins, value=bad[0], got=bad[1], model=bad[2]))
            continue
        ctx.count('quantile-cuts/classes-compared')


# ---- theme stream: memory layouts, more dtypes, irregular Dask chunks, call sequences, degenerate shapes ------------
def _eqnan(a, b):
    return all((x == y) or (math.isnan(x) and math.isnan(y)) for ra, rb in zip(a, b) for x, y in zip(ra, rb)) and \
        len(a) == len(b) and all(len(x) == len(y) for x, y in zip(a, b))


def _layouts(a):
    """the same logical 2-D array in several memory layouts"""
    yield 'C', np.ascontiguousarray(a)
    yield 'F', np.asfortranarray(a)
    yield 'transposed-view', np.ascontiguousarray(a.T).T
    big = np.zeros((a.shape[0] * 2, a.shape[1] * 3), dtype=a.dtype)
    big[::2, ::3] = a
    yield 'strided-view', big[::2, ::3]
    yield 'reversed-view', np.ascontiguousarray(a[::-1, ::-1])[::-1, ::-1]
    ro = np.array(a, copy=True)
    ro.setflags(write=False)
    yield 'read-only', ro


def _call(classify, fn, agg, kw):
    import contextlib
    import io
    with contextlib.redirect_stdout(io.StringIO()), contextlib.redirect_stderr(io.StringIO()):
        return getattr(classify, fn)(agg, **kw)


def _binary_exact_oracle(ctx, a, vals, out, case):
    data = to_floats(a)
    for r, row in enumerate(data):
        for c, v in enumerate(row):
            if math.isnan(v):
                listed = False
            elif math.isinf(v):
                listed = any((not math.isnan(x)) and x == v for x in vals)
            else:
                listed = any(math.isfinite(x) and Fraction(x) == Fraction(v) for x in vals)
            exp = 1.0 if listed else (0.0 if math.isfinite(v) else float('nan'))
            o = out[r][c]
            if not (o == exp or (math.isnan(o) and math.isnan(exp))):
                ctx.violation('oracle', 'binary: cell %r (dtype %s) with listed values %r got %r, expected %r (1 exactly on the listed values)' % (
                    v, case['dtype'], vals, o, exp), dict(case, cell=[r, c], got=o, expected=exp))
                return False
    return True


def _arr_of(case):
    a = np.array(case['data'], dtype='float64')
    return a.astype(case['dtype']) if case['dtype'].startswith('f') else np.nan_to_num(a).astype(case['dtype'])


def _kw_of(case):
    fn = case['fn']
    if fn == 'reclassify':
        return dict(bins=case['bins'], new_values=case['new_values'])
    if fn == 'binary':
        return dict(values=case['values'])
    return dict(k=case['k'])


def _oracle_on(ctx, classify, fn, a, kw, out, cap, case):
    if fn == 'reclassify':
        check_reclass_oracle(ctx, to_floats(a), kw['bins'], kw['new_values'], out, case, 'reclassify')
    elif fn == 'binary':
        _binary_exact_oracle(ctx, a, kw['values'], out, case)
    else:
        bins_c = [float(b) for b in cap.calls[0][0].tolist()] if cap is not None and len(cap.calls) == 1 else None
        if fn == 'natural_breaks':
            check_datadriven_oracle(ctx, 'natural_breaks_sampled', a, kw['k'], out, None, case)
        else:
            check_datadriven_oracle(ctx, fn, a, kw['k'], out, bins_c, case)


def theme_layout_case(ctx, classify, case):
    fn, dtype = case['fn'], case['dtype']
    a, kw = _arr_of(case), _kw_of(case)
    ref = None
    for name, arr in _layouts(a):
        before = np.array(arr, copy=True)
        try:
            with BinCapture(classify) as cap:
                res = _call(classify, fn, xr.DataArray(arr, dims=['y', 'x']), kw)
            out = to_floats(res.data)
        except Exception as e:
            ctx.violation('oracle', '%s on a %s %s raster raised %s: %s' % (fn, name, dtype, type(e).__name__, str(e)[:200]), dict(case, layout=name))
            return
        if not _eqnan(to_floats(arr), to_floats(before)):
            ctx.violation('oracle', '%s modified its %s input raster' % (fn, name), dict(case, layout=name))
            return
        if ref is None:
            ref = out
            _oracle_on(ctx, classify, fn, a, kw, out, cap, case)
        elif not _eqnan(out, ref):
            ctx.violation('oracle', '%s: the result on a %s raster %s differs from the result on the C-contiguous raster %s '
                          '(same logical values, dtype %s)' % (fn, name, out, ref, dtype), dict(case, layout=name, got=out, c_result=ref))
            return


def theme_binary_case(ctx, classify, case):
    import dask.array as da
    a = _arr_of(case)
    form = case['kind'].split('/')[1]
    vals = case['values']
    v = list(vals) if form == 'list' else tuple(vals) if form == 'tuple' else \
        np.array(vals, dtype='float64') if form == 'ndarray-f64' else np.array(vals, dtype=case['dtype'])
    for backend in ('numpy', 'dask'):
        try:
            arr = a.copy() if backend == 'numpy' else da.from_array(a.copy(), chunks=(1, 2))
            out = to_floats(np.asarray(classify.binary(xr.DataArray(arr, dims=['y', 'x']), v).data))
        except Exception as e:
            ctx.violation('oracle', 'binary(%s, values as %s) on %s raised %s: %s' % (backend, form, case['dtype'], type(e).__name__, str(e)[:200]), case)
            continue
        _binary_exact_oracle(ctx, a, vals, out, dict(case, backend=backend))


def theme_irregular_case(ctx, classify, case):
    import dask.array as da
    fn = case['fn']
    a, kw = _arr_of(case), _kw_of(case)
    chunks = tuple(tuple(c) for c in case['dask_chunks'])
    try:
        o_np = to_floats(_call(classify, fn, xr.DataArray(a.copy(), dims=['y', 'x']), kw).data)
        lazy = _call(classify, fn, xr.DataArray(da.from_array(a.copy(), chunks=chunks), dims=['y', 'x']), kw)
        is_lazy = isinstance(lazy.data, da.Array)
        o_da = to_floats(np.asarray(lazy.data))
    except Exception as e:
        ctx.violation('oracle', '%s on a Dask raster with chunks %r raised %s: %s' % (fn, chunks, type(e).__name__, str(e)[:200]), case)
        return
    if not _eqnan(o_np, o_da) or not is_lazy:
        ctx.violation('oracle', '%s: Dask-backed result (chunks %r) %s differs from the NumPy-backed result %s%s' % (
            fn, chunks, o_da, o_np, '' if is_lazy else ' (and is not lazy)'), dict(case, numpy=o_np, dask=o_da))


def theme_sequence_case(ctx, classify, case):
    a = np.array(case['data'], dtype='float64')
    rows, cols = a.shape
    attrs = {'res': (0.5, 2.0), 'tag': 'keep'}
    agg = xr.DataArray(a, dims=['y', 'x'], coords={'y': np.arange(rows)[::-1] * 2.0, 'x': np.arange(cols) * 0.5}, attrs=dict(attrs))
    bins, nv = case['bins'], case['new_values']
    clean = not np.isnan(a).any() and not np.isinf(a).any()
    filled = agg.where(np.isfinite(agg), 1.0)
    steps = [('reclassify', agg, dict(bins=bins, new_values=nv)),
             ('reclassify', agg[::2, ::2], dict(bins=bins, new_values=nv)),
             ('reclassify', agg.astype('int32') if clean else agg.copy(), dict(bins=bins, new_values=nv)),
             ('binary', agg, dict(values=[bins[0], 3.0])),
             ('binary', agg.astype('float32'), dict(values=[bins[0], 3.0])),
             ('reclassify', agg, dict(bins=bins, new_values=nv)),
             ('equal_interval', filled, dict(k=3)),
             ('equal_interval', filled[1:, 1:], dict(k=3)),
             ('quantile', agg, dict(k=3)), ('quantile', agg[:, ::-1], dict(k=3))]
    steps = [steps[j] for j in case['order']]
    for pos, (fn, g, kw) in enumerate(steps):
        arr0 = np.array(g.data, copy=True)
        fin = arr0[np.isfinite(arr0)] if arr0.dtype.kind == 'f' else arr0.ravel()
        if fn in ('equal_interval', 'quantile') and (fin.size == 0 or (fn == 'equal_interval' and float(fin.min()) == float(fin.max()))):
            continue
        attrs0 = dict(g.attrs)
        try:
            got = _call(classify, fn, g, kw)
            fresh = _call(classify, fn, xr.DataArray(np.array(arr0, copy=True), dims=['y', 'x']), kw)
        except Exception as e:
            ctx.violation('oracle', 'sequence step %d (%s) raised %s: %s' % (pos, fn, type(e).__name__, str(e)[:200]), dict(case, position=pos))
            return
        if not _eqnan(to_floats(got.data), to_floats(fresh.data)):
            ctx.violation('oracle', 'step %d of a call sequence: %s on a derived raster gives %s, the same call on a freshly built raster with the '
                          'same values gives %s' % (pos, fn, to_floats(got.data), to_floats(fresh.data)), dict(case, position=pos))
            return
        if not _eqnan(to_floats(g.data), to_floats(arr0)) or dict(g.attrs) != attrs0:
            ctx.violation('oracle', 'step %d of a call sequence: %s changed its input (values or attrs)' % (pos, fn), dict(case, position=pos))
            return
        if got.shape != g.shape or list(got.dims) != list(g.dims) or not all(np.array_equal(got[d].values, g[d].values) for d in g.dims):
            ctx.violation('oracle', 'step %d of a call sequence: %s does not keep the shape/dims/coords of its input' % (pos, fn), dict(case, position=pos))
            return


def theme_degenerate_case(ctx, classify, case):
    fn = case['fn']
    a, kw = _arr_of(case), _kw_of(case)
    if case['dtype'].startswith('f'):
        a = np.array(case['data'], dtype='float64').astype(case['dtype'])
    try:
        with BinCapture(classify) as cap:
            out = to_floats(_call(classify, fn, xr.DataArray(a.copy(), dims=['y', 'x']), kw).data)
    except Exception as e:
        ctx.violation('oracle', '%s on a %dx%d %s raster (%s) raised %s: %s' % (fn, a.shape[0], a.shape[1], case['dtype'], case['kind'],
                                                                           type(e).__name__, str(e)[:200]), case)
        return
    _oracle_on(ctx, classify, fn, a, kw, out, cap, case)


def theme_case(ctx, classify, case):
    kind = case.get('kind', '')
    if kind == 'layouts':
        theme_layout_case(ctx, classify, case)
    elif kind.startswith('binary-unrepresentable/'):
        theme_binary_case(ctx, classify, case)
    elif kind == 'dask-irregular':
        theme_irregular_case(ctx, classify, case)
    elif kind == 'sequence':
        theme_sequence_case(ctx, classify, case)
    elif kind.startswith('degenerate/'):
        theme_degenerate_case(ctx, classify, case)
    else:
        return False
    return True


def gen_theme_cases(ctx):
    rng = ctx.rng
    quick = ctx.quick()
    MORE_DT = ['int8', 'int16', 'uint16', 'uint32', 'float32', 'float64', 'int64', 'uint8']

    def params(fn, kmax=5):
        if fn == 'reclassify':
            bins = sorted(set(float(rng.randint(-3, 9)) for _ in range(rng.randint(1, 5))))
            return dict(bins=bins, new_values=[float(rng.randint(0, 30)) for _ in bins])
        if fn == 'binary':
            return dict(values=[float(rng.randint(0, 6)) for _ in range(rng.randint(1, 3))])
        return dict(k=rng.randint(2, kmax))

    def usable(fn, a, k=None):
        if fn in ('reclassify', 'binary'):
            return True
        fin = a[np.isfinite(a)] if a.dtype.kind == 'f' else a.ravel()
        if fin.size == 0:
            return False
        if fn in ('equal_interval', 'natural_breaks') and float(fin.min()) == float(fin.max()):
            return False            # degenerate range: outside the property's premise
        if fn == 'natural_breaks' and len(set(fin.tolist())) < k:
            return False
        return True
    # 1. layouts x dtypes x classifiers
    for i in range(20 if quick else 400):
        fn = ['reclassify', 'binary', 'quantile', 'equal_interval', 'natural_breaks'][i % 5]
        dtype = MORE_DT[(i // 5) % len(MORE_DT)]
        a = rand_raster(rng, dtype, rng.randint(2, 5), rng.randint(2, 5), ['small', 'wide', 'frac'][i % 3])
        if dtype.startswith('u') or dtype == 'int8':
            a = (np.abs(a.astype('int64')) % 120).astype(dtype)
        kw = params(fn)
        if usable(fn, a, kw.get('k')):
            yield dict(fn=fn, data=to_floats(a), dtype=dtype, kind='layouts', **kw)
    # 2. binary with listed values the raster dtype cannot hold, given as list / tuple / float64 array / array of the raster's dtype
    specs = [('int32', [1, 2, 3, 16777216], [1.5, 2.0]), ('int64', [0, 1, 2, 2 ** 53], [0.5, 2.5, float(2 ** 53)]),
             ('int16', [-1, 0, 1, 7], [0.999999, 7.0000001]), ('uint8', [0, 1, 255, 3], [255.5, -1.0, 256.0]),
             ('float32', [16777216.0, 0.5, 1.0, 0.100000001490116], [16777217.0, 0.5000000001, 0.1]),
             ('float32', [1.0, 2.0, 3.0, float('nan')], [1.0000000001, 2.0]),
             ('float64', [0.1, 0.30000000000000004, 1e300, float('inf')], [0.1, 0.3, float('inf')])]
    for dtype, cells, vals in specs:
        for form in ('list', 'tuple', 'ndarray-f64', 'ndarray-own'):
            eff = vals
            if form == 'ndarray-own':
                if not dtype.startswith('f'):
                    continue       # fractional values in an integer array are truncated by the CALLER, not by binary
                eff = [float(x) for x in np.array(vals, dtype=dtype).tolist()]
            a = np.array([cells], dtype='float64').astype(dtype) if dtype.startswith('f') else np.array([cells], dtype=dtype)
            yield dict(fn='binary', values=[float(x) for x in eff], data=to_floats(a), dtype=dtype, kind='binary-unrepresentable/' + form)

    def comp(n):
        parts = []
        while n > 0:
            c = rng.randint(1, min(3, n))
            parts.append(c)
            n -= c
        return parts
    # 3. Dask with irregular chunk tuples
    for i in range(12 if quick else 200):
        fn = ['reclassify', 'binary', 'equal_interval'][i % 3]
        dtype = ['float32', 'float64', 'int32', 'uint8', 'int64'][i % 5]
        rows, cols = rng.randint(2, 7), rng.randint(2, 7)
        a = rand_raster(rng, dtype, rows, cols, ['small', 'nonf32', 'frac'][i % 3])
        kw = params(fn, 10)
        chunks = [comp(rows), comp(cols)]
        if usable(fn, a, kw.get('k')):
            yield dict(fn=fn, data=to_floats(a), dtype=dtype, dask_chunks=chunks, kind='dask-irregular', **kw)
    # 4. call sequences
    for i in range(6 if quick else 60):
        a = rand_raster(rng, 'float64', rng.randint(3, 6), rng.randint(3, 6), 'small')
        bins = sorted(set(float(rng.randint(-1, 7)) for _ in range(rng.randint(2, 4))))
        order = list(range(10))
        rng.shuffle(order)
        yield dict(fn='sequence', data=to_floats(a), dtype='float64', bins=bins, new_values=[float(rng.randint(0, 30)) for _ in bins],
                   order=order, kind='sequence')
    # 5. degenerate shapes / parameters
    for (rows, cols) in [(1, 1), (1, 4), (4, 1), (2, 2)]:
        for dtype in ('float64', 'int32', 'float32'):
            base = rand_raster(rng, dtype, rows, cols, 'small')
            variants = [('random', base), ('all-equal', np.full((rows, cols), 3, dtype=dtype))]
            if dtype.startswith('f') and rows * cols > 1:
                one = np.full((rows, cols), np.nan, dtype=dtype)
                one[0, 0] = 2.5
                variants.append(('single-finite', one))
            for vname, a in variants:
                for fn, kw in (('reclassify', dict(bins=[1.0, 3.0, 5.0], new_values=[10.0, float('nan'), 30.0])),
                               ('binary', dict(values=[3.0])), ('quantile', dict(k=rows * cols + 3)), ('quantile', dict(k=2)),
                               ('natural_breaks', dict(k=2)), ('equal_interval', dict(k=4))):
                    if usable(fn, a, kw.get('k')):
                        yield dict(fn=fn, data=to_floats(a), dtype=dtype, kind='degenerate/' + vname, **kw)


def run_theme_stream(ctx, classify):
    for case in gen_theme_cases(ctx):
        ctx.case(case)
        ctx.count('theme/%s/%s' % (case['kind'].split('/')[0], case['fn']))
        theme_case(ctx, classify, case)


def run(ctx):
    classify = _impl()
    pending = []
    jenks_pending = []
    # ---- reclassify: exhaustive positions --------------------------------
    for case in gen_reclass_cases(ctx):
        ctx.case(case)
        ctx.count('reclassify/%s/nbins=%d' % (case['dtype'], len(case['bins'])))
        a = np.array(case['data'], dtype='float64').astype(case['dtype'])
        agg = xr.DataArray(a, dims=['y', 'x'])
        bins = case['bins']
        nv = case['new_values']
        try:
            out = to_floats(classify.reclassify(agg, bins=bins, new_values=nv).data)
        except Exception as e:
            ctx.violation('oracle', 'reclassify raised %s: %s' % (type(e).__name__, e), case)
            continue
        data = to_floats(a)
        check_reclass_oracle(ctx, data, bins, nv, out, case, 'reclassify')
        allv = [v for r in data for v in r] + bins + nv
        s = xvio.scale_for(allv)
        line = 'reclass %s %s %s' % (xvio.lst(bins, s), xvio.lst(nv, 1), xvio.grid(data, s))
        pending.append((line, 1, out, case, 'reclassify'))
    # bin bounds that are not float32 numbers, on float32 and float64 rasters, with cells at / next to the float32
    # roundings of each bound (comparisons must be made against the bound as given, not a narrowed copy)
    for i in range(12 if ctx.quick() else 120):
        rng = ctx.rng
        nb = rng.randint(1, 6)
        start = rng.randint(-3, 3)
        bins = [round((start + j + 1) * rng.choice([0.1, 0.3, 0.7]), 10) for j in range(nb)]
        bins = sorted(set(bins))
        nv = [float(rng.randint(1, 50)) for _ in bins]
        dtype = ['float32', 'float64'][i % 2]
        cells = []
        for b in bins:
            f = float(np.float32(b))
            cells += [f, float(np.nextafter(np.float32(f), np.float32(np.inf))), float(np.nextafter(np.float32(f), np.float32(-np.inf)))]
            if dtype == 'float64':
                cells += [b, float(np.nextafter(b, np.inf)), float(np.nextafter(b, -np.inf))]
        case = dict(fn='reclassify', bins=bins, new_values=nv, data=[cells], dtype=dtype)
        ctx.case(case)
        ctx.count('reclassify/%s/non-f32-bounds' % dtype)
        a = np.array(case['data'], dtype='float64').astype(dtype)
        try:
            out = to_floats(classify.reclassify(xr.DataArray(a, dims=['y', 'x']), bins=bins, new_values=nv).data)
        except Exception as e:
            ctx.violation('oracle', 'reclassify raised %s: %s' % (type(e).__name__, e), case)
            continue
        data = to_floats(a)
        check_reclass_oracle(ctx, data, bins, nv, out, case, 'reclassify')
        s_ = xvio.scale_for([v for r in data for v in r] + bins)
        pending.append(('reclass %s %s %s' % (xvio.lst(bins, s_), xvio.lst(nv, 1), xvio.grid(data, s_)), 1, out, case, 'reclassify'))
    # ---- the same classifiers on Dask-backed rasters (map_blocks per chunk; bins/cuts computed globally) --------
    import dask.array as da
    for i in range(24 if ctx.quick() else 300):
        rng = ctx.rng
        fn = ['reclassify', 'binary', 'quantile', 'equal_interval'][i % 4]
        dtype = DT[i % len(DT)]
        a = rand_raster(rng, dtype, rng.randint(2, 6), rng.randint(2, 6), ['small', 'wide', 'frac'][i % 3])
        chunks = (rng.choice([1, 2, 3]), rng.choice([1, 2, 3]))
        case = dict(fn=fn, data=to_floats(a), dtype=dtype, dask_chunks=list(chunks))
        agg_np = xr.DataArray(a.copy(), dims=['y', 'x'])
        agg_da = xr.DataArray(da.from_array(a.copy(), chunks=chunks), dims=['y', 'x'])
        import contextlib
        import io
        try:
            with contextlib.redirect_stdout(io.StringIO()), contextlib.redirect_stderr(io.StringIO()):
                if fn == 'reclassify':
                    bins = sorted(set(float(rng.randint(-4, 8)) for _ in range(rng.randint(1, 5))))
                    nv = [float(rng.randint(0, 30)) for _ in bins]
                    case.update(bins=bins, new_values=nv)
                    r_np = classify.reclassify(agg_np, bins=bins, new_values=nv)
                    r_da = classify.reclassify(agg_da, bins=bins, new_values=nv)
                elif fn == 'binary':
                    vals = [float(rng.randint(0, 6)) for _ in range(rng.randint(1, 4))]
                    case.update(values=vals)
                    r_np = classify.binary(agg_np, vals)
                    r_da = classify.binary(agg_da, vals)
                else:
                    fin = a[np.isfinite(a)] if a.dtype.kind == 'f' else a.ravel()
                    if fin.size == 0 or float(fin.min()) == float(fin.max()):
                        continue
                    k = rng.randint(2, 6)
                    case.update(k=k)
                    r_np = getattr(classify, fn)(agg_np, k=k)
                    r_da = getattr(classify, fn)(agg_da, k=k)
            lazy = hasattr(r_da.data, 'compute')
            o_np, o_da = to_floats(r_np.data), to_floats(r_da.data.compute() if lazy else r_da.data)
        except Exception as e:
            ctx.violation('oracle', '%s on a Dask-backed raster raised %s: %s' % (fn, type(e).__name__, str(e)[:200]), case)
            continue
        ctx.case(case)
        ctx.count('dask/%s/%s' % (fn, dtype))
        if fn == 'quantile':
            continue        # Dask percentiles are documented approximate: only exercised, not compared
        same = all((x == y) or (math.isnan(x) and math.isnan(y)) for rx, ry in zip(o_np, o_da) for x, y in zip(rx, ry))
        if not same or not lazy:
            ctx.violation('oracle', '%s: Dask-backed result %s differs from the NumPy-backed result %s%s' % (
                fn, o_da, o_np, '' if lazy else ' (and is not lazy)'), dict(case, numpy=o_np, dask=o_da))
        if fn in ('reclassify', 'binary'):
            # the Dask result itself must satisfy the property (first bin >= value / listed values)
            if fn == 'reclassify':
                check_reclass_oracle(ctx, to_floats(a), case['bins'], case['new_values'], o_da, case, 'reclassify(dask)')
    # natural_breaks fitted on a SAMPLE (num_sample < raster size): every finite cell must still get a class in [0, k-1],
    # in order, whatever the sample happened to contain (optimality is only claimed for the un-sampled fit)
    for i in range(12 if ctx.quick() else 150):
        rng = ctx.rng
        dtype = ['float64', 'int32', 'float32'][i % 3]
        a = rand_raster(rng, dtype, rng.randint(3, 6), rng.randint(4, 6), ['small', 'wide', 'frac'][i % 3])
        k = rng.randint(2, 6)
        ns = rng.choice([2, 3, 5, 8])
        finite = a[np.isfinite(a)] if a.dtype.kind == 'f' else a.ravel()
        if finite.size == 0:
            continue
        case = dict(fn='natural_breaks', k=k, num_sample=ns, data=to_floats(a), dtype=dtype, kind='sampled', f32exact=False)
        ctx.case(case)
        ctx.count('natural_breaks/sampled/%s' % dtype)
        try:
            import contextlib
            import io
            with contextlib.redirect_stdout(io.StringIO()), contextlib.redirect_stderr(io.StringIO()):
                res = classify.natural_breaks(xr.DataArray(a.copy(), dims=['y', 'x']), num_sample=ns, k=k)
            out = to_floats(res.data)
        except Exception as e:
            ctx.violation('oracle', 'natural_breaks(num_sample=%d) raised %s: %s' % (ns, type(e).__name__, e), case)
            continue
        check_datadriven_oracle(ctx, 'natural_breaks_sampled', a, k, out, None, case)
    # several lazy classifications of ONE Dask raster with different parameters, computed in one dask.compute call
    # (graph keys must not collide: each result must equal its own NumPy result)
    import dask
    for i in range(8 if ctx.quick() else 80):
        rng = ctx.rng
        dtype = DT[i % len(DT)]
        a = rand_raster(rng, dtype, rng.randint(2, 5), rng.randint(2, 6), 'small')
        agg_np = xr.DataArray(a.copy(), dims=['y', 'x'])
        agg_da = xr.DataArray(da.from_array(a.copy(), chunks=(rng.choice([1, 2, 3]), rng.choice([2, 3]))), dims=['y', 'x'])
        bins = sorted(set(float(rng.randint(-2, 7)) for _ in range(rng.randint(2, 4))))
        variants = []
        if i % 2 == 0:
            for _ in range(3):       # same bins, different new_values
                variants.append(('reclassify', dict(bins=bins, new_values=[float(rng.randint(0, 40)) for _ in bins])))
        else:
            for _ in range(3):       # same raster, different listed values
                variants.append(('binary', dict(values=[float(rng.randint(0, 6)) for _ in range(rng.randint(1, 3))])))
        case = dict(fn='together', data=to_floats(a), dtype=dtype, variants=[[f, kw] for f, kw in variants])
        try:
            lazies = [getattr(classify, f)(agg_da, **kw).data for f, kw in variants]
            outs = dask.compute(*lazies)
            refs = [getattr(classify, f)(agg_np, **kw).data for f, kw in variants]
        except Exception as e:
            ctx.violation('oracle', 'classifiers computed together raised %s: %s' % (type(e).__name__, str(e)[:200]), case)
            continue
        ctx.case(case)
        ctx.count('dask/computed-together')
        for j, (o, r_) in enumerate(zip(outs, refs)):
            fo, fr = to_floats(o), to_floats(r_)
            if not all((x == y) or (math.isnan(x) and math.isnan(y)) for rx, ry in zip(fo, fr) for x, y in zip(rx, ry)):
                ctx.violation('oracle', 'variant %d of %d lazy %s results on the same Dask raster computed in one dask.compute differs '
                              'from its NumPy result: %s vs %s' % (j + 1, len(variants), variants[j][0], fo, fr), dict(case, variant=j))
                break
    ctx.exhaustive = False
    # ---- binary ----------------------------------------------------------
    nbin = 40 if ctx.quick() else 400
    for i in range(nbin):
        rng = ctx.rng
        dtype = DT[i % len(DT)]
        a = rand_raster(rng, dtype, rng.randint(1, 5), rng.randint(1, 6), 'small')
        vals = [float(rng.randint(0, 6)) for _ in range(rng.randint(0, 4))]
        if rng.random() < 0.3:
            vals.append(float('nan'))
        if rng.random() < 0.2:
            vals.append(float('inf'))
        if not vals and i % 3:
            vals = [1.0]          # (an empty list is legal too: every finite cell 0, NaN/inf cells NaN)
        case = dict(fn='binary', values=vals, data=to_floats(a), dtype=dtype)
        ctx.case(case)
        ctx.count('binary/%s' % dtype)
        try:
            out = to_floats(classify.binary(xr.DataArray(a, dims=['y', 'x']), vals).data)
        except Exception as e:
            ctx.violation('oracle', 'binary raised %s: %s' % (type(e).__name__, e), case)
            continue
        data = to_floats(a)
        bad = False
        for r, row in enumerate(data):
            for c, v in enumerate(row):
                listed = any(v == x for x in vals)
                exp = 1.0 if listed else (0.0 if not (math.isnan(v) or math.isinf(v)) else float('nan'))
                o = out[r][c]
                if not (o == exp or (math.isnan(o) and math.isnan(exp))) and not bad:
                    ctx.violation('oracle', 'binary: cell %r with values %r got %r expected %r' % (v, vals, o, exp),
                                  dict(case, cell=[r, c], got=o, expected=exp))
                    bad = True
        line = 'binary %s %s' % (xvio.lst(vals, 1), xvio.grid(data, 1))
        pending.append((line, 1, out, case, 'binary'))
    # binary with an EMPTY value list: every finite cell 0, NaN/inf cells NaN (fixed cases, every run)
    for dtype in ('float64', 'float32'):
        a = np.array([[1.0, float('nan'), 2.0], [float('inf'), 0.0, float('-inf')]], dtype=dtype)
        for vals in ([], ()):
            case = dict(fn='binary', values=list(vals), data=to_floats(a), dtype=dtype)
            ctx.case(case)
            ctx.count('binary/empty-values')
            try:
                out = to_floats(classify.binary(xr.DataArray(a, dims=['y', 'x']), vals).data)
            except Exception as e:
                ctx.violation('oracle', 'binary(values=[]) raised %s: %s' % (type(e).__name__, e), case)
                continue
            for r, row in enumerate(to_floats(a)):
                for c, v in enumerate(row):
                    exp = 0.0 if not (math.isnan(v) or math.isinf(v)) else float('nan')
                    o = out[r][c]
                    if not (o == exp or (math.isnan(o) and math.isnan(exp))):
                        ctx.violation('oracle', 'binary: cell %r with an empty value list got %r expected %r' % (v, o, exp),
                                      dict(case, cell=[r, c], got=o, expected=exp))
            pending.append(('binary %s %s' % (xvio.lst(list(vals), 1), xvio.grid(to_floats(a), 1)), 1, out, case, 'binary'))
    # ---- data-driven classifiers ----------------------------------------
    nd = 60 if ctx.quick() else 600
    kinds = ['small', 'wide', 'frac', 'nonf32', 'rand']
    ntie = 80 if ctx.quick() else 1200
    for i in range(nd + ntie):
        rng = ctx.rng
        if i >= nd:
            # tie-heavy natural_breaks stream: few distinct values with skewed multiplicities (the optimum depends on them)
            fn = 'natural_breaks'
            dtype = ['float64', 'int32', 'float32', 'int64'][i % 4]
            kind = 'ties'
            nd_ = rng.randint(3, 6)
            distinct = sorted(rng.sample(range(0, 40), nd_))
            vals = []
            for d_ in distinct:
                vals += [float(d_)] * rng.choice([1, 1, 2, 2, 3, 5, 9])
            vals = vals[:16]
            rng.shuffle(vals)
            a = np.array(vals, dtype='float64').reshape(1, -1).astype(dtype)
            k = rng.randint(2, min(4, len(set(vals))))
        else:
            fn = ['quantile', 'equal_interval', 'natural_breaks'][i % 3]
            dtype = ['float64', 'float32', 'int32', 'float64', 'int64'][(i // 3) % 5]
            kind = kinds[(i // 15) % len(kinds)] if fn != 'natural_breaks' else ['small', 'wide', 'frac', 'nonf32'][(i // 3) % 4]
            if fn == 'natural_breaks':
                rows, cols = rng.randint(1, 3), rng.randint(2, 4)
                if i % 4 == 2:
                    rows, cols = rng.randint(3, 5), rng.randint(4, 8)      # larger fits: k up to 8 below
            else:
                rows, cols = rng.randint(1, 6), rng.randint(2, 6)
            a = rand_raster(rng, dtype, rows, cols, kind)
            k = rng.randint(2, 9 if fn != 'natural_breaks' else (8 if rows * cols >= 12 else 4))
            if fn != 'natural_breaks' and i % 2 == 1:
                # all k >= 2: large class counts on a raster with enough cells (percentile / cut vectors of every length)
                k = rng.randint(10, 64)
                a = rand_raster(rng, dtype, rng.randint(8, 12), rng.randint(8, 12), 'rand' if dtype.startswith('float') else 'wide')
        finite = a[np.isfinite(a)] if a.dtype.kind == 'f' else a.ravel()
        if finite.size == 0:
            continue
        if fn == 'equal_interval' and float(finite.min()) == float(finite.max()):
            continue   # degenerate [min, max]: k equal-width intervals are undefined (np.arange raises); outside the domain
        f32exact = bool(np.all(finite.astype('float64') == finite.astype('float32').astype('float64')))
        case = dict(fn=fn, k=k, data=to_floats(a), dtype=dtype, kind=kind, f32exact=f32exact)
        ctx.case(case)
        ctx.count('%s/%s/%s' % (fn, dtype, kind))
        agg = xr.DataArray(a.copy(), dims=['y', 'x'])
        try:
            with BinCapture(classify) as cap:
                import contextlib
                import io
                with contextlib.redirect_stdout(io.StringIO()), contextlib.redirect_stderr(io.StringIO()):
                    res = getattr(classify, fn)(agg, k=k)
            out = to_floats(res.data)
        except Exception as e:
            ctx.violation('oracle', '%s raised %s: %s' % (fn, type(e).__name__, e), case)
            continue
        if len(cap.calls) != 1:
            ctx.violation('correspondence', '%s no longer classifies through exactly one _bin call (%d calls)' % (
                fn, len(cap.calls)), case)
            bins = None
        else:
            bins = [float(b) for b in cap.calls[0][0].tolist()]
            nvs = [float(b) for b in cap.calls[0][1].tolist()]
        check_datadriven_oracle(ctx, fn, a, k, out, bins, case)
        if fn == 'natural_breaks' and f32exact and ctx.model is not None:
            finv = sorted(Fraction(v) for r_ in to_floats(a) for v in r_ if not (math.isnan(v) or math.isinf(v)))
            if len(set(finv)) >= k and len(finv) <= 16:
                groups = {}
                for rv, ro in zip(to_floats(a), out):
                    for v, o in zip(rv, ro):
                        if not (math.isnan(v) or math.isinf(v)) and not math.isnan(o):
                            groups.setdefault(int(o), []).append(Fraction(v))
                got = sum(ssd(g) for g in groups.values())
                sc = xvio.scale_for(finv)
                jenks_pending.append(('jenksmin %d %s' % (k, xvio.lst(finv, sc)), sc, got, case))
        if bins is not None and not any(math.isnan(b) for b in bins):
            data = to_floats(a)
            s = xvio.scale_for([v for r in data for v in r] + bins)
            if len(nvs) >= len(bins):
                line = 'reclass %s %s %s' % (xvio.lst(bins, s), xvio.lst(nvs[:len(bins)], 1), xvio.grid(data, s))
                pending.append((line, 1, out, dict(case, bins=bins), fn + '/_bin'))
    run_model_cases(ctx, pending)
    # natural_breaks: the implementation's partition must attain the Coq model's (proved-optimal) DP value
    if ctx.model is not None and jenks_pending:
        outs = ctx.model.run([p[0] for p in jenks_pending])
        for (line, sc, got, case), mo in zip(jenks_pending, outs):
            ctx.traces += 1
            try:
                num, den = mo.split('/')
                best = Fraction(int(num, 0), int(den, 0)) / (sc * sc)
            except Exception:
                ctx.violation('correspondence', 'natural_breaks: model returned %s' % mo[:80], case)
                continue
            if abs(got - best) > best * Fraction(1, 10 ** 5) + Fraction(1, 10 ** 9):
                kind = 'oracle' if got > best else 'correspondence'
                ctx.violation(kind, 'natural_breaks: within-class SSD of the returned partition %s differs from the minimum %s '
                              '(Coq model jenks_min, proved optimal)' % (float(got), float(best)),
                              dict(case, got_ssd=float(got), min_ssd=float(best)))
    # ---- the imperative Jenks model vs _run_numpy_jenks_matrices / _run_jenks (rng draws come last) ----
    run_jenks_imp_stream(ctx, classify)
    # ---- quantile's percentile cuts vs the exact model (Quantile.v); rng draws after every earlier stream ----
    run_quantile_cuts_stream(ctx, classify)
    # ---- themes: layouts, more dtypes, irregular chunks, call sequences, degenerate shapes (rng draws last) ----
    run_theme_stream(ctx, classify)


def search(ctx):
    """An obligation or the correspondence broke and the normal run showed no failing input: widen the oracle run."""
    old = ctx.tier
    ctx.tier = 'thorough'
    model = ctx.model
    ctx.model = None
    try:
        run(ctx)
    finally:
        ctx.tier = old
        ctx.model = model


def replay_case(ctx, case):
    classify = _impl()
    fn = case['fn']
    if case.get('kind') and (case['kind'] in ('layouts', 'dask-irregular', 'sequence') or
                             case['kind'].startswith(('binary-unrepresentable/', 'degenerate/'))):
        ctx.case(case)
        theme_case(ctx, classify, case)
        return
    if fn == 'jenks_matrices':
        ctx.case(case)
        try:
            impl = run_jenks_impl(classify, case)
        except Exception as e:
            ctx.violation('oracle', '_run_jenks raised %s: %s' % (type(e).__name__, e), case)
            return
        check_jenks_breaks_oracle(ctx, case, impl[2])
        return
    a = np.array(case['data'], dtype='float64')
    a = np.where(np.isnan(a), a, a).astype(case.get('dtype', 'float64')) if case.get('dtype', 'float64').startswith('f') \
        else np.nan_to_num(a).astype(case['dtype'])
    agg = xr.DataArray(a, dims=['y', 'x'])
    ctx.case(case)
    if fn == 'reclassify':
        out = to_floats(classify.reclassify(agg, bins=case['bins'], new_values=case['new_values']).data)
        check_reclass_oracle(ctx, to_floats(a), case['bins'], case['new_values'], out, case, 'reclassify')
    elif fn == 'binary':
        out = to_floats(classify.binary(agg, case['values']).data)
        for r, row in enumerate(to_floats(a)):
            for c, v in enumerate(row):
                listed = any(v == x for x in case['values'])
                exp = 1.0 if listed else (0.0 if not (math.isnan(v) or math.isinf(v)) else float('nan'))
                o = out[r][c]
                if not (o == exp or (math.isnan(o) and math.isnan(exp))):
                    ctx.violation('oracle', 'binary: cell %r got %r expected %r' % (v, o, exp), case)
                    return
    else:
        import contextlib
        import io
        with BinCapture(classify) as cap:
            with contextlib.redirect_stdout(io.StringIO()), contextlib.redirect_stderr(io.StringIO()):
                res = getattr(classify, fn)(agg, k=case['k'])
        out = to_floats(res.data)
        bins = [float(b) for b in cap.calls[0][0].tolist()] if len(cap.calls) == 1 else None
        check_datadriven_oracle(ctx, fn, a, case['k'], out, bins, case)
