"""C03 — zonal tables do not depend on how Dask rasters are chunked.
Correspondence: xrspatial.zonal.stats / crosstab on Dask-backed rasters (random independent chunkings of zones and
values) vs the extracted Coq model coq/C03/Model.v run on the same blocks; oracle: the property text itself —
the computed Dask table must equal the NumPy-backend table (exactly for ids/count/min/max/sum on integer data,
to rounding for mean/std/var)."""
import math
import multiprocessing as mp
import os
from fractions import Fraction

import numpy as np
import xarray as xr

from harness import xvio
from harness.props import c02, c04
from harness.props.c02 import NAN, INF, isfin, np_array, unjson

ID = 'C03'
RULE = ('random rasters up to 6x6 (zone alphabets as C02: negative / fractional ids, NaN and +-inf zone cells; integer-valued '
        'values with NaN/inf; nodata incl. values that empty a whole zone) x random chunkings: zones cut by a random composition '
        'of each axis (1..3 parts per axis for stats, up to single-cell chunks on tiny rasters for crosstab) and values cut '
        'INDEPENDENTLY (same / different composition); stats with random subsets of the seven statistics and zone_ids lists that '
        'contain at least one existing zone; crosstab 2-D (count / percentage, zone_ids / cat_ids selections) and 3-D count; '
        'schedulers synchronous and threads; plus a "computed together" stream: 2-3 lazy stats / crosstab tables on the same '
        'raster under different selections or on different rasters of the same shape, materialised by ONE dask.compute and each '
        'compared with its NumPy table; appended: lazy tables each computed (twice) only AFTER all other calls, in reverse order; '
        'every argument in C / F / transposed / strided / reversed / non-writeable layout; zone_ids as tuple / numpy arrays; '
        '1-wide chunks and single chunks; 1x1 / 1x5 / 5x1 / 2x2 rasters that are all-NaN, all-equal or have one valid cell; '
        'float16 values. Hard cases: a zone split over several blocks, a zone absent from some blocks, a '
        'selected zone with no valid cell at all. The thorough tier also enumerates all 16 chunkings of 3x3 rasters for '
        'crosstab. Non-trivial: >= 2 blocks and a zone with valid cells in >= 2 blocks or absent from a block.')
TRUSTED = [
    'Dask itself (graph construction, to_delayed block order, rechunk, schedulers, dd.concat/from_dask_array) is exercised, not '
    'modelled: the model receives the blocks obtained by cutting both rasters with the ZONES chunking in row-major block order '
    '(what validate_arrays / crosstab rechunk + zip(zones_blocks, values_blocks) produce)',
    'np.nanmax/nanmin/nansum over the stacked per-block arrays are modelled as NaN-skipping folds (omerge); NumPy primitives of '
    'the per-block kernel as in C02/C04',
    'coq/C03/GeneratedC02*.v and GeneratedC04*.v are verbatim copies of the C02 / C04 developments regenerated on every run',
    'values are integer-valued so sum / sum of squares are exact in float64: the only float difference between the backends is '
    'the documented formula for mean/std/var, compared at relative 1e-9 (1e-4 for float32 values) against the exact rational',
]
ASSUMPTIONS = [
    'at least one requested zone exists (the property\'s domain; otherwise Dask raises "No objects to concatenate")',
    'the source carries fixes/C03-empty-zone-nan.diff, fixes/C03-crosstab-2d-rechunk.diff and the C02/C04 patches (without them: '
    'violations with keys dask-empty-zone-sum-count-zero / dask-crosstab-2d-chunks-differ / neg-inf-zone-shifts-slices / '
    'cat-ids-skip-present-category / zone-ids-request-order-labels)',
    'zone_ids contains no NaN in the theorems',
]
PARTIAL = [
    'schedulers / worker counts are exercised (synchronous, threads), not modelled',
    'floating-point rounding of sum/mean/std/var: the theorems are exact (Z and Q); "equal to rounding of the documented formulas" '
    'is checked by tolerance on integer-valued data only; std is sqrt(var) outside Coq',
    '3-D crosstab under Dask (count per layer) is compared with the NumPy backend by the oracle only (not modelled in C03)',
    'the values raster is assumed rechunked to the zones chunking (the rechunk calls are exercised, not modelled)',
]
LEVEL_TEXT = ('Proved for every raster and EVERY partition of its cells into blocks (Coq, closed under the global context): the '
              'NaN-skipping combination of per-block max/min/sum/count/sum-of-squares equals the statistic of the whole '
              '(C03_combine), the Dask variance formula is the mean squared deviation (C03_dask_var_eq), the whole Dask stats table '
              '(rows, max, min, sum, count, mean exactly; var as rationals; empty selected zone NaN on both sides) equals the NumPy '
              'table (C03_dask_stats_eq_numpy), and the summed per-block crosstab equals the NumPy crosstab for count and '
              'percentage under any zone/category selection (C03_dask_crosstab_eq_numpy). Schedulers, the rechunk of values, std '
              'and float rounding are correspondence/oracle only.')
LEVEL_NOTE = ('Trusted: Coq kernel, extraction, OCaml driver, harness; Dask and NumPy primitives are modelled not verified; the model '
              'is tied to the Dask paths of xrspatial.zonal on every run by the correspondence check on generated chunkings.')

K_EMPTY = 'dask-empty-zone-sum-count-zero'
K_RECHUNK = 'dask-crosstab-2d-chunks-differ'
K_NINF = 'neg-inf-zone-shifts-slices'
K_SQ = c02.K_SQ
K_CAT = c04.K_CAT
K_ZONE = c04.K_ZONE
STATS = c02.ALL_STATS


def facts(repo):
    out = c04.copies('C02', ['Model', 'Sorting', 'Proofs', 'Reducers'], 'C03')
    out.update(c04.copies('C04', ['Model', 'Proofs'], 'C03'))
    return out


# --------------------------------------------------------------------------- generation
def composition(rng, n, max_parts):
    k = rng.randint(1, min(n, max_parts))
    cuts = sorted(rng.sample(range(1, n), k - 1)) if k > 1 else []
    return [b - a for a, b in zip([0] + cuts, cuts + [n])]


def all_compositions(n):
    if n == 0:
        return [[]]
    return [[k] + rest for k in range(1, n + 1) for rest in all_compositions(n - k)]


def gen_case(rng, i, kind):
    rows, cols = c02.shape_for(rng, True)
    zd, vd = c02.pick_dtypes(i)
    zones, alphabet = c02.gen_zones(rng, rows, cols, zd, p_nan=0.06, p_pinf=0.03, p_ninf=0.03)
    present = c02.finite_zone_ids(zones)
    if not present:
        zones[0][0] = 1.0
        present = [1.0]
    if kind == 'stats':
        maxp = 2 if rng.random() < 0.8 else 3
    else:
        maxp = 3 if rows * cols > 6 else 6
    zch = [composition(rng, rows, maxp), composition(rng, cols, maxp)]
    u = rng.random()
    vch = zch if u < 0.5 else [composition(rng, rows, 3), composition(rng, cols, 3)]
    if rng.random() < 0.6 or len(present) == 0:
        zone_ids = None
    else:
        zone_ids = c04.sub_list(rng, present, [11.0, -7.0], kind != 'xtab3')
        if not any(float(z) in present for z in zone_ids):
            zone_ids.append(rng.choice(present))
        zone_ids = c04.maybe_int(rng, zone_ids)
    case = dict(fn=kind, zones=zones, zdtype=zd, vdtype=vd, zone_ids=zone_ids, zchunks=zch, vchunks=vch,
                scheduler='threads' if rng.random() < 0.15 else 'synchronous')
    if kind == 'stats':
        values = c02.gen_values(rng, rows, cols, vd)
        vals_present = [v for row in values for v in row if isfin(v)]
        u = rng.random()
        nodata = None if u < 0.4 else (rng.choice(vals_present) if (u < 0.7 and vals_present) else (0 if u < 0.8 else (NAN if u < 0.9 else rng.choice(present))))
        if rng.random() < 0.3:                      # hard case: a zone with no valid cell
            z0 = rng.choice(present)
            fill = NAN if (vd.startswith('float') and (nodata is None or rng.random() < 0.5)) else nodata
            if fill is not None and c02.fits(fill, vd):
                for r in range(rows):
                    for c in range(cols):
                        if zones[r][c] == z0:
                            values[r][c] = float(fill)
        names = [s for s in STATS if rng.random() < 0.5] or ['count']
        rng.shuffle(names)
        case.update(values=values, nodata=nodata, stats=names)
    elif kind == 'xtab2':
        values = c02.gen_values(rng, rows, cols, vd, small=True)
        cats = sorted({v for row in values for v in row if isfin(v)})
        u = rng.random()
        nodata = None if u < 0.5 else (rng.choice(cats) if (u < 0.8 and cats) else (NAN if u < 0.9 else 0))
        cat_ids = None if rng.random() < 0.5 else c04.maybe_int(rng, c04.sub_list(rng, cats, [7.0], False))
        case.update(values=values, nodata=nodata, cat_ids=cat_ids, agg='percentage' if rng.random() < 0.4 else 'count', ndim=2)
    else:
        nl = rng.randint(1, 3)
        labels = rng.sample([0.0, 1.0, 2.0, 5.0, 7.0], nl)
        layers = [c02.gen_values(rng, rows, cols, vd) for _ in range(nl)]
        case.update(layers=layers, labels=labels, nodata=None if rng.random() < 0.5 else 0,
                    cat_ids=None if rng.random() < 0.5 else c04.maybe_int(rng, c04.sub_list(rng, labels, [99.0], False)),
                    agg='count', ndim=3, layer_axis=rng.choice([0, 2]))
    return case


def chunk_tuple(ch):
    return (tuple(ch[0]), tuple(ch[1]))


# --------------------------------------------------------------------------- implementation (runs in worker processes)
def eval_case(case):
    """returns dict(numpy=..., dask=...) with canonical tables or ('raised', text)"""
    import warnings
    warnings.filterwarnings('ignore')
    import dask
    import dask.array as da
    from xrspatial.zonal import stats, crosstab
    res = {}
    z = c02.layout_array(case['zones'], case['zdtype'], case.get('zlayout', 'C'))
    zone_ids = c02.ids_arg(case['zone_ids'], case.get('ids_as'))
    for backend in ('numpy', 'dask'):
        try:
            if case['fn'] == 'stats':
                v = c02.layout_array(case['values'], case['vdtype'], case.get('vlayout', 'C'))
                if backend == 'dask':
                    za = xr.DataArray(da.from_array(z, chunks=chunk_tuple(case['zchunks'])), dims=['y', 'x'])
                    va = xr.DataArray(da.from_array(v, chunks=chunk_tuple(case['vchunks'])), dims=['y', 'x'])
                else:
                    za, va = xr.DataArray(z, dims=['y', 'x']), xr.DataArray(v, dims=['y', 'x'])
                with dask.config.set(scheduler=case['scheduler']):
                    df = stats(zones=za, values=va, zone_ids=zone_ids, stats_funcs=list(case['stats']),
                               nodata_values=case['nodata'])
                    if backend == 'dask':
                        lazy = df
                        df = lazy.compute()
                        if case.get('repeat'):            # the same lazy result materialised twice
                            again = lazy.compute()
                            if not df.equals(again):
                                raise AssertionError('the same lazy table computed twice differs')
                cols = list(df.columns)
                res[backend] = dict(cols=cols, rows=[dict((c, float(df[c].iloc[i])) for c in cols) for i in range(len(df))])
            else:
                sub = dict(case, backend=backend, chunks=[tuple(case['zchunks'][0]), tuple(case['zchunks'][1])], zids_as=case.get('ids_as'))
                if backend == 'dask':
                    sub['vchunks'] = [tuple(case['vchunks'][0]), tuple(case['vchunks'][1])]
                with dask.config.set(scheduler=case['scheduler']):
                    res[backend] = c04.run_impl(sub)
        except Exception as e:          # noqa
            res[backend] = ('raised', '%s: %s' % (type(e).__name__, str(e)[:200]))
    return res


def stats_lazy(case, backend):
    import dask.array as da
    from xrspatial.zonal import stats
    z = c02.layout_array(case['zones'], case['zdtype'], case.get('zlayout', 'C'))
    v = c02.layout_array(case['values'], case['vdtype'], case.get('vlayout', 'C'))
    if backend == 'dask':
        za = xr.DataArray(da.from_array(z, chunks=chunk_tuple(case['zchunks'])), dims=['y', 'x'])
        va = xr.DataArray(da.from_array(v, chunks=chunk_tuple(case['vchunks'])), dims=['y', 'x'])
    else:
        za, va = xr.DataArray(z, dims=['y', 'x']), xr.DataArray(v, dims=['y', 'x'])
    return stats(zones=za, values=va, zone_ids=case['zone_ids'], stats_funcs=list(case['stats']), nodata_values=case['nodata'])


def canon_stats(df):
    cols = list(df.columns)
    return dict(cols=cols, rows=[dict((c, float(df[c].iloc[i])) for c in cols) for i in range(len(df))])


def eval_together(group):
    """several lazy Dask tables (different rasters and/or selections) materialised by ONE dask.compute; returns one
    dict(numpy=..., dask=...) per variant"""
    import warnings
    warnings.filterwarnings('ignore')
    import dask
    out = [dict() for _ in group['variants']]
    lazies = []
    for i, case in enumerate(group['variants']):
        sub = dict(case, chunks=[tuple(case['zchunks'][0]), tuple(case['zchunks'][1])],
                   vchunks=[tuple(case['vchunks'][0]), tuple(case['vchunks'][1])])
        try:
            if case['fn'] == 'stats':
                out[i]['numpy'] = canon_stats(stats_lazy(case, 'numpy'))
            else:
                nsub = dict(sub, backend='numpy')
                nsub.pop('vchunks')
                out[i]['numpy'] = c04.run_impl(nsub)
        except Exception as e:      # noqa
            out[i]['numpy'] = ('raised', '%s: %s' % (type(e).__name__, str(e)[:200]))
        try:
            lazies.append(stats_lazy(case, 'dask') if case['fn'] == 'stats' else c04.call_impl(dict(sub, backend='dask')))
        except Exception as e:      # noqa
            lazies.append(None)
            out[i]['dask'] = ('raised', '%s: %s' % (type(e).__name__, str(e)[:200]))
    idx = [i for i, l in enumerate(lazies) if l is not None]
    try:
        with dask.config.set(scheduler=group['scheduler']):
            if group.get('mode') == 'deferred':
                # every lazy table is materialised on its own, in REVERSE order of creation, only after all the other calls
                # (the NumPy calls above and the other computes) have run; the first one is computed twice
                got = {}
                for i in reversed(idx):
                    got[i] = lazies[i].compute()
                again = lazies[idx[0]].compute() if idx else None
                if idx and not got[idx[0]].equals(again):
                    raise AssertionError('the same lazy table computed twice differs')
                dfs = [got[i] for i in idx]
            else:
                dfs = dask.compute(*[lazies[i] for i in idx])
        for i, df in zip(idx, dfs):
            out[i]['dask'] = canon_stats(df) if group['variants'][i]['fn'] == 'stats' else c04.canon_df(df)
    except Exception as e:      # noqa
        for i in idx:
            out[i]['dask'] = ('raised', '%s: %s' % (type(e).__name__, str(e)[:200]))
    return out


def gen_together(rng, i):
    """2-3 lazy results to be computed together: the same raster under different selections, or different rasters of the
    same shape and chunking (so that per-block task names / keys of the calls are as similar as they can be)"""
    kind = 'xtab2' if i % 3 != 2 else 'stats'
    base = gen_case(rng, i, kind)
    if kind == 'stats':
        base['zchunks'] = [composition(rng, len(base['zones']), 2), composition(rng, len(base['zones'][0]), 2)]
    base['vchunks'] = base['zchunks']
    rows, cols = len(base['zones']), len(base['zones'][0])
    variants = [base]
    for k in range(rng.randint(1, 2)):
        v = dict(base)
        present = c02.finite_zone_ids(base['zones'])
        mode = rng.random()
        if mode < 0.5:                       # another raster, same shape / chunking / call arguments
            other = gen_case(rng, i + 7 * (k + 1), kind)
            v['zones'], _ = c02.gen_zones(rng, rows, cols, base['zdtype'], alphabet=present or [1.0], p_ninf=0.0)
            v['values'] = c02.gen_values(rng, rows, cols, base['vdtype'], small=(kind == 'xtab2'))
        else:                                # the same raster, another selection
            v['zone_ids'] = c04.maybe_int(rng, [rng.choice(present)] + (c04.sub_list(rng, present, [11.0], False) if rng.random() < 0.5 else []))
            if kind == 'xtab2':
                cats = sorted({x for row in base['values'] for x in row if isfin(x)})
                v['cat_ids'] = None if (rng.random() < 0.4 or not cats) else c04.maybe_int(rng, c04.sub_list(rng, cats, [7.0], False))
        variants.append(v)
    for v in variants:                       # Dask needs at least one requested zone to exist
        pres = c02.finite_zone_ids(v['zones'])
        if v['zone_ids'] is not None and not any(float(z) in pres for z in v['zone_ids']):
            v['zone_ids'] = None
    return dict(fn='together', variants=variants, scheduler=base['scheduler'])


# --------------------------------------------------------------------------- classes of known (fixed) defects
def empty_selected_zone(case):
    nd = None if case['nodata'] is None else float(case['nodata'])
    return any(not c02.zone_valid_values(case['zones'], case['values'], z, nd)
               for z in c02.requested_rows(case['zones'], case['zone_ids']))


def key_for(case, what=None):
    if case['fn'] == 'stats' and what in ('std', 'var') and c02.sumsq_overflow_class(dict(case, backend='dask'), what):
        return K_SQ
    if c02.has_neg_inf_zone(case):
        return K_NINF
    if case['fn'] == 'stats':
        if what in ('sum', 'count') and empty_selected_zone(case):
            return K_EMPTY
        if what in ('std', 'var') and c02.sumsq_overflow_class(dict(case, backend='dask'), what):
            return K_SQ
        return None
    if case['fn'] == 'xtab2' and chunk_tuple(case['zchunks']) != chunk_tuple(case['vchunks']):
        return K_RECHUNK
    return None


def corr_key(case):
    """correspondence differences that are explained by the (fixed) C04 defects shared by both backends"""
    k = key_for(case)
    if k:
        return k
    if case['fn'] in ('xtab2', 'xtab3'):
        sub = dict(case)
        if c04.in_zone_class(sub):
            return K_ZONE
        if case['fn'] == 'xtab2':
            nd = None if case['nodata'] is None else float(case['nodata'])
            existing = sorted({v for row in case['values'] for v in row if c02.valid_value(v, nd)})
            if c04.in_cat_class(sub, existing):
                return K_CAT
    return None


# --------------------------------------------------------------------------- oracle: Dask table == NumPy table
def oracle(ctx, case, res):
    n, d = res['numpy'], res['dask']
    if isinstance(n, tuple):
        if isinstance(d, tuple):
            return True           # both backends refuse the input alike (e.g. duplicate zone_ids before the C04 patch)
        ctx.violation('oracle', '%s: NumPy backend raised %s but Dask returned a table' % (case['fn'], n[1]), case, key=corr_key(case))
        return False
    if isinstance(d, tuple):
        ctx.violation('oracle', '%s: Dask backend raised %s (chunks zones=%r values=%r) where NumPy returns a table' % (
            case['fn'], d[1], case['zchunks'], case['vchunks']), case, key=key_for(case))
        return False
    if case['fn'] == 'stats':
        if n['cols'] != d['cols'] or [r['zone'] for r in n['rows']] != [r['zone'] for r in d['rows']]:
            ctx.violation('oracle', 'stats: Dask rows/columns %r %r differ from NumPy %r %r' % (
                d['cols'], [r['zone'] for r in d['rows']], n['cols'], [r['zone'] for r in n['rows']]),
                dict(case, numpy=n, dask=d), key=key_for(case))
            return False
        tol = c02.TOL.get(case['vdtype'], 1e-9)
        for rn, rd in zip(n['rows'], d['rows']):
            for s in case['stats']:
                a, b = rn[s], rd[s]
                if s in ('count', 'min', 'max', 'sum'):
                    ok = c02.feq(a, b)
                else:
                    ok = (math.isnan(a) and math.isnan(b)) or (not math.isnan(a) and not math.isnan(b) and abs(a - b) <= tol * (1 + abs(a)))
                if not ok:
                    ctx.violation('oracle', 'stats: zone %r %s: Dask %r (chunks zones=%r values=%r) vs NumPy %r' % (
                        rn['zone'], s, b, case['zchunks'], case['vchunks'], a),
                        dict(case, numpy=n, dask=d, zone=rn['zone'], stat=s), key=key_for(case, s))
                    return False
        return True
    if n['cols'] != d['cols'] or [r[0] for r in n['rows']] != [r[0] for r in d['rows']]:
        ctx.violation('oracle', 'crosstab: Dask rows/columns differ from NumPy: %r %r vs %r %r' % (
            d['cols'], [r[0] for r in d['rows']], n['cols'], [r[0] for r in n['rows']]), dict(case, numpy=n, dask=d),
            key=key_for(case))
        return False
    for (z, en), (_, ed) in zip(n['rows'], d['rows']):
        for c, a, b in zip(n['cols'], en, ed):
            ok = c02.feq(a, b) if case['agg'] == 'count' else ((math.isnan(a) and math.isnan(b)) or abs(a - b) <= 1e-9 * (1 + abs(a)))
            if not ok:
                ctx.violation('oracle', 'crosstab(%s): zone %r category %r: Dask %r (chunks zones=%r values=%r) vs NumPy %r' % (
                    case['agg'], z, c, b, case['zchunks'], case['vchunks'], a), dict(case, numpy=n, dask=d), key=key_for(case))
                return False
    return True


# --------------------------------------------------------------------------- model
def blocks_tok(case, s):
    zones, values = case['zones'], case['values']
    rb, cb = case['zchunks']
    out = []
    r0 = 0
    for h in rb:
        c0 = 0
        for w in cb:
            cells = ['%s %s' % (xvio.tok(zones[r][c], s), xvio.tok(values[r][c], 1))
                     for r in range(r0, r0 + h) for c in range(c0, c0 + w)]
            out.append('%d %s' % (len(cells), ' '.join(cells)))
            c0 += w
        r0 += h
    return '%d %s' % (len(out), ' '.join(out))


def model_line(case):
    s = c02.zone_scale(case['zones'], [z for z in (case['zone_ids'] or []) if isfin(float(z))])
    if case['fn'] == 'stats':
        return 'ds %s %s %s' % (c02.nodata_tok(case['nodata']), c02.ids_tok(case['zone_ids'], s), blocks_tok(case, s)), s
    cid = '-1' if case['cat_ids'] is None else xvio.lst([float(c) for c in case['cat_ids']], 1)
    return 'dx %s %s %s %s %s' % ('pct' if case['agg'] == 'percentage' else 'count', c02.nodata_tok(case['nodata']),
                                  c02.ids_tok(case['zone_ids'], s), cid, blocks_tok(case, s)), s


DS_COLS = ['zone', 'count', 'sum', 'min', 'max', 'mean', 'var']


def compare_model(ctx, case, d, mo, s):
    if mo.startswith('ERR'):
        ctx.violation('correspondence', 'model returned %s' % mo[:80], case)
        return
    rows = [g.split() for g in mo.split(';')] if mo.strip() else []
    if case['fn'] == 'stats':
        if len(rows) != len(d['rows']):
            ctx.violation('correspondence', 'stats(dask): %d rows vs model %d' % (len(d['rows']), len(rows)),
                          dict(case, impl=d, model=mo), key=corr_key(case))
            return
        for r, m in zip(d['rows'], rows):
            md = dict(zip(DS_COLS, m))
            if not xvio.same(r['zone'], xvio.parse(md['zone'], s)):
                ctx.violation('correspondence', 'stats(dask): row zone %r vs model %s' % (r['zone'], md['zone']),
                              dict(case, impl=d, model=mo), key=corr_key(case))
                return
            for st in case['stats']:
                q = c02.parse_num(md['var' if st == 'std' else st])
                if not c02.close_q(st, r[st], q, case['vdtype']):
                    ctx.violation('correspondence', 'stats(dask): zone %r %s: implementation %r vs model %s' % (
                        r['zone'], st, r[st], md['var' if st == 'std' else st]), dict(case, impl=d, model=mo),
                        key=key_for(case, st) or corr_key(case))
                    return
        return
    if len(rows) != len(d['rows']):
        ctx.violation('correspondence', 'crosstab(dask): %d rows vs model %d' % (len(d['rows']), len(rows)),
                      dict(case, impl=d, model=mo), key=corr_key(case))
        return
    for (z, ges), m in zip(d['rows'], rows):
        if not xvio.same(z, xvio.parse(m[0], s)) or len(m) - 2 != len(ges):
            ctx.violation('correspondence', 'crosstab(dask): row zone %r vs model %s' % (z, m[0]), dict(case, impl=d, model=mo),
                          key=corr_key(case))
            return
        for g, t in zip(ges, m[2:]):
            if not c02.close_q('count' if case['agg'] == 'count' else 'mean', g, c02.parse_num(t), 'float64'):
                ctx.violation('correspondence', 'crosstab(dask,%s): zone %r implementation %r vs model %s' % (case['agg'], z, g, t),
                              dict(case, impl=d, model=mo), key=corr_key(case))
                return


def nblocks(case):
    return len(case['zchunks'][0]) * len(case['zchunks'][1])


def nontrivial(case):
    return nblocks(case) >= 2


def gen_all(ctx):
    rng = ctx.rng
    q = ctx.quick()
    n_stats, n_x2, n_x3 = (160, 260, 50) if q else (1600, 2400, 400)
    cases = []
    for i in range(n_stats):
        cases.append(gen_case(rng, i, 'stats'))
    for i in range(n_x2):
        cases.append(gen_case(rng, i, 'xtab2'))
    for i in range(n_x3):
        cases.append(gen_case(rng, i, 'xtab3'))
    if not q:
        # every chunking of a few 3x3 rasters (16 chunkings of the zones; values cut differently)
        comps = all_compositions(3)
        for k in range(6):
            base = gen_case(rng, k, 'xtab2')
            zones, _ = c02.gen_zones(rng, 3, 3, 'float64', p_ninf=0.02)
            values = c02.gen_values(rng, 3, 3, 'float64', small=True)
            for rc in comps:
                for cc in comps:
                    cases.append(dict(base, zones=zones, values=values, zdtype='float64', vdtype='float64', zone_ids=None,
                                      cat_ids=None, nodata=None, zchunks=[rc, cc], vchunks=[cc, rc], scheduler='synchronous'))
    # appended: irregular zones / values chunk pairs (same per-axis max, same block count, one side unchunked)
    for i in range(21 if q else 300):
        kind = ['stats', 'xtab2', 'xtab3'][i % 3]
        c = gen_case(rng, i, kind)
        rows, cols = rng.randint(3, 8), rng.randint(2, 6)
        c['zones'], _ = c02.gen_zones(rng, rows, cols, c['zdtype'], p_nan=0.04, p_pinf=0.02, p_ninf=0.02)
        if not c02.finite_zone_ids(c['zones']):
            c['zones'][0][0] = 1.0
        c['zone_ids'] = None
        if kind == 'xtab3':
            c['layers'] = [c02.gen_values(rng, rows, cols, c['vdtype']) for _ in c['labels']]
        else:
            c['values'] = c02.gen_values(rng, rows, cols, c['vdtype'], small=(kind == 'xtab2'))
            c['nodata'] = None
            if kind == 'xtab2':
                c['cat_ids'] = None
        c['zchunks'], c['vchunks'], c['chunkmode'] = c02.chunk_pairs_2d(rng, rows, cols)
        cases.append(c)
    # appended theme cases: layouts of each argument, id containers, 1-wide / single chunks, degenerate rasters, repeated compute
    for i in range(18 if q else 400):
        kind = ['stats', 'xtab2'][i % 2]
        c = gen_case(rng, i, kind)
        th = ['layout', 'containers', 'one-wide-chunks', 'degenerate', 'repeat', 'float16'][(i // 2) % 6]
        c['theme'] = th
        rows, cols = len(c['zones']), len(c['zones'][0])
        present = c02.finite_zone_ids(c['zones'])
        if th == 'layout':
            c['zlayout'], c['vlayout'] = rng.choice(c02.LAYOUTS6), rng.choice(c02.LAYOUTS6[1:])
        elif th == 'containers':
            ids = [int(z) for z in present if float(z) == int(z) and abs(z) < 100]
            if ids:
                c['zone_ids'] = rng.sample(ids, rng.randint(1, len(ids)))
                c['ids_as'] = rng.choice(['tuple', 'ndarray:int64', 'ndarray:float32', 'ndarray:int16'])
        elif th == 'one-wide-chunks':
            if rng.random() < 0.5:
                c['zchunks'] = [[1] * rows, [cols]] if rows <= 6 else [[rows], [1] * min(cols, 6) + ([cols - 6] if cols > 6 else [])]
            else:
                c['zchunks'] = [[rows], [1] * cols] if cols <= 6 else [[1] * rows, [cols]]
            c['vchunks'] = c['zchunks'] if rng.random() < 0.5 else [[rows], [cols]]
        elif th == 'degenerate':
            shape = rng.choice([(1, 1), (1, 5), (5, 1), (2, 2)])
            z0 = present[0]
            c['zones'] = [[z0] * shape[1] for _ in range(shape[0])]
            c['zone_ids'] = None
            mode = rng.choice(['all-nan', 'single-valid', 'all-equal'])
            vv = [[c02.NAN if mode != 'all-equal' else 2.0] * shape[1] for _ in range(shape[0])]
            if mode == 'single-valid':
                vv[rng.randrange(shape[0])][rng.randrange(shape[1])] = 3.0
            c['values'], c['vdtype'] = vv, 'float64'
            c['nodata'] = None
            if kind == 'xtab2':
                c['cat_ids'] = None
            c['zchunks'] = [composition(rng, shape[0], 2), composition(rng, shape[1], 3)]
            c['vchunks'] = c['zchunks'] if rng.random() < 0.5 else [[shape[0]], [shape[1]]]
            c['degenerate'] = '%dx%d/%s' % (shape[0], shape[1], mode)
        elif th == 'repeat':
            c['repeat'] = True
        elif th == 'float16' and kind == 'stats':
            c['vdtype'] = 'float16'
            c['values'] = c02.gen_values(rng, rows, cols, 'float16')
            c['nodata'] = None
        cases.append(c)
    return cases


def run_together(ctx, groups, pool):
    results = pool.map(eval_together, groups, chunksize=1)
    for group, res in zip(groups, results):
        ctx.case(group, nontrivial=True)
        ctx.count('%s/%s/%d-lazy-results' % ('deferred-compute' if group.get('mode') == 'deferred' else 'together', group['variants'][0]['fn'], len(group['variants'])))
        for i, (case, r) in enumerate(zip(group['variants'], res)):
            n0 = len(ctx.violations)
            oracle(ctx, case, r)
            for v in ctx.violations[n0:]:
                v['what'] = '[variant %d of %d lazy Dask results %s] %s' % (
                    i + 1, len(group['variants']), 'each computed only after all other calls' if group.get('mode') == 'deferred'
                    else 'materialised by ONE dask.compute', v['what'])
                v['replay'] = dict(group, failing_variant=i)


def run(ctx, cases=None, groups=None):
    fresh = cases is None
    cases = cases if cases is not None else gen_all(ctx)
    if groups is None:
        groups = [gen_together(ctx.rng, i) for i in range((45 if ctx.quick() else 500) if fresh else 0)]
        for i in range((6 if ctx.quick() else 200) if fresh else 0):       # appended: deferred compute
            g = gen_together(ctx.rng, i)
            g['mode'] = 'deferred'
            groups.append(g)
    workers = int(os.environ.get('VERIF_POOL', '6'))
    with mp.get_context('fork').Pool(min(6, workers)) as pool:
        results = pool.map(eval_case, cases, chunksize=2)
        if groups:
            run_together(ctx, groups, pool)
    pending = []
    for case, res in zip(cases, results):
        ctx.case(case, nontrivial=nontrivial(case))
        if case.get('theme'):
            ctx.count('theme/%s/%s%s' % (case['fn'], case['theme'], '/' + case['degenerate'] if case.get('degenerate') else ''))
        ctx.count('%s/blocks=%d/%s/%s' % (case['fn'], nblocks(case),
                                          'same-chunks' if chunk_tuple(case['zchunks']) == chunk_tuple(case['vchunks']) else 'values-chunked-differently',
                                          case['scheduler']))
        if case['fn'] == 'stats' and empty_selected_zone(case):
            ctx.count('hard/selected-zone-without-valid-cell')
        oracle(ctx, case, res)
        if case['fn'] in ('stats', 'xtab2') and not isinstance(res['dask'], tuple):
            line, s = model_line(case)
            pending.append((line, s, case, res['dask']))
    if ctx.model is not None and pending:
        outs = ctx.model.run([p[0] for p in pending])
        for (line, s, case, d), mo in zip(pending, outs):
            ctx.traces += 1
            compare_model(ctx, case, d, mo, s)
    ctx.exhaustive = False


def search(ctx):
    old, model = ctx.tier, ctx.model
    ctx.model = None
    try:
        rng = ctx.rng
        cases = [gen_case(rng, i, kind) for i in range(150) for kind in ('stats', 'xtab2')]
        run(ctx, cases)
    finally:
        ctx.tier, ctx.model = old, model


def replay_case(ctx, case):
    if case.get('fn') == 'together':
        group = dict(case)
        group.pop('failing_variant', None)
        group['variants'] = [dict(v) for v in group['variants']]
        for v in group['variants']:
            for k in ('zones', 'values', 'zone_ids', 'cat_ids', 'nodata'):
                if k in v:
                    v[k] = unjson(v[k])
        with mp.get_context('fork').Pool(1) as pool:
            run_together(ctx, [group], pool)
        return
    case = dict(case)
    for k in ('zones', 'values', 'layers', 'labels', 'zone_ids', 'cat_ids', 'nodata'):
        if k in case:
            case[k] = unjson(case[k])
    for k in ('numpy', 'dask', 'impl', 'model', 'zone', 'stat'):
        case.pop(k, None)
    ctx.case(case)
    oracle(ctx, case, eval_case(case))
